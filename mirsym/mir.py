"""Parser for rustc `-Zunpretty=mir` text (the subset rustc 1.97-nightly prints for this workspace).
Everything is pre-parsed into tuples so that the executor does no string work at run time.
Anything not understood is kept as ('unsupported', text) and makes the executor raise
Unsupported when (and only when) it is reached.
"""
import re
import pickle
import os
import hashlib

class Fn:
    __slots__ = ('name', 'args', 'ret', 'locals', 'blocks', 'crate', 'impl_loc', 'key', 'debug', 'is_const')
    def __init__(self, name, args, ret, crate):
        self.name = name
        self.args = args          # [(local, type)]
        self.ret = ret
        self.locals = {}          # local -> type string
        self.blocks = {}          # bb -> (stmts, term)
        self.crate = crate
        self.impl_loc = None      # (file, line) of the `impl` the fn is defined in
        self.key = None
        self.debug = {}           # debug name -> local
        self.is_const = False
    def __repr__(self):
        return f'<Fn {self.crate}::{self.name}>'

# --------------------------------------------------------------------------------------------
# low-level text helpers
OPEN = '([{'
CLOSE = ')]}'

def _lit_end(s, i):
    """if a string or char literal starts at s[i] return the index just past it, else i"""
    c = s[i]
    n = len(s)
    if c == '"':
        j = i + 1
        while j < n:
            if s[j] == '\\':
                j += 2
                continue
            if s[j] == '"':
                return j + 1
            j += 1
        return n
    if c == "'":
        if i + 1 < n and s[i + 1] == '\\':
            j = s.find("'", i + 3)
            if j >= 0 and j - i <= 12:
                return j + 1
            return i
        if i + 2 < n and s[i + 2] == "'":
            return i + 3
        return i
    return i

def _scan(s, start=0):
    """yield (i, c, depth_before) for every character outside literals, tracking () [] {} <> nesting"""
    depth = 0
    i = start
    n = len(s)
    while i < n:
        c = s[i]
        if c == '"' or c == "'":
            j = _lit_end(s, i)
            if j > i:
                yield (i, None, depth, j)
                i = j
                continue
        d0 = depth
        if c in OPEN:
            depth += 1
        elif c in CLOSE:
            depth -= 1
        elif c == '<':
            if i > 0 and (s[i - 1].isalnum() or s[i - 1] in ':_') or i == 0:
                depth += 1
        elif c == '>':
            if i > 0 and s[i - 1] in '-=':
                pass
            elif depth > 0:
                depth -= 1
        yield (i, c, d0, i + 1)
        i += 1

def split_top(s, sep=','):
    """split on `sep` at nesting depth 0 of () [] {} <> and outside string/char literals"""
    out = []
    last = 0
    for i, c, d, j in _scan(s):
        if c == sep and d == 0:
            out.append(s[last:i].strip())
            last = i + 1
    t = s[last:].strip()
    if t:
        out.append(t)
    return out

def find_top(s, needle, start=0):
    """index of first occurrence of needle at depth 0 (same nesting rules), or -1"""
    c0 = needle[0]
    for i, c, d, j in _scan(s):
        if i >= start and d == 0 and c == c0 and s.startswith(needle, i):
            return i
    return -1

def rfind_top(s, needle):
    c0 = needle[0]
    last = -1
    for i, c, d, j in _scan(s):
        if d == 0 and c == c0 and s.startswith(needle, i):
            last = i
    return last

def match_paren_back(s):
    """index of the '(' matching the final ')' of s (literal aware)"""
    stack = []
    res = -1
    for i, c, d, j in _scan(s):
        if c == '(':
            stack.append(i)
        elif c == ')':
            res = stack.pop() if stack else -1
    return res

# --------------------------------------------------------------------------------------------
# places / operands / rvalues
_LOCAL = re.compile(r'^_\d+$')

def parse_place(s):
    """-> ('place', local, (proj, ...))"""
    s = s.strip()
    proj = []
    _place(s, proj)
    base = proj[0]
    return ('place', base, tuple(proj[1:]))

def _place(s, out):
    s = s.strip()
    if _LOCAL.match(s):
        out.append(s)
        return
    if s.endswith(']'):
        # index / constant index / subslice
        depth = 0
        for k in range(len(s) - 1, -1, -1):
            if s[k] == ']':
                depth += 1
            elif s[k] == '[':
                depth -= 1
                if depth == 0:
                    break
        inner = s[k + 1:-1]
        _place(s[:k], out)
        m = re.match(r'^(-?)(\d+) of (\d+)$', inner)
        if m:
            out.append(('cindex', int(m.group(2)), int(m.group(3)), m.group(1) == '-'))
            return
        m = re.match(r'^(\d+):(-?)(\d*)$', inner)
        if m:
            out.append(('subslice', int(m.group(1)), int(m.group(3) or 0), m.group(2) == '-'))
            return
        if _LOCAL.match(inner):
            out.append(('index', inner))
            return
        raise ValueError('place index ' + s)
    if s.startswith('(') and s.endswith(')'):
        inner = s[1:-1].strip()
        if inner.startswith('*'):
            _place(inner[1:], out)
            out.append(('deref',))
            return
        k = rfind_top(inner, ': ')
        if k >= 0:
            head = inner[:k]
            ty = inner[k + 2:].strip()
            m = re.match(r'^(.*)\.(\d+)$', head, re.S)
            if m:
                _place(m.group(1), out)
                out.append(('field', int(m.group(2)), ty))
                return
        k = rfind_top(inner, ' as ')
        if k >= 0:
            _place(inner[:k], out)
            out.append(('downcast', inner[k + 4:].strip()))
            return
        _place(inner, out)
        return
    if s.startswith('*'):
        _place(s[1:], out)
        out.append(('deref',))
        return
    k = rfind_top(s, ' as ')
    if k >= 0:
        _place(s[:k], out)
        out.append(('downcast', s[k + 4:].strip()))
        return
    raise ValueError('place ' + s)

def parse_operand(s):
    s = s.strip()
    if s.startswith('copy '):
        return ('copy', parse_place(s[5:]))
    if s.startswith('move '):
        return ('move', parse_place(s[5:]))
    if s.startswith('const '):
        return ('const', s[6:].strip())
    if s and (s[0].isalpha() or s[0] in '<{_'):
        return ('fnitem', s)
    raise ValueError('operand ' + s)

BINOPS = {'Add', 'Sub', 'Mul', 'Div', 'Rem', 'BitXor', 'BitAnd', 'BitOr', 'Shl', 'Shr', 'Eq', 'Lt', 'Le', 'Ne',
          'Ge', 'Gt', 'Cmp', 'Offset', 'AddWithOverflow', 'SubWithOverflow', 'MulWithOverflow',
          'AddUnchecked', 'SubUnchecked', 'MulUnchecked', 'ShlUnchecked', 'ShrUnchecked'}
UNOPS = {'Not', 'Neg', 'PtrMetadata'}
NULLOPS = {'SizeOf', 'AlignOf', 'OffsetOf', 'UbChecks', 'ContractChecks'}
_CAST = re.compile(r'^(.*) as (.*) \(([A-Za-z]+)(\(.*\))?\)$', re.S)
_CALLISH = re.compile(r'^([A-Za-z_]\w*)\((.*)\)$', re.S)

def parse_rvalue(s):
    s = s.strip()
    if s.startswith('no_retag '):
        s = s[9:]
    if s.startswith('&raw '):
        rest = s[5:]
        mut = rest.startswith('mut ')
        rest = rest[4:] if mut else rest[6:]
        rest = rest.strip()
        if rest.startswith('(fake)'):
            rest = rest[6:].strip()
        return ('rawptr', mut, parse_place(rest))
    if s.startswith('&'):
        rest = s[1:]
        m = re.match(r"^'\w+ ", rest)
        if m:
            rest = rest[m.end():]
        mut = False
        for pre in ('mut ', 'fake shallow ', 'fake ', 'two-phase mut '):
            if rest.startswith(pre):
                mut = 'mut' in pre
                rest = rest[len(pre):]
                break
        return ('ref', mut, parse_place(rest))
    if s.startswith(('copy ', 'move ', 'const ')):
        m = _CAST.match(s)
        if m and find_top(s, ' as ') >= 0:
            k = find_top(s, ' as ')
            opnd = s[:k]
            rest = s[k + 4:]
            m2 = re.match(r'^(.*) \(([A-Za-z]+)(\(.*\))?\)$', rest, re.S)
            if m2:
                try:
                    return ('cast', parse_operand(opnd), m2.group(1).strip(), m2.group(2), m2.group(3))
                except ValueError:
                    pass
        return ('use', parse_operand(s))
    m = _CALLISH.match(s)
    if m:
        head, inner = m.group(1), m.group(2)
        if head in BINOPS:
            a, b = split_top(inner)
            return ('binop', head, parse_operand(a), parse_operand(b))
        if head in UNOPS:
            return ('unop', head, parse_operand(inner))
        if head == 'discriminant':
            return ('discr', parse_place(inner))
        if head == 'Len':
            return ('len', parse_place(inner))
        if head in NULLOPS:
            return ('nullop', head, inner.strip())
        if head == 'ShallowInitBox':
            return ('unsupported', s)
        if head == 'CopyForDeref':
            return ('use', ('copy', parse_place(inner)))
    if s.startswith('[') and s.endswith(']'):
        inner = s[1:-1]
        k = find_top(inner, '; ')
        if k >= 0:
            return ('repeat', parse_operand(inner[:k]), inner[k + 2:].strip())
        return ('array', tuple(parse_operand(x) for x in split_top(inner)))
    if s.startswith('(') and s.endswith(')'):
        inner = s[1:-1]
        return ('tuple', tuple(parse_operand(x) for x in split_top(inner) if x))
    if s.startswith('{closure@') or s.startswith('{coroutine@'):
        # {closure@file:l:c: l:c} { cap: op, ... }   or without captures
        k = s.index('}')
        loc = s[1:k]
        rest = s[k + 1:].strip()
        caps = []
        if rest.startswith('{'):
            for fs in split_top(rest[1:-1]):
                kk = fs.index(':')
                caps.append((fs[:kk].strip(), parse_operand(fs[kk + 1:])))
        return ('closure', loc, tuple(caps))
    # struct aggregate  Path { f: op, .. }
    if s.endswith('}'):
        k = find_top(s, ' {')
        if k >= 0:
            path = s[:k].strip()
            inner = s[k + 2:-1].strip()
            fields = []
            for fs in split_top(inner):
                kk = fs.index(':')
                fields.append((fs[:kk].strip(), parse_operand(fs[kk + 1:])))
            return ('agg_struct', path, tuple(fields))
    # Path::Variant(ops) / TupleStruct(ops) / Path::Variant / UnitStruct
    if s.endswith(')'):
        # find the matching '(' of the last ')'
        k = match_paren_back(s)
        path = s[:k].strip()
        inner = s[k + 1:-1]
        return ('agg_call', path, tuple(parse_operand(x) for x in split_top(inner)))
    if re.match(r'^[\w:<>\', &\[\];\(\)\*\-]+$', s):
        return ('agg_call', s, None)
    return ('unsupported', s)

# --------------------------------------------------------------------------------------------
# terminators
_TARGETS = re.compile(r' -> (\[.*\]|unwind .*|bb\d+)$', re.S)

def parse_term(t):
    t = t.strip()
    if t.endswith(';'):
        t = t[:-1]
    if t == 'return':
        return ('return',)
    if t == 'unreachable':
        return ('unreachable',)
    if t.startswith('resume') or t.startswith('unwind '):
        return ('resume',)
    if t.startswith('goto -> '):
        return ('goto', t[8:].strip())
    if t.startswith('switchInt('):
        k = find_top(t, ' -> ')
        op = parse_operand(t[len('switchInt('):k - 1])
        arms = []
        other = None
        for a in split_top(t[k + 5:-1]):
            v, bb = a.split(': ')
            if v == 'otherwise':
                other = bb
            else:
                arms.append((int(v), bb))
        return ('switch', op, tuple(arms), other)
    if t.startswith('assert('):
        k = rfind_top(t, ' -> ')
        inner = t[len('assert('):k - 1]
        parts = split_top(inner)
        cond = parts[0]
        neg = cond.startswith('!')
        if neg:
            cond = cond[1:]
        m = re.search(r'success: (bb\d+)', t[k:])
        return ('assert', neg, parse_operand(cond), parts[1] if len(parts) > 1 else '', m.group(1))
    if t.startswith('drop('):
        k = rfind_top(t, ' -> ')
        pl = parse_place(t[5:k - 1])
        m = re.search(r'return: (bb\d+)', t[k:])
        return ('drop', pl, m.group(1))
    if t.startswith('falseEdge') or t.startswith('falseUnwind'):
        m = re.search(r'(bb\d+)', t)
        return ('goto', m.group(1))
    # call:  DEST = CALLEE(args) -> [return: bbN, unwind ...]   |  CALLEE(args) -> unwind ...
    k = rfind_top(t, ' -> ')
    if k >= 0:
        head = t[:k]
        tail = t[k + 4:]
        m = re.search(r'return: (bb\d+)', tail)
        ret_bb = m.group(1) if m else None
        dest = None
        e = find_top(head, ' = ')
        if e >= 0:
            dest = parse_place(head[:e])
            head = head[e + 3:]
        head = head.strip()
        # split callee and args: matching '(' of final ')'
        j = match_paren_back(head)
        callee = head[:j].strip()
        args = tuple(parse_operand(x) for x in split_top(head[j + 1:-1]))
        return ('call', dest, callee, args, ret_bb)
    if t.startswith('tailcall '):
        return ('unsupported', t)
    return ('unsupported', t)

def parse_stmt(s):
    s = s.strip()
    if s.startswith(('StorageLive', 'StorageDead', 'ConstEvalCounter', 'nop', 'FakeRead', 'PlaceMention',
                     'Retag', 'AscribeUserType', 'Coverage', 'BackwardIncompatibleDropHint')):
        return None
    if s.endswith(';'):
        s = s[:-1]
    if s.startswith('discriminant('):
        k = find_top(s, ' = ')
        return ('setdiscr', parse_place(s[len('discriminant('):k - 1]), int(s[k + 3:]))
    if s.startswith('Deinit('):
        return None
    if s.startswith('assume('):
        return ('assume', parse_operand(s[7:-1]))
    if s.startswith('copy_nonoverlapping('):
        return ('unsupported', s)
    k = find_top(s, ' = ')
    if k < 0:
        return ('unsupported', s)
    try:
        return ('assign', parse_place(s[:k]), parse_rvalue(s[k + 3:]))
    except (ValueError, IndexError) as e:
        return ('unsupported', s)

# --------------------------------------------------------------------------------------------
# file level
_FN = re.compile(r'^fn (.*)$')
_CONST = re.compile(r'^(?:const|static|static mut) (.*?): (.*) = \{$')
_LET = re.compile(r'^\s*let (mut )?(_\d+): (.*);$', re.S)
_BB = re.compile(r'^    (bb\d+)( \(cleanup\))?: \{$')
_DEBUG = re.compile(r'^\s*debug (\S+) => (.*);$')
_IMPL_AT = re.compile(r'<impl at ([^:>]+):(\d+):\d+: \d+:\d+>')

def _parse_header(h):
    """'NAME(ARGS) -> RET {'  ->  (name, [(local,ty)], ret)"""
    assert h.endswith(' {'), h
    h = h[:-2]
    # the argument list is the first '(' at depth 0 that starts with '_1:' or is '()'
    k = -1
    i = 0
    while True:
        k = find_top(h, '(', i)
        if k < 0:
            raise ValueError('header ' + h)
        if h.startswith('(_1: ', k) or h.startswith('()', k):
            break
        i = k + 1
    name = h[:k]
    # matching close paren
    depth = 0
    for j in range(k, len(h)):
        if h[j] == '(':
            depth += 1
        elif h[j] == ')':
            depth -= 1
            if depth == 0:
                break
    argstr = h[k + 1:j]
    rest = h[j + 1:].strip()
    ret = rest[3:].strip() if rest.startswith('->') else '()'
    args = []
    for a in split_top(argstr):
        kk = a.index(':')
        args.append((a[:kk].strip(), a[kk + 1:].strip()))
    return name, args, ret

def parse_text(text, crate):
    fns = []
    lines = text.split('\n')
    i = 0
    n = len(lines)
    while i < n:
        l = lines[i]
        m = _FN.match(l)
        mc = None if m else _CONST.match(l)
        ctfe_dup = bool(m) and i > 0 and lines[i - 1].startswith('// MIR FOR CTFE')
        if not m and l.startswith('const ') and l.endswith(';') and ' = const ' in l:
            body_hdr = l[len('const '):-1]
            kk = find_top(body_hdr, ': ')
            ee = body_hdr.index(' = const ', kk)
            f = Fn(body_hdr[:kk], [], body_hdr[kk + 2:ee], crate)
            f.is_const = True
            f.locals['_0'] = f.ret
            f.blocks['bb0'] = (['_0 = ' + body_hdr[ee + 3:] + ';'], 'return;')
            fns.append(f)
            i += 1
            continue
        if m or mc:
            # headers may wrap over several lines; join until the line that ends with ' {'
            hdr = l
            j = i
            while not hdr.endswith('{'):
                j += 1
                hdr += ' ' + lines[j].strip()
            k = j + 1
            while lines[k] != '}':
                k += 1
            body = lines[j + 1:k]
            try:
                if m:
                    name, args, ret = _parse_header(hdr[3:])
                    f = Fn(name, args, ret, crate)
                else:
                    body_hdr = re.sub(r'^(?:const|static mut|static) ', '', hdr)[:-len(' = {')]
                    kk = find_top(body_hdr, ': ')
                    f = Fn(body_hdr[:kk], [], body_hdr[kk + 2:], crate)
                    f.is_const = True
                _parse_body(f, body)
                im = _IMPL_AT.search(f.name)
                if im:
                    f.impl_loc = (im.group(1), int(im.group(2)))
                if not ctfe_dup:
                    fns.append(f)
            except Exception as e:  # keep going; the function is simply not available
                fns.append(('error', hdr, repr(e)))
            i = k
        i += 1
    return fns

def _parse_body(f, body):
    for a, t in f.args:
        f.locals[a] = t
    f.locals['_0'] = f.ret
    cur = None
    stmts = None
    pending = None
    for l in body:
        if cur is None:
            m = _LET.match(l)
            if m:
                f.locals[m.group(2)] = m.group(3)
                continue
            m = _DEBUG.match(l)
            if m:
                f.debug[m.group(1)] = m.group(2)
                continue
        m = _BB.match(l)
        if m:
            cur = m.group(1)
            stmts = []
            continue
        if cur is not None:
            s = l.strip()
            if s == '}':
                term = stmts.pop() if stmts else 'unreachable;'
                f.blocks[cur] = (stmts, term)
                cur = None
                continue
            if not s:
                continue
            if pending is not None:
                pending += ' ' + s
                if s.endswith(';'):
                    stmts.append(pending)
                    pending = None
                continue
            if not s.endswith(';'):
                pending = s
                continue
            stmts.append(s)
    # lazily parsed: keep raw text; parse on demand (saves ~80% of the work)

def parsed_block(f, bb):
    b = f.blocks[bb]
    if isinstance(b, tuple) and len(b) == 2 and (not b[0] or isinstance(b[0][0], str)) and isinstance(b[1], str):
        stmts = [x for x in (parse_stmt(s) for s in b[0]) if x is not None]
        try:
            term = parse_term(b[1])
        except (ValueError, IndexError, AttributeError) as e:
            term = ('unsupported', b[1])
        b = (stmts, term, True)
        f.blocks[bb] = b
    return b

def load(path, crate, cache_dir=None):
    text = open(path).read()
    if cache_dir:
        h = hashlib.sha1(text.encode()).hexdigest()[:16]
        cp = os.path.join(cache_dir, f'{crate}-{h}.pickle')
        if os.path.exists(cp):
            try:
                return pickle.load(open(cp, 'rb'))
            except Exception:
                pass
    fns = parse_text(text, crate)
    if cache_dir:
        with open(cp + f'.tmp{os.getpid()}', 'wb') as fh:
            pickle.dump(fns, fh)
        os.replace(cp + f'.tmp{os.getpid()}', cp)
    return fns

if __name__ == '__main__':
    import sys
    import time
    t = time.time()
    fns = parse_text(open(sys.argv[1]).read(), 'x')
    errs = [f for f in fns if isinstance(f, tuple)]
    ok = [f for f in fns if not isinstance(f, tuple)]
    print(len(ok), 'functions', len(errs), 'header errors', round(time.time() - t, 2), 's')
    for e in errs[:10]:
        print(e)
    uns = 0
    tot = 0
    t = time.time()
    for f in ok:
        for bb in list(f.blocks):
            st, term, _ = parsed_block(f, bb)
            for s in st + [term]:
                tot += 1
                if s[0] == 'unsupported' or (s[0] == 'assign' and s[2][0] == 'unsupported'):
                    uns += 1
                    if uns < 40:
                        print('UNSUPPORTED', f.name, bb, s)
    print(tot, 'statements', uns, 'unsupported', round(time.time() - t, 2), 's')
