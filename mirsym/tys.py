"""Type-string helpers (MIR prints types as Rust paths)."""
import re
from functools import lru_cache
from .mir import split_top, find_top, rfind_top, _scan
from .values import INT_BITS
_LIFETIME = re.compile(r"'\w+\s*")
_SCALARS = set(INT_BITS) | {'bool', 'f64', 'f32', 'str', '()', '!'}

@lru_cache(maxsize=50000)
def norm_ty(ty):
    """canonical spelling: lifetimes removed, whitespace normalised"""
    if ty is None:
        return None
    t = ty.strip()
    if t in _SCALARS:
        return t
    t = re.sub(r"for<[^>]*>\s*", '', t)
    t = re.sub(r"::<'\w+(, '\w+)*>", '', t)    # lifetime-only turbofish
    t = re.sub(r"'\w+\s*,\s*", '', t)        # 'a, in generic lists
    t = re.sub(r"<'\w+>", '', t)             # <'a>
    t = re.sub(r"'\w+\s+", '', t)            # &'a T
    t = re.sub(r",\s*'\w+", '', t)
    t = re.sub(r"\s*\+\s*'\w+", '', t)
    t = re.sub(r'\s+', ' ', t).strip()
    t = re.sub(r'::<(?!impl )', '<', t)
    return t

@lru_cache(maxsize=50000)
def ty_kind(t):
    if t in INT_BITS or t in ('bool', 'f64', 'f32'):
        return 'scalar'
    if t.startswith('&') or t.startswith('*const ') or t.startswith('*mut '):
        return 'ref' if t.startswith('&') else 'ptr'
    if t.startswith('('):
        return 'tuple'
    if t.startswith('['):
        return 'array' if find_top(t[1:-1], ';') >= 0 else 'slice'
    if t.startswith('{closure') or t.startswith('{coroutine'):
        return 'closure'
    if t.startswith('fn(') or t.startswith('unsafe fn(') or t.startswith('extern '):
        return 'fnptr'
    if t.startswith('dyn ') or t.startswith('impl '):
        return 'dyn'
    if re.match(r'^[A-Z][A-Z0-9]?$', t) and t not in ('IO',):
        return 'param'
    if t.startswith('<'):
        return 'assoc'
    return 'adt'

@lru_cache(maxsize=50000)
def pointee_ty(t):
    if t is None:
        return None
    if t.startswith('&mut '):
        return t[5:].strip()
    if t.startswith('&'):
        return t[1:].strip()
    if t.startswith('*const '):
        return t[7:].strip()
    if t.startswith('*mut '):
        return t[5:].strip()
    return None

def is_slice_ty(t):
    return t is not None and t.startswith('[') and find_top(t[1:-1], ';') < 0

def array_parts(t):
    inner = t[1:-1]
    k = rfind_top(inner, ';')
    return inner[:k].strip(), inner[k + 1:].strip()

@lru_cache(maxsize=50000)
def split_path(t):
    """split a path on '::' at depth 0"""
    out = []
    last = 0
    skip = -1
    for i, c, d, j in _scan(t):
        if i < skip:
            continue
        if d == 0 and c == ':' and t.startswith('::', i):
            out.append(t[last:i])
            last = i + 2
            skip = i + 2
    out.append(t[last:])
    return tuple(out)

@lru_cache(maxsize=50000)
def strip_generics(seg):
    k = find_top(seg, '<')
    # find_top counts '<' as opening only after ident chars; look for first '<'
    k = seg.find('<')
    return seg[:k] if k >= 0 else seg

@lru_cache(maxsize=50000)
def ty_head(t):
    """last path segment without generics:  a::b::Foo<T> -> Foo"""
    if t.startswith('<'):
        return t
    segs = split_path(t)
    return strip_generics(segs[-1])

@lru_cache(maxsize=50000)
def ty_args(t):
    segs = split_path(t)
    last = segs[-1]
    k = last.find('<')
    if k < 0:
        return ()
    return tuple(split_top(last[k + 1:-1]))

def sort_name(t):
    return re.sub(r'[^A-Za-z0-9_]', '_', ty_head(t) if ty_kind(t) == 'adt' else t)

def subst_params(ty, subst):
    if not subst:
        return ty
    def rep(m):
        return subst.get(m.group(0), m.group(0))
    return re.sub(r'\b[A-Z]\w*\b', rep, ty)

def subst_generics(fty, d, concrete_ty):
    """field type of def d (with generic parameter names) instantiated for concrete type string"""
    if not d.generics:
        return fty
    args = ty_args(norm_ty(concrete_ty))
    if len(args) != len(d.generics):
        return fty
    return subst_params(fty, dict(zip(d.generics, args)))

_TURBOFISH = re.compile(r'::<')

@lru_cache(maxsize=50000)
def normalise_callee(c):
    """drop generic arguments from a callee path (but keep `<T as Trait>` / `<impl ..>` segments readable)"""
    c = norm_ty(c)
    c = re.sub(r'::<impl [^<>]*>$', '', c)      # `f::<impl FnOnce(..)>`: generic argument list of the function itself
    out = []
    i = 0
    n = len(c)
    # remove every <...> group that directly follows an identifier character (generic args),
    # keep groups that start a segment (`<T as Trait>`, `<impl Foo>`) but strip generics inside them
    depth_keep = []
    while i < n:
        ch = c[i]
        if ch == '<':
            prev = c[i - 1] if i else ''
            if prev.isalnum() or prev == '_':
                # skip balanced group
                d = 0
                j = i
                while j < n:
                    if c[j] == '<':
                        d += 1
                    elif c[j] == '>' and c[j - 1] != '-':
                        d -= 1
                        if d == 0:
                            break
                    j += 1
                i = j + 1
                continue
        out.append(ch)
        i += 1
    r = ''.join(out)
    # `module::<impl Type>::method` (inherent impl named by its type) -> `Type::method`
    m = re.match(r'^(?:\w+::)*<impl ([A-Z][\w:]*)>::(\w+)$', r)
    if m:
        r = m.group(1) + '::' + m.group(2)
    return r
