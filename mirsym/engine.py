"""mirsym: symbolic executor for rustc MIR text over Z3.
Exploration is depth-first with decision replay: a path is executed from the start by a python
callable (the obligation's driver), every solver-relevant branch consults a decision list, new
alternatives are queued.  Replayed decisions cost no solver query.
"""
import re
import sys
import time
import z3
from . import mir as M
from .mir import split_top, find_top, parsed_block
from .values import *
from .tys import *
sys.setrecursionlimit(20000)

class Frame:
    __slots__ = ('fn', 'locals', 'subst', 'visits', 'depth')
    def __init__(self, fn, depth):
        self.fn = fn
        self.locals = {}
        self.subst = {}
        self.visits = {}
        self.depth = depth

class CallCtx:
    __slots__ = ('callee', 'norm', 'dest_ty', 'frame', 'generics', 'arg_tys', 'ret_bb')
    def __init__(self, callee, norm, dest_ty, frame, arg_tys=None, ret_bb=None):
        self.callee = callee
        self.norm = norm
        self.dest_ty = dest_ty
        self.frame = frame
        self.arg_tys = arg_tys
        self.ret_bb = ret_bb

class PathResult:
    def __init__(self, kind, info, decisions, checks, notes, ncons):
        self.kind = kind          # 'ok' | 'panic' | 'unwind' | 'unsupported' | 'infeasible' | ...
        self.info = info
        self.decisions = decisions
        self.checks = checks      # [(label, ok, model_or_None)]
        self.notes = notes
        self.ncons = ncons
    def __repr__(self):
        return f'<Path {self.kind} {self.info!r} checks={len(self.checks)}>'

PANIC_CALLEES = re.compile(
    r'(core::panicking::|std::rt::begin_panic|panic_fmt|panic_nounwind|core::option::unwrap_failed|'
    r'core::option::expect_failed|core::result::unwrap_failed|slice_index_fail|slice_start_index_len_fail|'
    r'slice_end_index_len_fail|slice_index_order_fail|panic_bounds_check|unreachable_display|'
    r'core::panicking::assert_failed|std::process::abort|handle_alloc_error|panic_const|panic_str|'
    r'panic_display|panic_explicit|unwrap_failed|expect_failed|assert_failed|::todo|core::str::slice_error_fail|'
    r'len_mismatch_fail|copy_from_slice_len_mismatch|capacity_overflow)')

class Engine:
    def __init__(self, program, loop_bound=8, max_paths=20000, max_steps=2_000_000, timeout_s=600,
                 max_depth=120):
        self.P = program
        self.models = []            # [(compiled regex, fn)] ; first match wins; obligation models first
        self.fallback_models = []   # consulted only when the callee has no MIR
        self.havoc = []             # compiled regexes of callees that may be summarised by a fresh value
        self.call_observer = None   # optional fn(norm, args, result, how) called for every direct call ('model' | 'havoc' | 'mir' | 'fallback')
        self.bb_hooks = {}          # (fn key, bb) -> callable(eng, frame)
        self.call_hooks = {}        # fn key -> callable(eng, fn, args) -> None | ('return', value)
        self.drop_hooks = []        # [(regex on type, fn(eng, cell, ty))]
        self.materialisers = []     # [(regex on type string, fn(eng, ty, backing))]
        self.loop_bound = loop_bound
        self.max_paths = max_paths
        self.max_steps = max_steps
        self.max_depth = max_depth
        self.timeout_s = timeout_s
        self.solver = z3.Solver()
        self.solver.set('timeout', 60_000)
        self.stats = dict(paths=0, queries=0, solver_s=0.0, steps=0, replayed=0)
        self.functions_executed = set()
        self.functions_havoced = set()
        self.models_used = set()
        self.fn_cache = {}
        # per path
        self.decisions = None
        self.pos = 0
        self.new_alts = None
        self.cons = None
        self.checks = None
        self.notes = None
        self.memo = None
        self.fresh_n = 0
        self.path_state = None
        self.trace = None
        from . import stdmodels
        stdmodels.install(self)

    # ------------------------------------------------------------------ registration helpers
    def model(self, pattern, fn, front=True, fallback=False):
        item = (re.compile(pattern), fn, pattern)
        if fallback:
            self.fallback_models.append(item)
            return
        if front:
            self.models.insert(0, item)
        else:
            self.models.append(item)
    def allow_havoc(self, *patterns):
        for p in patterns:
            self.havoc.append(re.compile(p))
    def materialiser(self, pattern, fn):
        self.materialisers.insert(0, (re.compile(pattern), fn))
    # ------------------------------------------------------------------ exploration
    def explore(self, path_fn):
        """run path_fn(eng) once per feasible path; returns [PathResult]"""
        results = []
        stack = [[]]
        t0 = time.time()
        while stack:
            if len(results) >= self.max_paths:
                results.append(PathResult('budget', 'max_paths', [], [], [], 0))
                break
            if time.time() - t0 > self.timeout_s:
                results.append(PathResult('budget', 'timeout', [], [], [], 0))
                break
            decisions = stack.pop()
            self.decisions = list(decisions)
            self.pos = 0
            self.new_alts = []
            self.cons = []
            self.checks = []
            self.notes = []
            self.memo = {}
            self.fresh_n = 0
            self.path_state = {}
            self.path_steps = 0
            self.solver.push()
            kind, info = 'ok', None
            try:
                info = path_fn(self)
            except PathEnd as e:
                kind, info = e.kind, e.info
            except Unsupported as e:
                kind, info = 'unsupported', str(e)
            except RecursionError:
                kind, info = 'unsupported', 'python recursion limit'
            finally:
                self.solver.pop()
            self.stats['paths'] += 1
            results.append(PathResult(kind, info, self.decisions, self.checks, self.notes, len(self.cons)))
            for alt in self.new_alts:
                stack.append(alt)
        return results
    def add_constraint(self, c):
        c = as_bool(c)
        if c is True:
            return
        if c is False:
            raise PathEnd('infeasible')
        self.solver.add(c)
        self.cons.append(c)
    def assume(self, c):
        """add an assumption (precondition) to the current path"""
        self.add_constraint(c)
    def sat(self, *conds):
        cs = []
        for c in conds:
            c = as_bool(c)
            if c is False:
                return False
            if c is True:
                continue
            cs.append(c)
        t = time.time()
        self.stats['queries'] += 1
        r = self.solver.check(*cs)
        self.stats['solver_s'] += time.time() - t
        if r == z3.unknown:
            raise Unsupported('solver unknown: ' + self.solver.reason_unknown())
        return r == z3.sat
    def branch(self, options):
        """options: [(cond, tag)] mutually exclusive & exhaustive under the path condition.
        returns the tag of the chosen option, recording alternatives."""
        norm = []
        for cond, tag in options:
            c = as_bool(cond if isinstance(cond, bool) else z3.simplify(cond))
            if c is False:
                continue
            norm.append((c, tag))
        if not norm:
            raise PathEnd('infeasible')
        if len(norm) == 1 and norm[0][0] is True:
            return norm[0][1]
        for c, tag in norm:
            if c is True:
                return tag
        pos = self.pos
        self.pos += 1
        if pos < len(self.decisions):
            k = self.decisions[pos]
            self.stats['replayed'] += 1
            c, tag = norm[k]
            self.add_constraint(c)
            return tag
        feas = [i for i, (c, tag) in enumerate(norm) if self.sat(c)]
        if not feas:
            raise PathEnd('infeasible')
        k = feas[0]
        if len(feas) == 1:
            # the other options are infeasible: the condition is implied, no need to remember a decision,
            # but replay must take the same route => record it
            pass
        self.decisions.append(k)
        for alt in feas[1:]:
            self.new_alts.append(self.decisions[:pos] + [alt])
        c, tag = norm[k]
        self.add_constraint(c)
        return tag
    def fork_bool(self, cond):
        """python bool for cond on this path (forks if undetermined)"""
        c = as_bool(cond)
        if isinstance(c, bool):
            return c
        return self.branch([(c, True), (b_not(c), False)])
    def concretize(self, term, candidates=None, limit=256):
        """fork on the value of a BV term (model enumeration); returns python int"""
        if isinstance(term, int):
            return term
        v = conc(z3.simplify(term))
        if v is not None:
            return v
        pos = self.pos
        if pos < len(self.decisions):
            val = self.decisions[pos]
            self.pos += 1
            self.stats['replayed'] += 1
            self.add_constraint(term == val)
            return val
        vals = []
        self.solver.push()
        try:
            while True:
                t = time.time()
                r = self.solver.check()
                self.stats['queries'] += 1
                self.stats['solver_s'] += time.time() - t
                if r == z3.unknown:
                    raise Unsupported('solver unknown in concretize')
                if r != z3.sat:
                    break
                mv = self.solver.model().eval(term, model_completion=True).as_long()
                vals.append(mv)
                if len(vals) > limit:
                    raise Unsupported(f'concretize: more than {limit} values for {term}')
                self.solver.add(term != mv)
        finally:
            self.solver.pop()
        if not vals:
            raise PathEnd('infeasible')
        vals.sort()
        self.pos += 1
        self.decisions.append(vals[0])
        for a in vals[1:]:
            self.new_alts.append(self.decisions[:pos] + [a])
        self.add_constraint(term == vals[0])
        return vals[0]

    # ------------------------------------------------------------------ checks (post-conditions)
    def check(self, cond, label, detail=None):
        """record that `cond` must hold on this path; decided by the solver"""
        c = as_bool(cond if isinstance(cond, bool) else z3.simplify(cond))
        if c is True:
            self.checks.append((label, True, None))
            return True
        if c is False:
            ok = False
            model = self._model_summary() if self.sat() else None
        else:
            ok = not self.sat(z3.Not(c))
            model = None
            if not ok:
                self.solver.push()
                self.solver.add(z3.Not(c))
                self.solver.check()
                model = self._model_summary()
                self.solver.pop()
        self.checks.append((label, ok, None if ok else dict(model=model, detail=detail)))
        return ok
    def is_valid(self, cond):
        """does `cond` hold for every assignment satisfying the path condition? (a query, not a recorded check)"""
        c = as_bool(cond if isinstance(cond, bool) else z3.simplify(cond))
        if c is True or c is False:
            return c
        return not self.sat(z3.Not(c))
    def _model_summary(self):
        try:
            m = self.solver.model()
        except z3.Z3Exception:
            return None
        out = {}
        for d in m.decls():
            if d.arity() == 0:
                v = m[d]
                try:
                    out[d.name()] = str(v.as_long()) if z3.is_bv_value(v) else str(v)
                except Exception:
                    out[d.name()] = str(v)
        return out
    def unique_value(self, term):
        """python int if the path condition determines the value of a BV term, else None"""
        c = conc(z3.simplify(term)) if not isinstance(term, int) else term
        if c is not None:
            return c
        if not self.sat():
            return None
        v = self.solver.model().eval(term, model_completion=True)
        if self.sat(term != v):
            return None
        return v.as_long()

    def model_eval(self, term):
        m = self.solver.model()
        return m.eval(term, model_completion=True)
    def note(self, *a):
        self.notes.append(a)
    def note_access(self, ptr):
        acc = self.path_state.get('accesses')
        if acc is not None:
            acc.append((ptr.seq, ptr.idx))
    # ------------------------------------------------------------------ fresh / lazy values
    def fresh_name(self, hint):
        self.fresh_n += 1
        return f'{hint}#{self.fresh_n}'
    def fresh(self, ty, name=None):
        name = name or self.fresh_name('v')
        return self.materialise(ty, NameBacking(name))
    def lazy_cell(self, ty, name):
        return Cell(Lazy(ty, NameBacking(name)))
    def scalar_sort(self, ty):
        if ty in INT_BITS:
            return z3.BitVecSort(INT_BITS[ty])
        if ty == 'bool':
            return z3.BoolSort()
        if ty == 'f64':
            return F64
        if ty == 'f32':
            return z3.Float32()
        return None
    def materialise(self, ty, backing, subst=None):
        ty = norm_ty(ty)
        for rx, fn in self.materialisers:
            if rx.match(ty):
                r = fn(self, ty, backing)
                if r is not NotImplemented:
                    return r
        so = self.scalar_sort(ty)
        if so is not None:
            x = backing.leaf(self, so)
            if ty == 'char':
                self.add_constraint(z3.And(z3.ULE(x, 0x10FFFF), z3.Or(z3.ULT(x, 0xD800), z3.UGT(x, 0xDFFF))))
            return x
        if ty == '()':
            return UNIT
        if ty == '!':
            raise Unsupported('materialise never type')
        k = ty_kind(ty)
        if k == 'ref' or k == 'ptr':
            inner = pointee_ty(ty)
            if is_slice_ty(inner) or inner == 'str':
                ety = 'u8' if inner == 'str' else inner[1:-1].strip()
                return SliceRef(self.fresh_seq(ety, backing.child('*')), bv(0, 64), None)
            key = ('pointee', backing.key())
            c = self.memo.get(key)
            if c is None:
                c = Cell(Lazy(inner, backing.child('*')))
                self.memo[key] = c
            return Ref(c)
        if k == 'tuple':
            return Struct('()', None, backing)
        if k == 'array':
            ety, n = array_parts(ty)
            n = self.const_usize(n)
            return ConcSeq(ety, [Cell(Lazy(ety, backing.child(i))) for i in range(n)])
        if k == 'adt':
            head = ty_head(ty)
            if head == 'Box':
                inner = ty_args(ty)[0]
                key = ('pointee', backing.key())
                c = self.memo.get(key)
                if c is None:
                    c = Cell(Lazy(inner, backing.child('*')))
                    self.memo[key] = c
                return Ref(c)
            ed = self.P.enum_def(ty)
            if ed is not None:
                n = len(ed.variants)
                if n == 1:
                    return EnumV(ty, 0, None, backing, ed)
                tag = backing.child('tag').leaf(self, z3.BitVecSort(64))
                self.add_constraint(z3.ULT(tag, n))
                return EnumV(ty, tag, None, backing, ed)
            sd = self.P.struct_def(ty)
            if sd is not None:
                return Struct(ty, None, backing)
            return Opaque(ty, backing.key())
        if k == 'param':
            return Opaque(ty, backing.key())
        return Opaque(ty, backing.key())
    def fresh_seq(self, elem_ty, backing, length=None):
        elem_ty = norm_ty(elem_ty)
        so = self.scalar_sort(elem_ty)
        name = backing.key()
        if so is not None:
            arr = z3.Const(name + '.arr', z3.ArraySort(z3.BitVecSort(64), so))
            tyname = None
        else:
            es = z3.DeclareSort('E_' + sort_name(elem_ty))
            arr = z3.Const(name + '.arr', z3.ArraySort(z3.BitVecSort(64), es))
            tyname = sort_name(elem_ty)
        if length is None:
            length = z3.BitVec(name + '.len', 64)
        s = SymSeq(elem_ty, arr, length, so, tyname)
        return s
    def elem_term(self, v, sort, tyname):
        """a term of the element sort whose accessor functions agree with value v"""
        if isinstance(v, (Struct, EnumV)) and isinstance(v.backing, TermBacking) and v.backing.path == '' \
                and v.backing.term.sort() == sort and not self._dirty(v):
            return v.backing.term
        self.fresh_n += 1
        t = z3.Const(f'{tyname}!new{self.fresh_n}', sort)
        self._bind_elem(v, TermBacking(t, tyname))
        return t
    def _dirty(self, v):
        """has a lazily backed value been modified/materialised in a way that differs from its backing?
        conservative: any materialised field counts as dirty unless it is still exactly the backing leaf"""
        if isinstance(v, Struct):
            for k, c in v.f.items():
                if not self._cell_clean(c, v.backing.child(k)):
                    return True
            return False
        if isinstance(v, EnumV):
            tagleaf = v.backing.child('tag').leaf(self, z3.BitVecSort(64))
            if isinstance(v.tag, int) or not v.tag.eq(tagleaf):
                return True
            for vn, d in v.payload.items():
                for k, c in d.items():
                    if not self._cell_clean(c, v.backing.child(vn).child(k)):
                        return True
            return False
        return True
    def _cell_clean(self, c, backing):
        x = c.v
        if type(x) is Lazy:
            return x.backing.key() == backing.key()
        if isinstance(x, (Struct, EnumV)):
            return x.backing is not None and x.backing.key() == backing.key() and not self._dirty(x)
        if isinstance(x, z3.ExprRef):
            try:
                return x.eq(backing.leaf(self, x.sort()))
            except Exception:
                return False
        return False
    def _bind_elem(self, v, backing):
        """constrain the accessor functions of a fresh element term to the leaves of v"""
        if type(v) is Lazy:
            v = v.force(self)
        if isinstance(v, Ref) and isinstance(v.cell, SeqElemCell):
            v = SeqPtr(v.cell.seq, v.cell.idx)
        if isinstance(v, z3.ExprRef):
            self.add_constraint(backing.leaf(self, v.sort()) == v)
        elif isinstance(v, bool):
            self.add_constraint(backing.leaf(self, z3.BoolSort()) == z3.BoolVal(v))
        elif isinstance(v, Struct):
            sd = self.P.struct_def(v.ty) if v.ty != '()' else None
            if sd is not None and v.backing is not None:
                for i, (_, fty) in enumerate(sd.fields):
                    v.field(self, i, fty)
            for k, c in v.f.items():
                self._bind_elem(c.get(self), backing.child(k))
        elif isinstance(v, EnumV):
            tagleaf = backing.child('tag').leaf(self, z3.BitVecSort(64))
            if isinstance(v.tag, int):
                self.add_constraint(tagleaf == v.tag)
                vn = v.edef.variants[v.tag][0]
                vdef = v.edef.variants[v.tag]
                if v.backing is not None:
                    for i, (_, fty) in enumerate(vdef[2]):
                        v.field(self, vn, i, fty)
                for k, c in v.payload.get(vn, {}).items():
                    self._bind_elem(c.get(self), backing.child(vn).child(k))
            else:
                self.add_constraint(tagleaf == v.tag)
                # symbolic variant: bind every variant's payload (each is only read under its tag)
                for vi, vdef in enumerate(v.edef.variants):
                    vn = vdef[0]
                    for i, (_, fty) in enumerate(vdef[2]):
                        c = v.field(self, vn, i, subst_generics(fty, v.edef, v.ty))
                        self._bind_elem(c.get(self), backing.child(vn).child(i))
        elif isinstance(v, SymSeq):
            # a vector nested in an element: the names a Vec<T> materialised from this backing would get (len leaf, buf array)
            self.add_constraint(backing.child('len').leaf(self, z3.BitVecSort(64)) == v.len)
            self.add_constraint(z3.Const(backing.child('buf').key() + '.arr', v.arr.sort()) == v.arr)
        elif v is None or isinstance(v, (Opaque, Ref, FnItem, ClosureV, StrV)):
            pass     # references / code pointers stored in a symbolic sequence are not tracked
        else:
            be = getattr(v, 'bind_elem', None)
            if be is None:
                raise Unsupported(f'store of {type(v).__name__} into symbolic sequence')
            be(self, backing)
    def const_usize(self, n):
        n = n.strip()
        m = re.match(r'^(\d+)(_usize)?$', n)
        if m:
            return int(m.group(1))
        v = self.eval_const(n, None)
        c = conc(v)
        if c is None:
            raise Unsupported('array length ' + n)
        return c
    # ------------------------------------------------------------------ value copy
    def copy_value(self, v):
        t = type(v)
        if t is Struct:
            if not v.f and v.backing is None:
                return v
            nf = {}
            for k, c in v.f.items():
                x = c.v
                if type(x) is Lazy:
                    nf[k] = Cell(x)
                else:
                    nf[k] = Cell(self.copy_value(c.get(self)))
            s = Struct(v.ty, nf, v.backing)
            s.meta = v.meta
            return s
        if t is EnumV:
            np = {}
            for vn, d in v.payload.items():
                nd = {}
                for k, c in d.items():
                    x = c.v
                    nd[k] = Cell(x) if type(x) is Lazy else Cell(self.copy_value(c.get(self)))
                np[vn] = nd
            return EnumV(v.ty, v.tag, np, v.backing, v.edef)
        if t is ConcSeq:
            return ConcSeq(v.elem_ty, [Cell(c.v) if type(c.v) is Lazy else Cell(self.copy_value(c.get(self)))
                                       for c in v.cells])
        if t is Lazy:
            return v
        cp = getattr(v, 'copy_value', None)
        if cp is not None:
            return cp(self)
        return v
    # ------------------------------------------------------------------ calling MIR functions
    def call(self, fn, args, generics=None):
        """call a MIR function (Fn object or lookup string) with python-side argument values"""
        if isinstance(fn, str):
            f = self.P.lookup(fn)
            if f is None:
                raise Unsupported('no MIR for ' + fn)
            fn = f
        return self.exec_fn(fn, args, 0, None)
    def exec_fn(self, f, args, depth, subst, start_bb='bb0', preset=None):
        if depth > self.max_depth:
            raise PathEnd('depth', f.name)
        hk = self.call_hooks.get(f.key)
        if hk is not None:
            r = hk(self, f, args)
            if r is not None:
                return r[1]
        self.functions_executed.add(f.key)
        fr = Frame(f, depth)
        if subst:
            fr.subst = subst
        L = fr.locals
        for k in f.locals:
            L[k] = Cell(None)
        if len(args) != len(f.args):
            raise Unsupported(f'arity mismatch calling {f.name}: {len(args)} vs {len(f.args)}')
        for (k, _), v in zip(f.args, args):
            L[k].v = v
        if preset:
            for k, v in preset.items():
                L[k].v = v
        bb = start_bb
        visits = fr.visits
        hooks = self.bb_hooks
        fkey = f.key
        while True:
            n = visits.get(bb, 0) + 1
            visits[bb] = n
            if n > self.loop_bound:
                raise PathEnd('unwind', (f.name, bb))
            if hooks:
                hk = hooks.get((fkey, bb))
                if hk is not None:
                    r = hk(self, fr)
                    if r is not None:
                        if r[0] == 'return':
                            return r[1]
                        if r[0] == 'goto':
                            bb = r[1]
                            continue
            stmts, term, _ = parsed_block(f, bb)
            self.path_steps += len(stmts) + 1
            self.stats['steps'] += len(stmts) + 1
            if self.path_steps > self.max_steps:
                raise PathEnd('budget', 'max_steps')
            for st in stmts:
                self.exec_stmt(fr, st)
            k = term[0]
            if k == 'goto':
                bb = term[1]
            elif k == 'return':
                return L['_0'].get(self)
            elif k == 'switch':
                bb = self.exec_switch(fr, term)
            elif k == 'call':
                bb = self.exec_call(fr, term)
            elif k == 'assert':
                c = self.operand(fr, term[2])
                if term[1]:
                    c = b_not(c)
                if not self.fork_bool(c):
                    raise PathEnd('panic', (f.name, bb, term[3]))
                bb = term[4]
            elif k == 'drop':
                self.exec_drop(fr, term[1])
                bb = term[2]
            elif k == 'unreachable':
                raise PathEnd('unreachable', (f.name, bb))
            elif k == 'resume':
                raise PathEnd('resume', f.name)
            else:
                raise Unsupported(f'terminator {term} in {f.name}')
    def exec_switch(self, fr, term):
        _, op, arms, other = term
        v = self.operand(fr, op)
        if isinstance(v, bool):
            for val, bb in arms:
                if bool(val) == v:
                    return bb
            return other
        if isinstance(v, EnumV):
            raise Unsupported('switchInt on enum value')
        if z3.is_bool(v):
            opts = []
            rest = []
            for val, bb in arms:
                c = v if val else z3.Not(v)
                opts.append((c, bb))
                rest.append(z3.Not(c))
            if other is not None:
                opts.append((b_and(*rest), other))
            return self.branch(opts)
        cv = conc(v)
        if cv is not None:
            w = v.size() if not isinstance(v, int) else 64
            for val, bb in arms:
                if (val & ((1 << w) - 1)) == cv:
                    return bb
            if other is None:
                raise PathEnd('unreachable', (fr.fn.name, 'switch'))
            return other
        w = v.size()
        opts = []
        rest = []
        for val, bb in arms:
            c = v == z3.BitVecVal(val, w)
            opts.append((c, bb))
            rest.append(v != z3.BitVecVal(val, w))
        if other is not None:
            opts.append((b_and(*rest), other))
        return self.branch(opts)
    # ------------------------------------------------------------------ statements
    def exec_stmt(self, fr, st):
        k = st[0]
        if k == 'assign':
            dest = st[1]
            dty = fr.fn.locals.get(dest[1]) if not dest[2] else None
            v = self.rvalue(fr, st[2], dty, dest)
            self.place_cell(fr, dest, True).set(self, v)
        elif k == 'setdiscr':
            c = self.place_cell(fr, st[1], True)
            v = c.get(self)
            ty = self.place_ty(fr, st[1])
            ed = self.P.enum_def(ty) if ty else None
            if isinstance(v, EnumV):
                v.tag = st[2]
            elif ed is not None:
                c.set(self, EnumV(norm_ty(ty), st[2], None, None, ed))
            else:
                raise Unsupported('SetDiscriminant on ' + repr(v))
        elif k == 'assume':
            c = self.operand(fr, st[1])
            self.add_constraint(c)
        else:
            raise Unsupported(f'statement {st} in {fr.fn.name}')
    # ------------------------------------------------------------------ places
    def place_cell(self, fr, place, for_write=False):
        _, base, projs = place
        cell = fr.locals[base]
        if not projs:
            return cell
        variant = None
        cur_ty = None
        for p in projs:
            k = p[0]
            if k == 'field':
                sub = cell.sub(self, p, variant)
                if sub is not None:
                    cell = sub
                    variant = None
                    continue
                v = cell.get(self)
                if v is None:
                    if not for_write:
                        raise Unsupported(f'read of uninitialised {base} in {fr.fn.name}')
                    ty = cur_ty or fr.fn.locals.get(base, '?')
                    ed = self.P.enum_def(ty)
                    if variant is not None and ed is not None:
                        v = EnumV(norm_ty(ty), ed.vindex[variant], None, None, ed)
                    else:
                        v = Struct(norm_ty(ty) if ty_kind(norm_ty(ty)) == 'adt' else '()', {}, None)
                    cell.set(self, v)
                t = type(v)
                if isinstance(v, Struct) and v.meta is not None and v.meta[0] == 'union':
                    cell = UnionFieldCell(v, norm_ty(p[2]))
                    cur_ty = p[2]
                    continue
                if isinstance(v, Struct):
                    c = v.f.get(p[1])
                    if c is None:
                        if v.backing is not None:
                            c = v.field(self, p[1], self.subst_ty(p[2], fr) if fr.subst else p[2])
                        elif for_write:
                            c = Cell(None)
                            v.f[p[1]] = c
                        else:
                            raise Unsupported(f'field {p[1]} of {v!r} missing in {fr.fn.name}')
                    cell = c
                elif t is EnumV:
                    if variant is None:
                        # single-variant enum or struct-like access
                        if v.edef is not None and len(v.edef.variants) == 1:
                            variant = v.edef.variants[0][0]
                        else:
                            raise Unsupported(f'field of enum without downcast in {fr.fn.name}')
                    d = v.payload.setdefault(variant, {})
                    c = d.get(p[1])
                    if c is None:
                        if v.backing is not None:
                            c = v.field(self, variant, p[1], self.subst_ty(p[2], fr) if fr.subst else p[2])
                        elif for_write:
                            c = Cell(None)
                            d[p[1]] = c
                        else:
                            raise Unsupported(f'payload {variant}.{p[1]} of {v!r} missing in {fr.fn.name}')
                    cell = c
                    variant = None
                elif (t is Ref or t is SliceRef or getattr(v, 'is_pointer_like', False)) and re.match(r'(std|core)::ptr::(Unique|NonNull)<|\*(const|mut) ', p[2]):
                    pass    # Box<T> / Unique<T> / NonNull<T> are the pointer they wrap
                else:
                    fld = getattr(v, 'mir_field', None)
                    if fld is None:
                        raise Unsupported(f'field {p[1]}:{p[2]} of {type(v).__name__} {v!r} in {fr.fn.name}')
                    cell = fld(self, p[1], p[2])
                cur_ty = p[2]
            elif k == 'deref':
                v = cell.get(self)
                t = type(v)
                if t is Ref:
                    cell = v.cell
                elif t is SliceRef:
                    cell = SliceCell(v)
                else:
                    d = getattr(v, 'deref_cell', None)
                    if d is None:
                        raise Unsupported(f'deref of {type(v).__name__} {v!r} in {fr.fn.name} ({place})')
                    cell = d(self)
                cur_ty = None
            elif k == 'downcast':
                variant = p[1]
            elif k == 'index' or k == 'cindex':
                v = cell.get(self)
                if k == 'index':
                    idx = fr.locals[p[1]].get(self)
                else:
                    idx = None
                cell = self.index_cell(v, idx, p)
                cur_ty = None
            elif k == 'subslice':
                v = cell.get(self)
                cell = SliceCell(self.subslice(v, p))
            else:
                raise Unsupported(f'projection {p}')
        return cell
    def index_cell(self, v, idx, p):
        if isinstance(v, SliceRef):
            seq = v.seq
            if p[0] == 'cindex':
                if p[3]:
                    i = bvsub(bvadd(v.start, self.slice_len(v)), bv(p[1], 64))
                else:
                    i = bvadd(v.start, bv(p[1], 64))
            else:
                i = bvadd(v.start, idx)
            return self.seq_cell(seq, i)
        if isinstance(v, ConcSeq):
            if p[0] == 'cindex':
                i = len(v.cells) - p[1] if p[3] else p[1]
                return v.cells[i]
            ci = conc(idx)
            if ci is None:
                ci = self.concretize(idx, list(range(len(v.cells))))
            return v.cells[ci]
        ic = getattr(v, 'index_cell', None)
        if ic is not None:
            return ic(self, idx, p)
        raise Unsupported(f'index into {type(v).__name__}')
    def seq_cell(self, seq, i):
        if isinstance(seq, SymSeq):
            return SeqElemCell(seq, z3.simplify(i))
        if isinstance(seq, ConcSeq):
            ci = conc(z3.simplify(i))
            if ci is None:
                ci = self.concretize(i, list(range(len(seq.cells))))
            if ci >= len(seq.cells):
                raise PathEnd('oob', 'ConcSeq index')
            return seq.cells[ci]
        sc = getattr(seq, 'seq_cell', None)
        if sc is not None:
            return sc(self, i)
        raise Unsupported(f'seq_cell on {type(seq).__name__}')
    def slice_len(self, s):
        if s.len is not None:
            return s.len
        return bvsub(s.seq.len, s.start)
    def subslice(self, v, p):
        _, frm, to, from_end = p
        if not isinstance(v, SliceRef):
            raise Unsupported('subslice of ' + type(v).__name__)
        ln = self.slice_len(v)
        if from_end:
            return SliceRef(v.seq, bvadd(v.start, bv(frm, 64)), bvsub(ln, bv(frm + to, 64)))
        return SliceRef(v.seq, bvadd(v.start, bv(frm, 64)), bv(to - frm, 64))
    def place_ty(self, fr, place):
        _, base, projs = place
        ty = fr.fn.locals.get(base)
        for p in projs:
            if p[0] == 'field':
                ty = p[2]
            elif p[0] == 'deref':
                ty = pointee_ty(norm_ty(ty)) if ty else None
            elif p[0] in ('index', 'cindex'):
                if ty:
                    t = norm_ty(ty)
                    ty = t[1:-1].split(';')[0].strip() if t.startswith('[') else None
            elif p[0] == 'downcast':
                pass
            else:
                ty = None
        return ty
    # ------------------------------------------------------------------ operands and rvalues
    def operand(self, fr, op):
        k = op[0]
        if k == 'copy':
            return self.copy_value(self.place_cell(fr, op[1]).get(self))
        if k == 'move':
            return self.place_cell(fr, op[1]).get(self)
        if k == 'const':
            return self.eval_const(op[1], fr)
        if k == 'fnitem':
            return FnItem(op[1])
        raise Unsupported('operand ' + repr(op))
    def operand_ty(self, fr, op):
        k = op[0]
        if k in ('copy', 'move'):
            return self.place_ty(fr, op[1])
        if k == 'const':
            m = re.match(r'^-?[\d_]+_([iu]\d+|[iu]size)$', op[1])
            if m:
                return m.group(1)
            m = re.match(r'^([iu]\d+|[iu]size)::(MIN|MAX)$', op[1])
            if m:
                return m.group(1)
            if op[1] in ('true', 'false'):
                return 'bool'
            if op[1].endswith('f64'):
                return 'f64'
            if op[1].startswith("'"):
                return 'char'
        return None
    def eval_const(self, s, fr):
        c = self.P.const_cache.get(s)
        if c is not None:
            return c
        v = self._eval_const(s, fr)
        if isinstance(v, (z3.ExprRef, bool, StrV)) and 'promoted' not in s:
            self.P.const_cache[s] = v
        return v
    def _eval_const(self, s, fr):
        m = re.match(r'^(-?[\d_]+)_([iu]\d+|[iu]size)$', s)
        if m:
            return bv(int(m.group(1).replace('_', '')), INT_BITS[m.group(2)])
        if s == 'true':
            return True
        if s == 'false':
            return False
        if s == '()':
            return UNIT
        m = re.match(r'^([iu]\d+|[iu]size)::(MIN|MAX)$', s)
        if m:
            w = INT_BITS[m.group(1)]
            sg = m.group(1) in SIGNED
            if m.group(2) == 'MIN':
                v = -(1 << (w - 1)) if sg else 0
            else:
                v = (1 << (w - 1)) - 1 if sg else (1 << w) - 1
            return bv(v, w)
        m = re.match(r'^(?:core|std)::num::<impl ([iu]\d+|[iu]size)>::(MIN|MAX|BITS)$', s)
        if m:
            w = INT_BITS[m.group(1)]
            sg = m.group(1) in SIGNED
            if m.group(2) == 'BITS':
                return bv(w, 32)
            if m.group(2) == 'MIN':
                return bv(-(1 << (w - 1)) if sg else 0, w)
            return bv((1 << (w - 1)) - 1 if sg else (1 << w) - 1, w)
        m = re.match(r'^ZeroSized: \{((?:closure|coroutine)@[^}]*)\}$', s)
        if m:
            return ClosureV(m.group(1), Struct('closure', []), dict(fr.subst) if fr is not None and fr.subst else None)
        if s.startswith('"'):
            return StrV(unescape(s[1:-1]))
        if s.startswith('b"'):
            return StrV(unescape(s[2:-1]))
        if s.startswith("'"):
            return bv(ord(unescape(s[1:-1])), 32)
        if s.startswith("b'"):
            return bv(ord(unescape(s[2:-1])), 8)
        m = re.match(r'^(-?[\d\.eE\+\-]+|-?inf|NaN)f64$', s)
        if m:
            t = m.group(1)
            if t == 'NaN':
                return z3.fpNaN(F64)
            if t.endswith('inf'):
                return z3.fpMinusInfinity(F64) if t.startswith('-') else z3.fpPlusInfinity(F64)
            return z3.FPVal(float(t), F64)
        m = re.match(r'^f64::(\w+)$', s) or re.match(r'^(?:core|std)::f64::(?:<impl f64>::|consts::)?(\w+)$', s)
        if m:
            name = m.group(1)
            import math
            tbl = {'NAN': z3.fpNaN(F64), 'INFINITY': z3.fpPlusInfinity(F64), 'NEG_INFINITY': z3.fpMinusInfinity(F64),
                   'MAX': z3.FPVal(1.7976931348623157e308, F64), 'MIN': z3.FPVal(-1.7976931348623157e308, F64),
                   'EPSILON': z3.FPVal(2.220446049250313e-16, F64), 'PI': z3.FPVal(math.pi, F64),
                   'E': z3.FPVal(math.e, F64)}
            if name in tbl:
                return tbl[name]
        # named constants / promoteds with MIR bodies
        f = self.P.lookup_const(s, fr.fn if fr else None)
        if f is not None:
            return self.copy_value(self.exec_fn(f, [], (fr.depth + 1) if fr else 0, None))
        mdl = self.find_model('const ' + s)
        if mdl is not None:
            return mdl[0](self, [], CallCtx('const ' + s, 'const ' + s, None, fr))
        # unit struct / fn item as constant
        if re.match(r'^[\w:<>\', ]+$', s):
            head = strip_generics(s).split('::')[-1]
            if self.P.struct_def(s) is not None:
                return Struct(norm_ty(s), {}, None)
            if not head.isupper():
                return FnItem(s)
        raise Unsupported('const ' + s)
    def rvalue(self, fr, rv, dest_ty=None, dest=None):
        k = rv[0]
        if k == 'use':
            return self.operand(fr, rv[1])
        if k == 'ref' or k == 'rawptr':
            c = self.place_cell(fr, rv[2], True)
            if type(c) is SliceCell:
                return c.s
            mk = getattr(c, 'make_ref', None)
            if mk is not None:
                return mk(self)
            return Ref(c)
        if k == 'binop':
            a = self.operand(fr, rv[2])
            b = self.operand(fr, rv[3])
            ty = self.operand_ty(fr, rv[2]) or self.operand_ty(fr, rv[3])
            return self.binop(rv[1], a, b, ty)
        if k == 'discr':
            v = self.place_cell(fr, rv[1]).get(self)
            w = INT_BITS.get(norm_ty(dest_ty), 64) if dest_ty else 64
            return self.discriminant(v, w)
        if k == 'cast':
            v = self.operand(fr, rv[1])
            return self.cast(fr, v, norm_ty(rv[2]), rv[3], rv[4], self.operand_ty(fr, rv[1]))
        if k == 'tuple':
            return Struct('()', [Cell(self.operand(fr, o)) for o in rv[1]])
        if k == 'agg_struct':
            return self.agg_struct(fr, rv[1], rv[2])
        if k == 'agg_call':
            return self.agg_call(fr, rv[1], rv[2], dest_ty)
        if k == 'unop':
            a = self.operand(fr, rv[2])
            op = rv[1]
            if op == 'Not':
                if isinstance(a, bool):
                    return not a
                if z3.is_bool(a):
                    return b_not(a)
                return z3.simplify(~a)
            if op == 'Neg':
                if is_fp(a):
                    return z3.fpNeg(a)
                return z3.simplify(-a)
            if op == 'PtrMetadata':
                if isinstance(a, SliceRef):
                    return self.slice_len(a)
                if isinstance(a, StrV):
                    return bv(len(a.s.encode()), 64)
                pm = getattr(a, 'ptr_metadata', None)
                if pm is not None:
                    return pm(self)
                if isinstance(a, Ref) and isinstance(a.cell, Cell):
                    # reborrow of an unsized referent that is its own reference (&mut *slice)
                    pm = getattr(a.cell.v, 'ptr_metadata', None)
                    if pm is not None:
                        return pm(self)
                return UNIT
        if k == 'len':
            v = self.place_cell(fr, rv[1]).get(self)
            if isinstance(v, SliceRef):
                return self.slice_len(v)
            if isinstance(v, ConcSeq):
                return bv(len(v.cells), 64)
            raise Unsupported('Len of ' + type(v).__name__)
        if k == 'array':
            ety = None
            if dest_ty:
                t = norm_ty(dest_ty)
                if t.startswith('['):
                    ety = array_parts(t)[0]
            return ConcSeq(ety, [Cell(self.operand(fr, o)) for o in rv[1]])
        if k == 'repeat':
            n = self.const_usize(rv[2])
            v = self.operand(fr, rv[1])
            ety = array_parts(norm_ty(dest_ty))[0] if dest_ty else None
            return ConcSeq(ety, [Cell(self.copy_value(v)) for _ in range(n)])
        if k == 'closure':
            ops = [o for _, o in rv[2]]
            ops = self._closure_missing_captures(fr, rv, ops)
            caps = Struct('closure', [Cell(self.operand(fr, o)) for o in ops])
            return ClosureV(rv[1], caps, dict(fr.subst) if fr is not None and fr.subst else None)
        if k == 'nullop':
            return self.nullop(fr, rv[1], rv[2])
        raise Unsupported(f'rvalue {rv} in {fr.fn.name}')
    def _closure_missing_captures(self, fr, rv, ops):
        """rustc's MIR printer names closure captures by the captured variable; a closure that captures two disjoint fields of the
        same variable is printed with ONE entry (`{ self: move _5 }`) although it has two captures.  The number of captures the body
        uses is read from the closure's MIR; missing ones are the borrows made just before the aggregate that nothing else uses."""
        f = self.P.closure_fn(rv[1])
        if f is None:
            return ops
        cache = self.__dict__.setdefault('_ncaps_cache', {})
        need = cache.get(f.key)
        if need is None:
            idx = []

            def walk(x):
                if isinstance(x, tuple):
                    if len(x) == 3 and x[0] == 'place' and x[1] == '_1' and isinstance(x[2], tuple):
                        for pr in x[2]:
                            if isinstance(pr, tuple) and pr and pr[0] == 'field':
                                idx.append(pr[1])
                                break
                            if isinstance(pr, tuple) and pr and pr[0] == 'deref':
                                continue
                            break
                    for y in x:
                        walk(y)
                elif isinstance(x, list):
                    for y in x:
                        walk(y)
            for bb in f.blocks:
                stmts, term, _ = parsed_block(f, bb)
                walk(tuple(stmts))
                walk(term)
            need = (max(idx) + 1) if idx else len(ops)
            cache[f.key] = need
        if need <= len(ops):
            return ops
        # locate the aggregate statement in the creating function
        for bb in fr.fn.blocks:
            stmts, term, _ = parsed_block(fr.fn, bb)
            for i, st in enumerate(stmts):
                if st[0] == 'assign' and st[2] is rv:
                    used = {o[1][1] for o in ops if o[0] in ('move', 'copy') and o[1][0] == 'place'}
                    cand = []
                    for st2 in stmts[:i]:
                        if st2[0] == 'assign' and st2[1][0] == 'place' and not st2[1][2] and st2[2][0] in ('ref', 'rawptr', 'addr_of'):
                            cand.append(st2[1][1])
                    cand = [c for c in cand if c not in used]
                    # the captures are created in capture order right before the aggregate
                    missing = need - len(ops)
                    if len(cand) >= missing:
                        given_pos = None
                        allb = [st2[1][1] for st2 in stmts[:i] if st2[0] == 'assign' and st2[1][0] == 'place' and not st2[1][2] and st2[2][0] in ('ref', 'rawptr', 'addr_of')]
                        tail = allb[-need:]
                        if len(tail) == need and all(u in tail for u in used):
                            return [('move', ('place', n, ())) for n in tail]
                    raise Unsupported(f'closure {rv[1]} needs {need} captures, the MIR text shows {len(ops)}')
        raise Unsupported(f'closure {rv[1]} needs {need} captures, the MIR text shows {len(ops)}')
    def nullop(self, fr, op, arg):
        if op in ('UbChecks', 'ContractChecks'):
            return False
        if op == 'SizeOf':
            return bv(self.size_of(arg, fr), 64)
        if op == 'AlignOf':
            return bv(self.align_of(arg, fr), 64)
        raise Unsupported('nullop ' + op)
    def size_of(self, ty, fr=None):
        return self.P.layout(self.subst_ty(ty, fr))[0]
    def align_of(self, ty, fr=None):
        return self.P.layout(self.subst_ty(ty, fr))[1]
    def subst_ty(self, ty, fr):
        ty = norm_ty(ty)
        if fr is not None and fr.subst:
            return subst_params(ty, fr.subst)
        return ty
    def discriminant(self, v, w=64):
        if isinstance(v, EnumV):
            ed = v.edef
            t = v.tag
            if ed is None or all(d == i for i, d in enumerate(ed.discr)):
                if isinstance(t, int):
                    return bv(t, w)
                return fit(t, w)
            if isinstance(t, int):
                return bv(ed.discr[t], w)
            r = bv(ed.discr[-1], w)
            for i in range(len(ed.discr) - 2, -1, -1):
                r = z3.If(t == i, bv(ed.discr[i], w), r)
            return r
        d = getattr(v, 'discriminant', None)
        if d is not None:
            return d(self, w)
        raise Unsupported(f'discriminant of {type(v).__name__} {v!r}')
    def agg_struct(self, fr, path, fields):
        ty = norm_ty(path)
        head = ty_head(ty)
        # enum struct-variant?  Path::Variant { .. }
        segs = split_path(ty)
        if len(segs) >= 2:
            ed = self.P.enum_def('::'.join(segs[:-1]))
            vn = strip_generics(segs[-1])
            if ed is not None and vn in ed.vindex:
                vi = ed.vindex[vn]
                names = [n for n, _ in ed.variants[vi][2]]
                d = {}
                for fname, o in fields:
                    d[names.index(fname)] = Cell(self.operand(fr, o))
                return EnumV(norm_ty('::'.join(segs[:-1])), vi, {vn: d}, None, ed)
        sd = self.P.struct_def(ty)
        if sd is None:
            raise Unsupported('aggregate of unknown struct ' + path)
        d = {}
        for fname, o in fields:
            d[sd.index_of(fname)] = Cell(self.operand(fr, o))
        if getattr(sd, 'is_union', False):
            (k, c), = d.items()
            st_ = Struct(ty, {0: c}, None)
            x = c.get(self)
            # the printed field name is unreliable for unions: the stored value's sort tells which view is active
            have = 'f64' if is_fp(x) else ('u64' if isinstance(x, z3.BitVecRef) and x.size() == 64 else norm_ty(sd.fields[k][1]))
            st_.meta = ('union', have)
            return st_
        return Struct(ty, d, None)
    def agg_call(self, fr, path, ops, dest_ty):
        ty = norm_ty(path)
        segs = split_path(ty)
        vals = [Cell(self.operand(fr, o)) for o in ops] if ops is not None else []
        if len(segs) >= 2:
            ety = '::'.join(segs[:-1])
            ed = self.P.enum_def(ety)
            vn = strip_generics(segs[-1])
            if ed is not None and vn in ed.vindex:
                return EnumV(norm_ty(ety), ed.vindex[vn], {vn: dict(enumerate(vals))}, None, ed)
        sd = self.P.struct_def(ty)
        if sd is not None:
            return Struct(ty, dict(enumerate(vals)), None)
        if dest_ty is not None:
            # e.g. `Self(..)` printed with an alias
            dt = norm_ty(dest_ty)
            ed = self.P.enum_def(dt)
            vn = strip_generics(segs[-1])
            if ed is not None and vn in ed.vindex:
                return EnumV(dt, ed.vindex[vn], {vn: dict(enumerate(vals))}, None, ed)
            sd = self.P.struct_def(dt)
            if sd is not None:
                return Struct(dt, dict(enumerate(vals)), None)
        if 'panicking::AssertKind' in ty:
            return Opaque(ty, 'assert_kind')
        raise Unsupported(f'aggregate {path} (unknown type) in {fr.fn.name}')
    # ------------------------------------------------------------------ arithmetic
    def binop(self, op, a, b, ty):
        if isinstance(a, (Struct,)) and not a.f and op in ('Eq', 'Ne'):
            return op == 'Eq'
        if is_fp(a) or is_fp(b):
            return self.fp_binop(op, a, b)
        if isinstance(a, bool) or isinstance(b, bool) or z3.is_bool(a) or z3.is_bool(b):
            az, bz = to_z3_bool(a), to_z3_bool(b)
            if op == 'Eq':
                return as_bool(z3.simplify(az == bz))
            if op == 'Ne':
                return as_bool(z3.simplify(az != bz))
            if op == 'BitAnd':
                return b_and(a, b)
            if op == 'BitOr':
                return b_or(a, b)
            if op == 'BitXor':
                return as_bool(z3.simplify(z3.Xor(az, bz)))
            if op in ('Lt', 'Le', 'Gt', 'Ge'):
                ai, bi = z3.If(az, 1, 0), z3.If(bz, 1, 0)
                r = {'Lt': ai < bi, 'Le': ai <= bi, 'Gt': ai > bi, 'Ge': ai >= bi}[op]
                return as_bool(z3.simplify(r))
            raise Unsupported('bool binop ' + op)
        if not isinstance(a, z3.BitVecRef) or not isinstance(b, z3.BitVecRef):
            pa = getattr(a, 'ptr_binop', None) or getattr(b, 'ptr_binop', None)
            if pa is not None:
                return pa(self, op, a, b)
            if isinstance(a, Ref) and isinstance(b, Ref) and op in ('Eq', 'Ne'):
                same = a.cell is b.cell
                return same if op == 'Eq' else not same
            raise Unsupported(f'binop {op} on {type(a).__name__},{type(b).__name__}')
        signed = ty in SIGNED if ty else False
        ca, cb = conc(a), conc(b)
        w = a.size()
        if op in ('Shl', 'Shr', 'ShlUnchecked', 'ShrUnchecked') and b.size() != w:
            b = fit(b, w)
            cb = conc(b)
        if ca is not None and cb is not None:
            r = self.conc_binop(op, ca, cb, w, signed)
            if r is not None:
                return r
        if op == 'Add' or op == 'AddUnchecked':
            return z3.simplify(a + b)
        if op == 'Sub' or op == 'SubUnchecked':
            return z3.simplify(a - b)
        if op == 'Mul' or op == 'MulUnchecked':
            return z3.simplify(a * b)
        if op == 'Div':
            return z3.simplify(a / b if signed else z3.UDiv(a, b))
        if op == 'Rem':
            return z3.simplify(z3.SRem(a, b) if signed else z3.URem(a, b))
        if op == 'BitAnd':
            return z3.simplify(a & b)
        if op == 'BitOr':
            return z3.simplify(a | b)
        if op == 'BitXor':
            return z3.simplify(a ^ b)
        if op in ('Shl', 'ShlUnchecked'):
            return z3.simplify(a << (b & (w - 1)))
        if op in ('Shr', 'ShrUnchecked'):
            return z3.simplify((a >> (b & (w - 1))) if signed else z3.LShR(a, b & (w - 1)))
        if op == 'Eq':
            return as_bool(z3.simplify(a == b))
        if op == 'Ne':
            return as_bool(z3.simplify(a != b))
        if op in ('Lt', 'Le', 'Gt', 'Ge'):
            if signed:
                r = {'Lt': a < b, 'Le': a <= b, 'Gt': a > b, 'Ge': a >= b}[op]
            else:
                r = {'Lt': z3.ULT(a, b), 'Le': z3.ULE(a, b), 'Gt': z3.UGT(a, b), 'Ge': z3.UGE(a, b)}[op]
            return as_bool(z3.simplify(r))
        if op == 'Cmp':
            lt = (a < b) if signed else z3.ULT(a, b)
            tag = z3.If(lt, bv(0, 64), z3.If(a == b, bv(1, 64), bv(2, 64)))
            return EnumV('std::cmp::Ordering', z3.simplify(tag), None, None, self.P.enum_def('std::cmp::Ordering'))
        if op in ('AddWithOverflow', 'SubWithOverflow', 'MulWithOverflow'):
            if op == 'AddWithOverflow':
                r = a + b
                if signed:
                    o = z3.Or(z3.Not(z3.BVAddNoOverflow(a, b, True)), z3.Not(z3.BVAddNoUnderflow(a, b)))
                else:
                    o = z3.Not(z3.BVAddNoOverflow(a, b, False))
            elif op == 'SubWithOverflow':
                r = a - b
                if signed:
                    o = z3.Or(z3.Not(z3.BVSubNoOverflow(a, b)), z3.Not(z3.BVSubNoUnderflow(a, b, True)))
                else:
                    o = z3.ULT(a, b)
            else:
                r = a * b
                if signed:
                    o = z3.Or(z3.Not(z3.BVMulNoOverflow(a, b, True)), z3.Not(z3.BVMulNoUnderflow(a, b)))
                else:
                    o = z3.Not(z3.BVMulNoOverflow(a, b, False))
            return Struct('()', [Cell(z3.simplify(r)), Cell(as_bool(z3.simplify(o)))])
        if op == 'Offset':
            raise Unsupported('Offset on integers')
        raise Unsupported('binop ' + op)
    def conc_binop(self, op, a, b, w, signed):
        mask = (1 << w) - 1
        def sg(x):
            return x - (1 << w) if signed and x >> (w - 1) else x
        sa, sb = sg(a), sg(b)
        if op in ('Add', 'AddUnchecked'):
            return bv((a + b) & mask, w)
        if op in ('Sub', 'SubUnchecked'):
            return bv((a - b) & mask, w)
        if op in ('Mul', 'MulUnchecked'):
            return bv((sa * sb) & mask, w)
        if op == 'BitAnd':
            return bv(a & b, w)
        if op == 'BitOr':
            return bv(a | b, w)
        if op == 'BitXor':
            return bv(a ^ b, w)
        if op == 'Eq':
            return a == b
        if op == 'Ne':
            return a != b
        if op == 'Lt':
            return sa < sb
        if op == 'Le':
            return sa <= sb
        if op == 'Gt':
            return sa > sb
        if op == 'Ge':
            return sa >= sb
        if op in ('Shl', 'ShlUnchecked'):
            return bv((a << (b & (w - 1))) & mask, w)
        if op in ('Shr', 'ShrUnchecked'):
            return bv((sa >> (b & (w - 1))) & mask, w)
        if op == 'Div' and b != 0:
            q = abs(sa) // abs(sb)
            if (sa < 0) != (sb < 0):
                q = -q
            return bv(q & mask, w)
        if op == 'Rem' and b != 0:
            r = abs(sa) % abs(sb)
            if sa < 0:
                r = -r
            return bv(r & mask, w)
        if op in ('AddWithOverflow', 'SubWithOverflow', 'MulWithOverflow'):
            full = {'A': sa + sb, 'S': sa - sb, 'M': sa * sb}[op[0]]
            lo, hi = (-(1 << (w - 1)), (1 << (w - 1)) - 1) if signed else (0, mask)
            return Struct('()', [Cell(bv(full & mask, w)), Cell(not (lo <= full <= hi))])
        return None
    def fp_binop(self, op, a, b):
        if op == 'Add':
            return z3.fpAdd(RNE, a, b)
        if op == 'Sub':
            return z3.fpSub(RNE, a, b)
        if op == 'Mul':
            return z3.fpMul(RNE, a, b)
        if op == 'Div':
            return z3.fpDiv(RNE, a, b)
        if op == 'Rem':
            return z3.fpRem(a, b)   # NOTE: IEEE remainder differs from Rust's fmod; flagged by callers
        if op == 'Eq':
            return as_bool(z3.simplify(z3.fpEQ(a, b)))
        if op == 'Ne':
            return as_bool(z3.simplify(z3.Not(z3.fpEQ(a, b))))
        if op == 'Lt':
            return as_bool(z3.simplify(z3.fpLT(a, b)))
        if op == 'Le':
            return as_bool(z3.simplify(z3.fpLEQ(a, b)))
        if op == 'Gt':
            return as_bool(z3.simplify(z3.fpGT(a, b)))
        if op == 'Ge':
            return as_bool(z3.simplify(z3.fpGEQ(a, b)))
        raise Unsupported('fp binop ' + op)
    def cast(self, fr, v, to, kind, extra, from_ty):
        if kind == 'IntToInt':
            if isinstance(v, EnumV):
                v = self.discriminant(v, 64)
                from_ty = 'isize'
            if isinstance(v, bool) or z3.is_bool(v):
                w = INT_BITS[to]
                if isinstance(v, bool):
                    return bv(int(v), w)
                return z3.If(v, bv(1, w), bv(0, w))
            w1 = INT_BITS[to]
            return fit(v, w1, from_ty in SIGNED if from_ty else False)
        if kind == 'Transmute':
            return self.transmute(v, to, from_ty, fr)
        if kind in ('PtrToPtr', 'MutToConstPointer', 'FnPtrToPtr'):
            rp = getattr(v, 'retype', None)
            if rp is not None:
                return rp(self, self.subst_ty(to, fr))
            return v
        if kind == 'PointerCoercion':
            if extra and 'Unsize' in extra:
                inner = pointee_ty(to) if ty_kind(to) in ('ref', 'ptr') else None
                if inner and is_slice_ty(inner) and isinstance(v, Ref):
                    arr = v.cell.get(self)
                    if isinstance(arr, ConcSeq):
                        return SliceRef(arr, bv(0, 64), bv(len(arr.cells), 64))
                    if isinstance(arr, SymSeq):
                        return SliceRef(arr, bv(0, 64), arr.len)
                    raise Unsupported('unsize of ' + type(arr).__name__)
                return v
            return v
        if kind == 'FloatToInt':
            return self.float_to_int(v, to)
        if kind == 'IntToFloat':
            sg = from_ty in SIGNED if from_ty else False
            if to == 'f64':
                return z3.simplify(z3.fpSignedToFP(RNE, v, F64) if sg else z3.fpUnsignedToFP(RNE, v, F64))
        if kind == 'FloatToFloat':
            if to == 'f64':
                return z3.fpFPToFP(RNE, v, F64)
        if kind in ('PointerExposeProvenance', 'PointerExposeAddress'):
            return self.addr_of(v)
        if kind in ('PointerWithExposedProvenance', 'PointerFromExposedAddress'):
            return self.ptr_from_addr(v, to)
        raise Unsupported(f'cast {kind}{extra or ""} to {to}')
    def float_to_int(self, v, to):
        w = INT_BITS[to]
        sg = to in SIGNED
        if sg:
            lo, hi = -(1 << (w - 1)), (1 << (w - 1)) - 1
            conv = z3.fpToSBV(z3.RTZ(), v, z3.BitVecSort(w))
        else:
            lo, hi = 0, (1 << w) - 1
            conv = z3.fpToUBV(z3.RTZ(), v, z3.BitVecSort(w))
        flo = z3.FPVal(float(lo), F64)
        # smallest f64 >= hi+1 is exactly 2^w (or 2^(w-1)); compare with >=
        fhi1 = z3.FPVal(float(hi + 1), F64)
        return z3.If(z3.fpIsNaN(v), bv(0, w),
                     z3.If(z3.fpLEQ(v, flo), bv(lo, w),
                           z3.If(z3.fpGEQ(v, fhi1), bv(hi, w), conv)))
    def transmute(self, v, to, from_ty, fr):
        if to in INT_BITS and is_fp(v):
            return fp_to_bits(v)
        if to == 'f64' and isinstance(v, z3.BitVecRef):
            return z3.fpBVToFP(v, F64)
        if to in INT_BITS and isinstance(v, z3.BitVecRef) and v.size() == INT_BITS[to]:
            return v
        tm = getattr(v, 'transmute', None)
        if tm is not None:
            return tm(self, to)
        ed = self.P.enum_def(to) if ty_kind(to) == 'adt' else None
        if ed is not None and isinstance(v, z3.BitVecRef):
            if all(not var[2] for var in ed.variants):
                # integer -> field-less enum: the value is the discriminant; anything else is undefined behaviour
                n = len(ed.variants)
                if not self.fork_bool(z3.ULT(v, n)):
                    raise PathEnd('ub', f'transmute of an out-of-range integer to {to}')
                return EnumV(to, fit(v, 64), None, None, ed)
            if v.size() == 16 and all(len(var[2]) == 1 and norm_ty(var[2][0][1]) in ('u8', 'i8') for var in ed.variants):
                # layout assumption (rustc): 1-byte tag then 1-byte payload
                tag = z3.simplify(z3.Extract(7, 0, v))
                pay = z3.simplify(z3.Extract(15, 8, v))
                if not self.fork_bool(z3.ULT(tag, len(ed.variants))):
                    raise PathEnd('ub', f'transmute of an invalid tag to {to}')
                t = self.concretize(tag, list(range(len(ed.variants))))
                vn = ed.variants[t][0]
                return EnumV(to, t, {vn: {0: Cell(pay)}}, None, ed)
        if to in INT_BITS and isinstance(v, EnumV) and v.edef is not None:
            w = INT_BITS[to]
            if all(not var[2] for var in v.edef.variants):
                return self.discriminant(v, w)
            if w == 16 and all(len(var[2]) == 1 for var in v.edef.variants):
                t = v.tag if not isinstance(v.tag, int) else bv(v.tag, 64)
                if isinstance(v.tag, int):
                    vn = v.edef.variants[v.tag][0]
                    pay = v.payload[vn][0].get(self) if vn in v.payload and 0 in v.payload[vn] else v.field(self, vn, 0, 'u8').get(self)
                else:
                    k = self.concretize(v.tag, list(range(len(v.edef.variants))))
                    vn = v.edef.variants[k][0]
                    pay = v.field(self, vn, 0, 'u8').get(self)
                    t = bv(k, 64)
                return z3.simplify(z3.Concat(pay, z3.Extract(7, 0, t)))
        for rx, fn, _ in self.models:
            if rx.match('transmute ' + to):
                return fn(self, [v], CallCtx('transmute', 'transmute ' + to, to, fr))
        k = ty_kind(to)
        if k in ('ref', 'ptr') and isinstance(v, (Ref, SliceRef)):
            return v
        raise Unsupported(f'transmute {type(v).__name__} ({from_ty}) -> {to}')
    def addr_of(self, v):
        a = getattr(v, 'address', None)
        if a is not None:
            return a(self)
        if isinstance(v, Ref):
            key = ('addr', id(v.cell))
            t = self.memo.get(key)
            if t is None:
                n = self.memo.get('addr_n', 0)
                self.memo['addr_n'] = n + 1
                t = z3.BitVec(f'addr{n}', 64)
                self.add_constraint(z3.And(t != 0, (t & 7) == 0, z3.ULT(t, 1 << 47)))
                for (k2, t2) in list(self.memo.items()):
                    if isinstance(k2, tuple) and k2[0] == 'addr':
                        self.add_constraint(t2[0] != t)
                self.memo[key] = (t, v.cell)
            else:
                t = t[0]
            return t
        raise Unsupported('address of ' + type(v).__name__)
    def ptr_from_addr(self, a, to):
        opts = []
        for k, (t, cell) in self.memo.items():
            if isinstance(k, tuple) and k[0] == 'addr':
                opts.append((a == t, cell))
        if not opts:
            raise Unsupported('pointer from integer with no exposed addresses')
        rest = b_and(*[b_not(c) for c, _ in opts])
        opts.append((rest, None))
        cell = self.branch(opts)
        if cell is None:
            raise PathEnd('wildptr', 'integer does not name an exposed object')
        return Ref(cell)
    # ------------------------------------------------------------------ calls
    def find_model(self, norm):
        for rx, fn, pat in self.models:
            if rx.match(norm):
                return fn, pat
        return None
    def exec_call(self, fr, term):
        _, dest, callee, argops, ret_bb = term
        # indirect call through a local?
        if callee.startswith(('move ', 'copy ')):
            fv = self.operand(fr, M.parse_operand(callee))
            args = [self.operand(fr, a) for a in argops]
            r = self.call_value(fr, fv, args, dest)
        else:
            norm = normalise_callee(callee)
            if fr.subst and callee.startswith('<'):
                # `<K as Trait>::m` inside a generic body: the models and the resolution see the instantiated self type
                m_ = re.match(r'^<(\w+) as ', callee)
                if m_ and m_.group(1) in fr.subst:
                    callee = '<' + fr.subst[m_.group(1)] + callee[1 + len(m_.group(1)):]
                    norm = normalise_callee(callee)
            dty = self.place_ty(fr, dest) if dest is not None else None
            mdl = self.find_model(norm)
            r = NotImplemented
            args = None
            if mdl is not None:
                args = [self.operand(fr, a) for a in argops]
                ctx = CallCtx(callee, norm, dty, fr, [self.operand_ty(fr, a) for a in argops], ret_bb)
                r = mdl[0](self, args, ctx)
                if r is not NotImplemented:
                    self.models_used.add(mdl[1])
                    if self.call_observer is not None:
                        self.call_observer(norm, args, r, 'model')
            if r is NotImplemented:
                if ret_bb is None and PANIC_CALLEES.search(norm):
                    msg = None
                    try:
                        a0 = self.operand(fr, argops[0]) if argops else None
                        if isinstance(a0, StrV):
                            msg = a0.s
                    except Exception:
                        pass
                    raise PathEnd('panic', (fr.fn.name, norm, msg))
                if args is None:
                    args = [self.operand(fr, a) for a in argops]
                if any(rx.search(norm) for rx in self.havoc):
                    f, subst = None, None
                    hav = True
                else:
                    f, subst = self.resolve(callee, norm, args, fr)
                    hav = False
                fb = None
                if f is None and not hav:
                    for rx, fn_, pat in self.fallback_models:
                        if rx.match(norm):
                            fb = (fn_, pat)
                            break
                if f is not None:
                    if self.call_observer is not None:
                        self.call_observer(norm, args, None, 'mir')
                    r = self.exec_fn(f, args, fr.depth + 1, subst)
                elif fb is not None:
                    self.models_used.add(fb[1])
                    r = fb[0](self, args, CallCtx(callee, norm, dty, fr, [self.operand_ty(fr, a) for a in argops], ret_bb))
                    if self.call_observer is not None:
                        self.call_observer(norm, args, r, 'fallback')
                elif hav:
                    self.functions_havoced.add(norm)
                    if ret_bb is None:
                        raise PathEnd('diverge', norm)
                    r = self.fresh(dty, self.fresh_name('havoc_' + norm.split('::')[-1])) if dty else UNIT
                    if self.call_observer is not None:
                        self.call_observer(norm, args, r, 'havoc')
                else:
                    if ret_bb is None:
                        raise PathEnd('panic', (fr.fn.name, norm, 'diverging call'))
                    raise Unsupported(f'call to {callee} (normalised {norm}) from {fr.fn.name}: no MIR, no model')
        if ret_bb is None:
            raise PathEnd('diverge', callee)
        if dest is not None:
            self.place_cell(fr, dest, True).set(self, r)
        return ret_bb
    def call_value(self, fr, fv, args, dest=None):
        if isinstance(fv, FnItem):
            norm = normalise_callee(fv.name)
            mdl = self.find_model(norm)
            dty = self.place_ty(fr, dest) if dest is not None and fr is not None else None
            if mdl is not None:
                return mdl[0](self, args, CallCtx(fv.name, norm, dty, fr))
            f, subst = self.resolve(fv.name, norm, args, fr)
            if f is None:
                # tuple-struct / variant constructor used as a function
                try:
                    return self.agg_call_values(fv.name, args)
                except Unsupported:
                    pass
                raise Unsupported('call of fn item ' + fv.name)
            return self.exec_fn(f, args, (fr.depth + 1) if fr else 0, subst)
        if isinstance(fv, ClosureV):
            f = self.P.closure_fn(fv.loc)
            if f is None:
                raise Unsupported('closure body not found: ' + fv.loc)
            a0ty = norm_ty(f.args[0][1])
            selfarg = Ref(Cell(fv)) if a0ty.startswith('&') else fv
            return self.exec_fn(f, [selfarg] + list(args), (fr.depth + 1) if fr else 0, fv.subst)
        if isinstance(fv, Ref):
            return self.call_value(fr, fv.cell.get(self), args, dest)
        cv = getattr(fv, 'call', None)
        if cv is not None:
            return cv(self, args)
        raise Unsupported('call of ' + type(fv).__name__)
    def agg_call_values(self, path, vals):
        ty = norm_ty(path)
        segs = split_path(ty)
        cells = [Cell(v) for v in vals]
        if len(segs) >= 2:
            ety = '::'.join(segs[:-1])
            ed = self.P.enum_def(ety)
            vn = strip_generics(segs[-1])
            if ed is not None and vn in ed.vindex:
                return EnumV(norm_ty(ety), ed.vindex[vn], {vn: dict(enumerate(cells))}, None, ed)
        sd = self.P.struct_def(ty)
        if sd is not None:
            return Struct(ty, dict(enumerate(cells)), None)
        raise Unsupported('constructor ' + path)
    def resolve(self, callee, norm, args, fr):
        key = (callee, fr.fn.key if fr is not None and ('Self' in callee or '<T' in callee or ' as ' in callee) else None)
        r = self.P.resolve(callee, norm, args, fr, self)
        return r
    def exec_drop(self, fr, place):
        if not self.drop_hooks:
            return
        ty = self.place_ty(fr, place)
        if not ty:
            return
        ty = norm_ty(ty)
        for rx, fn in self.drop_hooks:
            if rx.search(ty):
                fn(self, self.place_cell(fr, place), ty, fr)
                return

class UnionFieldCell:
    """view of a union's storage as one of its fields (same-size scalar reinterpretation)"""
    __slots__ = ('u', 'ty')

    def __init__(self, u, ty):
        self.u = u
        self.ty = ty

    def get(self, eng):
        x = self.u.f[0].get(eng)
        have = self.u.meta[1]
        if have == self.ty:
            return x
        if self.ty == 'f64' and isinstance(x, z3.BitVecRef) and x.size() == 64:
            return z3.fpBVToFP(x, F64)
        if self.ty in ('u64', 'i64') and is_fp(x):
            return fp_to_bits(x)
        raise Unsupported(f'union reinterpretation {have} -> {self.ty}')

    def set(self, eng, v):
        self.u.f[0].set(eng, v)
        self.u.meta = ('union', self.ty)

    def sub(self, eng, proj, variant=None):
        return None


class SliceCell:
    """pseudo cell produced by dereferencing a slice reference: holds the slice itself"""
    __slots__ = ('s',)
    def __init__(self, s):
        self.s = s
    def get(self, eng):
        return self.s
    def set(self, eng, v):
        raise Unsupported('assignment to a whole slice')
    def sub(self, eng, proj, variant=None):
        return None

# --------------------------------------------------------------------------------------------
def fp_to_bits(x):
    """bit pattern of a float; a float that was itself made from bits keeps them exactly (NaN payloads included)"""
    try:
        if z3.is_app(x) and x.decl().kind() == z3.Z3_OP_FPA_TO_FP and x.num_args() == 1 and z3.is_bv(x.arg(0)) and x.arg(0).size() == 64:
            return x.arg(0)
    except Exception:
        pass
    # the bit pattern of a computed NaN is one of the two canonical quiet NaNs (what the hardware produces from
    # non-signalling inputs); z3 leaves it unspecified
    if z3.is_fp_value(x) if hasattr(z3, 'is_fp_value') else False:
        return z3.fpToIEEEBV(x)
    sgn = z3.Bool('nan_sign!' + str(abs(hash(x.sexpr())) % (1 << 40)))
    canon = z3.If(sgn, z3.BitVecVal(0xfff8000000000000, 64), z3.BitVecVal(0x7ff8000000000000, 64))
    return z3.If(z3.fpIsNaN(x), canon, z3.fpToIEEEBV(x))


def bvadd(a, b):
    ca, cb = conc(a), conc(b)
    if ca is not None and cb is not None:
        return bv((ca + cb) & ((1 << 64) - 1), 64)
    if ca == 0:
        return b
    if cb == 0:
        return a
    return z3.simplify(a + b)

def bvsub(a, b):
    ca, cb = conc(a), conc(b)
    if ca is not None and cb is not None:
        return bv((ca - cb) & ((1 << 64) - 1), 64)
    if cb == 0:
        return a
    return z3.simplify(a - b)

def fit(v, w, signed=False):
    if isinstance(v, int):
        return bv(v, w)
    w0 = v.size()
    if w0 == w:
        return v
    if w < w0:
        return z3.simplify(z3.Extract(w - 1, 0, v))
    return z3.simplify(z3.SignExt(w - w0, v) if signed else z3.ZeroExt(w - w0, v))

def unescape(s):
    try:
        return bytes(s, 'utf-8').decode('unicode_escape').encode('latin-1').decode('utf-8')
    except Exception:
        try:
            return re.sub(r'\\u\{([0-9a-fA-F]+)\}', lambda m: chr(int(m.group(1), 16)), s).encode().decode('unicode_escape')
        except Exception:
            return s
