"""Type sizes/alignments from `rustc -Zprint-type-sizes` (filled in when layout obligations need it)."""


def type_sizes(program):
    return {}
