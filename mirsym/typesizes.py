"""Type sizes/alignments of the real build, from `rustc -Zprint-type-sizes` on laythe_core (regenerated per tree hash and feature set).
Only types that the crate instantiates are reported; the caller falls back to Unsupported for anything else."""
import os
import re
import subprocess


def type_sizes(program):
    from .program import tree_hash, CACHE
    cache = getattr(program, 'cache', None) or CACHE
    feats = sorted(f for f in program.features if f != 'debug_assertions' and program._crate_has_feature('laythe_core', f))
    th = tree_hash(program.repo)
    d = os.path.join(cache, 'mir')
    os.makedirs(d, exist_ok=True)
    out = os.path.join(d, 'sizes-' + ('-'.join(feats) or 'default') + f'-{th}.txt')
    import fcntl
    lock = open(os.path.join(d, '.lock-sizes'), 'w')
    fcntl.flock(lock, fcntl.LOCK_EX)
    try:
        _generate(program, cache, feats, d, out)
    finally:
        fcntl.flock(lock, fcntl.LOCK_UN)
        lock.close()
    return _parse(out)


def _generate(program, cache, feats, d, out):
    if not (os.path.exists(out) and os.path.getsize(out) > 1000):
        env = dict(os.environ)
        env['CARGO_NET_OFFLINE'] = 'true'
        env['CARGO_TARGET_DIR'] = os.path.join(cache, 'target-sizes-' + ('-'.join(feats) or 'default'))
        env['CARGO_INCREMENTAL'] = '0'     # with incremental compilation only re-analysed types are printed
        env.pop('RUSTFLAGS', None)
        cmd = ['cargo', '+nightly', 'rustc', '--offline', '-p', 'laythe_core', '--lib']
        if feats:
            cmd += ['--features', ','.join(feats)]
        cmd += ['--', '-Zprint-type-sizes']
        fp = os.path.join(env['CARGO_TARGET_DIR'], 'debug', '.fingerprint')
        if os.path.isdir(fp):
            for n in os.listdir(fp):
                if n.startswith('laythe_core-'):
                    subprocess.run(['rm', '-rf', os.path.join(fp, n)])
        r = subprocess.run(cmd, cwd=program.repo, env=env, stdout=subprocess.PIPE, stderr=subprocess.PIPE)
        text = r.stdout.decode(errors='replace')
        lines = [l for l in text.splitlines() if l.startswith('print-type-size type:')]
        if r.returncode != 0 or len(lines) < 50:
            raise RuntimeError('print-type-sizes failed:\n' + r.stderr.decode()[-2000:])
        with open(out + f'.tmp{os.getpid()}', 'w') as fh:
            fh.write('\n'.join(lines) + '\n')
        os.replace(out + f'.tmp{os.getpid()}', out)
        for n in os.listdir(d):
            if n.startswith('sizes-') and os.path.join(d, n) != out and n.split('-')[1:-1] == os.path.basename(out).split('-')[1:-1]:
                pass    # older hashes are small; keep


def _parse(out):
    from .tys import norm_ty, ty_head
    res = {}
    for l in open(out):
        m = re.match(r'print-type-size type: `(.*)`: (\d+) bytes, alignment: (\d+) bytes', l)
        if not m:
            continue
        t, sz, al = m.group(1), int(m.group(2)), int(m.group(3))
        try:
            nt = norm_ty(t)
        except Exception:
            continue
        res.setdefault(nt, (sz, al))
    return res
