"""A loaded program: MIR of several crates + item definitions + name resolution."""
import os
import re
import subprocess
import hashlib
import json
from . import mir as M
from .rustsrc import Items, EnumDef, StructDef, cfg_holds
from .tys import *
from .values import Unsupported, Struct, EnumV, Ref, INT_BITS
REPO = os.environ.get('VERIF_REPO', '/repo')
CACHE = os.environ.get('VERIF_CACHE', '/verif/.cache')
DERIVE_TRAIT = {'eq': 'PartialEq', 'ne': 'PartialEq', 'clone': 'Clone', 'fmt': 'Debug', 'hash': 'Hash',
                'partial_cmp': 'PartialOrd', 'cmp': 'Ord', 'default': 'Default',
                'assert_receiver_is_total_eq': 'Eq', 'lt': 'PartialOrd', 'le': 'PartialOrd', 'gt': 'PartialOrd',
                'ge': 'PartialOrd'}
CRATE_DIRS = {'laythe_core': 'laythe_core', 'laythe_vm': 'laythe_vm', 'laythe_lib': 'laythe_lib',
              'laythe_env': 'laythe_env', 'laythe_native': 'laythe_native', 'laythe': 'laythe'}

def tree_hash(repo=REPO):
    """hash of the source files the dumps depend on (content, not mtime)"""
    h = hashlib.sha1()
    for c in sorted(CRATE_DIRS.values()):
        for dp, dn, fn in sorted(os.walk(os.path.join(repo, c))):
            dn.sort()
            if '/target' in dp:
                continue
            for f in sorted(fn):
                if f.endswith('.rs') or f == 'Cargo.toml':
                    p = os.path.join(dp, f)
                    h.update(p.encode())
                    h.update(open(p, 'rb').read())
    for f in ('Cargo.toml', 'Cargo.lock'):
        p = os.path.join(repo, f)
        if os.path.exists(p):
            h.update(open(p, 'rb').read())
    return h.hexdigest()[:16]

def dump_mir(crate, features=(), debug_assertions=False, repo=REPO, cache=CACHE):
    """regenerate (or reuse, keyed by the tree hash) the MIR text of one crate. returns path"""
    th = tree_hash(repo)
    tag = crate + ('-' + '-'.join(sorted(features)) if features else '') + ('-dbg' if debug_assertions else '')
    d = os.path.join(cache, 'mir')
    os.makedirs(d, exist_ok=True)
    out = os.path.join(d, f'{tag}-{th}.mir')
    if os.path.exists(out) and os.path.getsize(out) > 1000:
        return out
    import fcntl
    lock = open(os.path.join(d, '.lock'), 'w')
    fcntl.flock(lock, fcntl.LOCK_EX)
    try:
        if os.path.exists(out) and os.path.getsize(out) > 1000:
            return out
        return _dump_mir_locked(crate, features, debug_assertions, repo, cache, tag, d, out)
    finally:
        fcntl.flock(lock, fcntl.LOCK_UN)
        lock.close()


def _dump_mir_locked(crate, features, debug_assertions, repo, cache, tag, d, out):
    env = dict(os.environ)
    env['CARGO_NET_OFFLINE'] = 'true'
    cfgtag = ('-'.join(sorted(features)) if features else 'default') + ('-dbg' if debug_assertions else '')
    env['CARGO_TARGET_DIR'] = os.path.join(cache, 'target-mir-' + cfgtag)
    env.pop('RUSTFLAGS', None)
    cmd = ['cargo', '+nightly', 'rustc', '--offline', '-p', crate, '--lib']
    if features:
        cmd += ['--features', ','.join(features)]
    cmd += ['--', '-Zunpretty=mir', '-C', 'debug-assertions=' + ('on' if debug_assertions else 'off'),
            '-C', 'overflow-checks=on']
    # force rustc to run again for this crate even if cargo thinks it is fresh
    fp = os.path.join(env['CARGO_TARGET_DIR'], 'debug', '.fingerprint')
    if os.path.isdir(fp):
        for n in os.listdir(fp):
            if n.startswith(crate + '-'):
                subprocess.run(['rm', '-rf', os.path.join(fp, n)])
    r = subprocess.run(cmd, cwd=repo, env=env, stdout=subprocess.PIPE, stderr=subprocess.PIPE)
    if r.returncode != 0 or len(r.stdout) < 1000:
        raise RuntimeError(f'MIR dump of {crate} failed:\n' + r.stderr.decode()[-3000:])
    with open(out + f'.tmp{os.getpid()}', 'wb') as fh:
        fh.write(r.stdout)
    os.replace(out + f'.tmp{os.getpid()}', out)
    # keep the three most recent dumps per tag (switching between trees does not force a re-dump)
    olds = [n for n in os.listdir(d) if re.match(re.escape(tag) + r'-[0-9a-f]{16}\.mir$', n) and os.path.join(d, n) != out]
    olds.sort(key=lambda n: os.path.getmtime(os.path.join(d, n)), reverse=True)
    for n in olds[2:]:
        os.remove(os.path.join(d, n))
    return out

def builtin_items(items):
    def E(name, gens, variants):
        items.enums.setdefault(name, []).append(EnumDef(name, gens, variants, '<builtin>', 0, []))
    E('Option', ['T'], [('None', 'unit', [], None), ('Some', 'tuple', [(None, 'T')], None)])
    E('Result', ['T', 'E'], [('Ok', 'tuple', [(None, 'T')], None), ('Err', 'tuple', [(None, 'E')], None)])
    E('Ordering', [], [('Less', 'unit', [], -1), ('Equal', 'unit', [], 0), ('Greater', 'unit', [], 1)])
    E('ControlFlow', ['B', 'C'], [('Continue', 'tuple', [(None, 'C')], None), ('Break', 'tuple', [(None, 'B')], None)])
    E('Bound', ['T'], [('Included', 'tuple', [(None, 'T')], None), ('Excluded', 'tuple', [(None, 'T')], None),
                       ('Unbounded', 'unit', [], None)])
    E('Infallible', [], [])
    def S(name, gens, fields, kind='named'):
        items.structs.setdefault(name, []).append(StructDef(name, gens, fields, kind, '<builtin>', 0, []))
    S('Range', ['Idx'], [('start', 'Idx'), ('end', 'Idx')])
    S('RangeFrom', ['Idx'], [('start', 'Idx')])
    S('RangeTo', ['Idx'], [('end', 'Idx')])
    S('RangeInclusive', ['Idx'], [('start', 'Idx'), ('end', 'Idx'), ('exhausted', 'bool')])
    S('RangeFull', [], [], 'unit')
    S('PhantomData', ['T'], [], 'unit')
    S('Wrapping', ['T'], [(None, 'T')], 'tuple')

class Program:
    def __init__(self, crates, features=(), debug_assertions=False, repo=REPO, cache=CACHE, mir_paths=None):
        """crates: list of crate names to dump and load (e.g. ['laythe_core','laythe_vm'])"""
        self.features = set(features)
        if debug_assertions:
            self.features.add('debug_assertions')
        self.repo = repo
        self.cache = cache
        self.fns = []
        self.mir_files = {}
        os.makedirs(os.path.join(cache, 'parse'), exist_ok=True)
        for c in crates:
            p = (mir_paths or {}).get(c) or dump_mir(c, [f for f in features if self._crate_has_feature(c, f)],
                                                     debug_assertions, repo, cache)
            self.mir_files[c] = p
            for f in M.load(p, c, os.path.join(cache, 'parse')):
                if not isinstance(f, tuple):
                    self.fns.append(f)
        self.items = Items()
        for c, d in CRATE_DIRS.items():
            root = os.path.join(repo, d, 'src')
            if os.path.isdir(root):
                self.items.add_tree(root, f'{d}/src')
        builtin_items(self.items)
        self.const_cache = {}
        self._def_cache = {}
        self._resolve_cache = {}
        self._layout = None
        self.index()
    def _crate_has_feature(self, crate, feat):
        try:
            t = open(os.path.join(self.repo, CRATE_DIRS[crate], 'Cargo.toml')).read()
        except OSError:
            return False
        m = re.search(r'\[features\](.*?)(\n\[|\Z)', t, re.S)
        return bool(m and re.search(r'^\s*' + re.escape(feat) + r'\s*=', m.group(1), re.M))
    # ------------------------------------------------------------------ indexes
    def index(self):
        self.by_name = {}
        self.methods = {}      # (self_head, method) -> [(Fn, trait_text|None, self_ty_text)]
        self.free = {}         # last segment -> [Fn]
        self.closures = {}     # 'closure@file:l:c: l:c' -> Fn
        self.consts = {}       # last segment(s) -> [Fn]
        for f in self.fns:
            f.key = f'{f.crate}::{f.name}'
            self.by_name.setdefault(f.name, []).append(f)
            segs = split_path(f.name)
            if f.is_const or 'promoted[' in f.name:
                self.consts.setdefault(strip_generics(segs[-1]), []).append(f)
                continue
            last = segs[-1]
            if last.startswith('{closure') or last.startswith('{coroutine') or '{closure#' in f.name:
                if f.args:
                    m = re.search(r'\{(closure@[^}]*)\}', f.args[0][1])
                    if m:
                        self.closures[m.group(1)] = f
                if last.startswith('{'):
                    continue
            if f.impl_loc is not None:
                # method name = segment right after the <impl at ..> segment
                k = [i for i, s in enumerate(segs) if s.startswith('<impl at')][-1]
                if k + 1 >= len(segs):
                    continue
                if k + 2 < len(segs):
                    # nested item inside a method (closure handled above, inner fn)
                    self.free.setdefault(strip_generics(segs[-1]), []).append(f)
                    continue
                method = strip_generics(segs[k + 1])
                impls = self.items.impls.get(f.impl_loc)
                if impls:
                    im = self._pick_cfg(impls)
                    self_ty, trait = norm_ty(im.self_ty), (norm_ty(im.trait) if im.trait else None)
                    gens = im.generics
                else:
                    dv = self.items.derives.get(f.impl_loc)
                    if dv is None:
                        # macro generated impl: self type from the first argument / return type
                        self_ty = self._self_from_sig(f)
                        trait = '?'
                        gens = []
                        if self_ty is None:
                            continue
                    else:
                        self_ty, gens = dv[0], dv[1]
                        trait = DERIVE_TRAIT.get(method, '?')
                head = ty_head(self_ty) if ty_kind(self_ty) in ('adt', 'param') else self_ty
                self.methods.setdefault((head, method), []).append((f, trait, self_ty, gens))
            else:
                self.free.setdefault(strip_generics(last), []).append(f)
    def _self_from_sig(self, f):
        if f.args:
            t = norm_ty(f.args[0][1])
            while ty_kind(t) in ('ref', 'ptr'):
                t = pointee_ty(t)
            if ty_kind(t) == 'adt':
                return t
        t = norm_ty(f.ret)
        if ty_kind(t) == 'adt':
            return t
        return None
    def _pick_cfg(self, defs):
        ok = [d for d in defs if all(cfg_holds(c, self.features) for c in d.cfg)]
        return (ok or defs)[0]
    # ------------------------------------------------------------------ definitions
    def _pick_def(self, cands, ty):
        ok = [d for d in cands if all(cfg_holds(c, self.features) for c in d.cfg)]
        if not ok:
            return None
        if len(ok) == 1:
            return ok[0]
        quals = [strip_generics(s) for s in split_path(ty)[:-1]]
        best, bs = None, -1
        for d in ok:
            fp = d.file.replace('.rs', '').split('/')
            sc = sum(1 for q in quals if q in fp)
            fp2 = [x for x in fp if x != 'mod']
            if quals and fp2[-len(quals):] == quals:
                sc += 10      # the module path named by the type is exactly the file's module path
            if sc > bs:
                best, bs = d, sc
        return best
    def enum_def(self, ty):
        ty = norm_ty(ty)
        r = self._def_cache.get(('e', ty))
        if r is None:
            if ty_kind(ty) != 'adt':
                r = False
            else:
                c = self.items.enums.get(ty_head(ty))
                r = (self._pick_def(c, ty) if c else None) or False
            self._def_cache[('e', ty)] = r
        return r or None
    def struct_def(self, ty):
        ty = norm_ty(ty)
        r = self._def_cache.get(('s', ty))
        if r is None:
            if ty_kind(ty) != 'adt':
                r = False
            else:
                c = self.items.structs.get(ty_head(ty))
                r = (self._pick_def(c, ty) if c else None) or False
            self._def_cache[('s', ty)] = r
        return r or None
    def variant_index(self, enum_ty, vname):
        return self.enum_def(enum_ty).vindex[vname]
    # ------------------------------------------------------------------ lookup by loose name
    def lookup(self, name):
        """find a function by 'Type::method', 'Trait for Type::method' or a free function path suffix"""
        m = re.match(r'^<(.+) as (.+)>::(\w+)$', name)
        if m:
            c = self._method_cands(norm_ty(m.group(1)), norm_ty(m.group(2)), m.group(3))
            return c[0][0] if len(c) >= 1 else None
        segs = split_path(name)
        if len(segs) >= 2:
            c = self._method_cands(norm_ty('::'.join(segs[:-1])), None, segs[-1])
            if len(c) == 1:
                return c[0][0]
            if len(c) > 1:
                inh = [x for x in c if x[1] is None]
                if len(inh) == 1:
                    return inh[0][0]
                raise Unsupported(f'ambiguous lookup {name}: {[x[0].name for x in c]}')
        c = self._free_cands(name)
        if len(c) == 1:
            return c[0]
        if len(c) > 1:
            raise Unsupported(f'ambiguous lookup {name}: {[x.name for x in c]}')
        return None
    def _free_cands(self, path):
        segs = [strip_generics(s) for s in split_path(norm_ty(path))]
        c = self.free.get(segs[-1], [])
        if len(c) <= 1:
            return list(c)
        out = []
        for f in c:
            fs = [strip_generics(s) for s in split_path(f.name)]
            # all qualifiers of the reference must appear in order in crate::path
            full = [f.crate] + fs
            i = 0
            ok = True
            for q in segs[:-1]:
                if q in ('crate', 'self', 'super'):
                    continue
                try:
                    i = full.index(q, i) + 1
                except ValueError:
                    ok = False
                    break
            if ok:
                out.append(f)
        if len(out) > 1:
            ex = [f for f in out if [strip_generics(s) for s in split_path(f.name)][-len(segs):] == segs]
            if len(ex) >= 1:
                out = ex
        if len(out) > 1:
            # prefer the shortest path (outermost item)
            out.sort(key=lambda f: len(split_path(f.name)))
            if len(split_path(out[0].name)) < len(split_path(out[1].name)):
                out = out[:1]
        return out
    def _method_cands(self, self_ty, trait, method):
        head = ty_head(self_ty) if ty_kind(self_ty) in ('adt', 'param') else self_ty
        c = self.methods.get((head, method), [])
        if not c and ty_kind(self_ty) in ('ref', 'ptr'):
            return self._method_cands(pointee_ty(self_ty), trait, method)
        if trait is not None:
            th = ty_head(trait)
            c2 = [x for x in c if x[1] is not None and (x[1] == '?' or ty_head(x[1]) == th)]
            if len(c2) > 1:
                targs = ty_args(trait)
                c3 = [x for x in c2 if x[1] != '?' and _args_compatible(ty_args(x[1]), targs, x[3])]
                if c3:
                    c2 = c3
            c = c2
        if len(c) > 1:
            # disambiguate same-named types by module qualifiers
            quals = [strip_generics(s) for s in split_path(self_ty)[:-1]]
            if quals:
                sc = []
                for x in c:
                    fp = (x[0].impl_loc[0] if x[0].impl_loc else '').replace('.rs', '').split('/')
                    sc.append(sum(1 for q in quals if q in fp))
                mx = max(sc)
                c = [x for x, s in zip(c, sc) if s == mx]
        if len(c) > 1:
            # self type generic arguments  (impl Foo<A> vs impl Foo<B>)
            sargs = ty_args(self_ty)
            if sargs:
                c3 = [x for x in c if _args_compatible(ty_args(x[2]), sargs, x[3])]
                if c3:
                    c = c3
        return c
    def closure_fn(self, loc):
        return self.closures.get(loc)
    def lookup_const(self, s, fn=None):
        c = self.by_name.get(s)
        if c:
            return c[0]
        n = normalise_callee(s)
        segs = split_path(n)
        last = segs[-1]
        cands = self.consts.get(last, [])
        if 'promoted[' in last:
            # fn_path::promoted[i] : match the enclosing function
            out = []
            if fn is not None:
                out = [f for f in cands if f.name == fn.name + '::' + last and f.crate == fn.crate]
            if not out:
                for f in cands:
                    if normalise_callee(f.name) == n:
                        out.append(f)
            if not out and fn is not None:
                for f in cands:
                    if normalise_callee(f.name) == normalise_callee(fn.name) + '::' + last:
                        out.append(f)
            if not out:
                # suffix match on the method path
                tail = [strip_generics(x) for x in segs[-2:]]
                for f in cands:
                    fs = [strip_generics(x) for x in split_path(normalise_callee(f.name))]
                    if fs[-2:] == tail:
                        out.append(f)
            return out[0] if len(out) >= 1 else None
        out = []
        quals = [q for q in segs[:-1] if q not in ('crate', 'self')]
        for f in cands:
            full = [f.crate] + [strip_generics(x) for x in split_path(f.name)]
            i = 0
            ok = True
            for q in quals:
                try:
                    i = full.index(q, i) + 1
                except ValueError:
                    ok = False
                    break
            if ok:
                out.append(f)
        if not out and len(cands) == 1:
            return cands[0]
        if not out and len(cands) > 1:
            c2 = [f for f in cands if quals and f.crate == quals[0]]
            if len(c2) == 1:
                return c2[0]
            raise Unsupported(f'ambiguous constant {s}: {[f.name for f in cands]}')
        return out[0] if out else None

    # ------------------------------------------------------------------ call resolution
    def resolve(self, callee, norm, args, fr, eng):
        """-> (Fn | None, subst)"""
        raw = norm_ty(callee)
        raw = re.sub(r'::<impl [^<>]*>$', '', raw)
        m = re.match(r'^<(.+?) as (.+)>::([\w]+)(<.*>)?$', raw)
        if m and find_top(raw[1:], ' as ') >= 0:
            k = find_top(raw[1:], ' as ') + 1
            self_ty = raw[1:k].strip()
            rest = raw[k + 4:]
            e = rfind_top(rest, '>::')
            trait = rest[:e].strip()
            method = strip_generics(rest[e + 3:])
            self_ty = self._concrete_self(self_ty, args, fr, eng)
            c = self._method_cands(self_ty, trait, method)
            c = self._narrow_by_runtime(c, args, eng)
            if len(c) == 1:
                return c[0][0], self._subst_for(c[0], self_ty, raw, fr)
            if len(c) > 1:
                raise Unsupported(f'ambiguous call {callee}: {[x[0].name for x in c]}')
            return None, None
        segs = split_path(raw)
        ki = [i for i, sg in enumerate(segs) if sg.startswith('<impl ')]
        if ki and ki[-1] == len(segs) - 2 and ki[-1] > 0:
            segs = segs[ki[-1]:]
        if segs[0].startswith('<') and len(segs) == 2:
            # <impl Type>::method  or <Type>::method
            inner = segs[0][1:-1]
            inner = inner[5:] if inner.startswith('impl ') else inner
            c = self._method_cands(norm_ty(inner), None, strip_generics(segs[1]))
            inh = [x for x in c if x[1] is None]
            if inh:
                c = inh
            c = self._narrow_by_runtime(c, args, eng)
            c = self._narrow_by_arity(c, args)
            if len(c) == 1:
                return c[0][0], self._subst_for(c[0], inner, raw, fr)
            if len(c) > 1:
                raise Unsupported(f'ambiguous call {callee}: {[x[0].name for x in c]}')
            return None, None
        if len(segs) >= 2:
            self_ty = '::'.join(segs[:-1])
            method = strip_generics(segs[-1])
            st = self._concrete_self(self_ty, args, fr, eng)
            c = self._method_cands(st, None, method)
            if c:
                inh = [x for x in c if x[1] is None]
                if inh:
                    c = inh
                c = self._narrow_by_runtime(c, args, eng)
                c = self._narrow_by_arity(c, args)
                if len(c) > 1 and len(segs) >= 3:
                    # two types with the same name in different modules: the impl lives in the module named by the callee path
                    mod = '::'.join(strip_generics(x) for x in segs[:-2])
                    c2 = [x for x in c if x[0].name.startswith(mod + '::<impl') or ('::' + mod + '::<impl') in x[0].name]
                    if c2:
                        c = c2
                if len(c) == 1:
                    return c[0][0], self._subst_for(c[0], st, raw, fr)
                if len(c) > 1:
                    raise Unsupported(f'ambiguous call {callee}: {[x[0].name for x in c]}')
        c = self._free_cands(normalise_callee(raw))
        c = [f for f in c if len(f.args) == len(args)]
        if len(c) == 1:
            return c[0], self._subst_free(c[0], raw, fr)
        if len(c) > 1:
            raise Unsupported(f'ambiguous call {callee}: {[x.name for x in c]}')
        return None, None
    def _concrete_self(self, self_ty, args, fr, eng):
        t = norm_ty(self_ty)
        if fr is not None and fr.subst and ty_kind(t) == 'param' and t in fr.subst:
            return fr.subst[t]
        if ty_kind(t) == 'param' or t == 'Self':
            if args:
                rt = runtime_ty(args[0], eng)
                if rt:
                    return rt
        return t
    def _narrow_by_runtime(self, c, args, eng):
        if len(c) <= 1 or not args:
            return c
        rt = runtime_ty(args[0], eng)
        if not rt:
            return c
        c2 = [x for x in c if ty_head(norm_ty(x[2])) == ty_head(rt)]
        return c2 or c
    def _narrow_by_arity(self, c, args):
        if len(c) <= 1:
            return c
        c2 = [x for x in c if len(x[0].args) == len(args)]
        return c2 or c
    def _subst_for(self, cand, self_ty, raw, fr):
        """generic substitution for the callee frame: impl generics from the self type's arguments"""
        f, trait, impl_self, gens = cand
        subst = {}
        if gens:
            ia = ty_args(norm_ty(impl_self))
            ca = ty_args(norm_ty(self_ty))
            if len(ia) == len(ca):
                for a, b in zip(ia, ca):
                    if a in gens:
                        b = subst_params(b, fr.subst) if fr is not None and fr.subst else b
                        subst[a] = b
        t = self._turbofish_subst(raw, fr, f)
        if t:
            for k, v in t.items():
                subst[k] = v      # the method's own parameters shadow the impl's
        return subst or None
    def _fn_gen_idx(self):
        idx = getattr(self, '_fn_gen_index', None)
        if idx is None:
            idx = {}
            for rel, src in self.items.files.items():
                for m in re.finditer(r'\bfn\s+(\w+)\s*<([^>()]*)>\s*\(', src):
                    ps = []
                    for part in split_top(m.group(2), ','):
                        part = part.strip()
                        if not part or part.startswith("'") or part.startswith('const '):
                            continue
                        ps.append(part.split(':')[0].strip())
                    line = src.count('\n', 0, m.start()) + 1
                    idx.setdefault(m.group(1), []).append((rel, line, tuple(ps)))
            self._fn_gen_index = idx
        return idx
    def fn_generics(self, name, f=None):
        """type parameter names of `fn name<..>` from the source: the definition inside f's impl block when f is a method,
        otherwise the unique definition of that name (None when absent or ambiguous)"""
        c = self._fn_gen_idx().get(name)
        if not c:
            return None
        if f is not None:
            m = re.search(r'<impl at ([^:>]+):(\d+):', f.name)
            if m:
                rel, l0 = m.group(1), int(m.group(2))
                c2 = sorted(x for x in c if x[0] == rel and x[1] >= l0)
                if c2:
                    return list(c2[0][2])
                return None
        ps = {x[2] for x in c}
        if len(ps) == 1:
            return list(next(iter(ps)))
        return None
    def _turbofish_subst(self, raw, fr, f=None):
        segs = split_path(raw)
        last = segs[-1]
        name = strip_generics(last)
        if '<' not in last:
            return None
        args = ty_args(norm_ty('X' + last[last.index('<'):]))
        gens = self.fn_generics(name, f)
        if not gens or len(gens) != len(args):
            return None
        out = {}
        for g, a in zip(gens, args):
            if fr is not None and fr.subst:
                a = subst_params(a, fr.subst)
            out[g] = a
        return out
    def _subst_free(self, f, raw, fr):
        return self._turbofish_subst(raw, fr, f)
    # ------------------------------------------------------------------ layouts
    def layout(self, ty):
        ty = norm_ty(ty)
        if ty in INT_BITS:
            b = INT_BITS[ty] // 8
            return (b, min(b, 16) if b < 16 else 16)
        if ty == 'bool':
            return (1, 1)
        if ty == 'f64':
            return (8, 8)
        if ty == '()':
            return (0, 1)
        k = ty_kind(ty)
        if k in ('ref', 'ptr'):
            inner = pointee_ty(ty)
            if is_slice_ty(inner) or inner == 'str' or inner.startswith('dyn '):
                return (16, 8)
            return (8, 8)
        if self._layout is None:
            self._load_layouts()
        r = self._layout.get(ty)
        if r is None:
            # MIR prints trimmed paths (instance::header::Header<unboxed::Value>): the head must match by path suffix, generic
            # arguments by their last path segments; all matches must agree
            canon = lambda t: re.sub(r'(?:\w+::)+(\w+)', r'\1', t)
            t2 = ty[len('laythe_core::'):] if ty.startswith('laythe_core::') else ty
            qh, _, qa = t2.partition('<')
            qa = canon(qa)
            c = set()
            for k, v in self._layout.items():
                kh, _, ka = k.partition('<')
                if (kh == qh or kh.endswith('::' + qh)) and canon(ka) == qa:
                    c.add(v)
            if len(c) == 1:
                r = next(iter(c))
                self._layout[ty] = r
        if r is None:
            raise Unsupported('layout of ' + ty)
        return r
    def _load_layouts(self):
        self._layout = {}
        p = os.path.join(os.path.dirname(list(self.mir_files.values())[0]), '..', 'type-sizes.json')
        from .typesizes import type_sizes
        self._layout = type_sizes(self)

def _args_compatible(impl_args, call_args, gens):
    if len(impl_args) != len(call_args):
        return True
    for a, b in zip(impl_args, call_args):
        a, b = norm_ty(a), norm_ty(b)
        if a in (gens or []) or ty_kind(a) == 'param' or ty_kind(b) == 'param':
            continue
        if ty_head(a) != ty_head(b):
            return False
        aa, bb = ty_args(a), ty_args(b)
        if aa and bb and not _args_compatible(aa, bb, gens):
            return False
    return True

def runtime_ty(v, eng=None):
    t = type(v)
    if t is Struct or t is EnumV:
        return v.ty if v.ty != '()' else None
    if t is Ref:
        x = v.cell.v if hasattr(v.cell, 'v') and not isinstance(v.cell, property) else None
        try:
            x = v.cell.get(eng) if eng is not None else v.cell.v
        except Exception:
            return None
        return runtime_ty(x, eng)
    rt = getattr(v, 'rust_ty', None)
    if rt is not None:
        return rt
    return None
