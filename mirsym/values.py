"""Value model of the MIR symbolic executor."""
import z3
INT_BITS = {'u8': 8, 'u16': 16, 'u32': 32, 'u64': 64, 'usize': 64, 'u128': 128,
            'i8': 8, 'i16': 16, 'i32': 32, 'i64': 64, 'isize': 64, 'i128': 128, 'char': 32}
SIGNED = {'i8', 'i16', 'i32', 'i64', 'isize', 'i128'}
F64 = z3.Float64()
RNE = z3.RNE()

class Unsupported(Exception):
    """construct the executor cannot handle: the obligation is inconclusive"""

class PathEnd(Exception):
    def __init__(self, kind, info=None):
        Exception.__init__(self, kind, info)
        self.kind = kind
        self.info = info

class Cell:
    __slots__ = ('v',)
    def __init__(self, v=None):
        self.v = v
    def get(self, eng):
        v = self.v
        if type(v) is Lazy:
            v = v.force(eng)
            self.v = v
        return v
    def set(self, eng, v):
        self.v = v
    def sub(self, eng, proj, variant=None):
        return None   # ordinary cells: the executor projects into the stored value

class Lazy:
    """placeholder for a not-yet-materialised symbolic value of type `ty` backed by `backing`"""
    __slots__ = ('ty', 'backing')
    def __init__(self, ty, backing):
        self.ty = ty
        self.backing = backing
    def force(self, eng):
        return eng.materialise(self.ty, self.backing)

class Backing:
    """names the leaves of a lazily materialised symbolic value"""
    def child(self, step):
        raise NotImplementedError
    def leaf(self, eng, sort):
        raise NotImplementedError

class NameBacking(Backing):
    __slots__ = ('path',)
    def __init__(self, path):
        self.path = path
    def child(self, step):
        return NameBacking(f'{self.path}.{step}')
    def leaf(self, eng, sort):
        return z3.Const(self.path, sort)
    def key(self):
        return self.path
    def __repr__(self):
        return self.path

class TermBacking(Backing):
    """leaves are uninterpreted functions of a z3 term (an element of a symbolic sequence)"""
    __slots__ = ('term', 'tyname', 'path')
    def __init__(self, term, tyname, path=''):
        self.term = term
        self.tyname = tyname
        self.path = path
    def child(self, step):
        return TermBacking(self.term, self.tyname, f'{self.path}.{step}' if self.path else str(step))
    def leaf(self, eng, sort):
        if self.path == '' and self.term.sort() == sort:
            return self.term
        f = z3.Function(f'{self.tyname}!{self.path}', self.term.sort(), sort)
        return f(self.term)
    def key(self):
        return f'{self.term.sexpr()}!{self.path}'
    def __repr__(self):
        return f'{self.term}!{self.path}'

class Struct:
    """struct / tuple value.  f: idx -> Cell.  `backing` set => missing fields are materialised lazily"""
    __slots__ = ('ty', 'f', 'backing', 'meta')
    def __init__(self, ty, fields=None, backing=None):
        self.ty = ty
        if fields is None:
            fields = {}
        elif isinstance(fields, list):
            fields = {i: (c if isinstance(c, Cell) else Cell(c)) for i, c in enumerate(fields)}
        self.f = fields
        self.backing = backing
        self.meta = None
    def field(self, eng, idx, fty):
        c = self.f.get(idx)
        if c is None:
            if self.backing is None:
                raise Unsupported(f'field {idx} of non-lazy {self.ty} missing')
            c = Cell(Lazy(fty, self.backing.child(idx)))
            self.f[idx] = c
        return c
    def __repr__(self):
        return f'{self.ty}{{{", ".join(f"{k}: {c.v!r}" for k, c in sorted(self.f.items()))}}}'

def Tup(vals):
    return Struct('()', list(vals))

UNIT = Struct('()', [])

class EnumV:
    """enum value. tag: python int (variant index) or z3 BV64 term (symbolic variant index)"""
    __slots__ = ('ty', 'tag', 'payload', 'backing', 'edef')
    def __init__(self, ty, tag, payload=None, backing=None, edef=None):
        self.ty = ty
        self.tag = tag
        self.payload = payload or {}     # variant name -> {idx: Cell}
        self.backing = backing
        self.edef = edef
    def field(self, eng, variant, idx, fty):
        d = self.payload.setdefault(variant, {})
        c = d.get(idx)
        if c is None:
            if self.backing is None:
                raise Unsupported(f'payload {variant}.{idx} of non-lazy {self.ty} missing')
            c = Cell(Lazy(fty, self.backing.child(variant).child(idx)))
            d[idx] = c
        return c
    def variant_name(self):
        if isinstance(self.tag, int) and self.edef is not None:
            return self.edef.variants[self.tag][0]
        return None
    def __repr__(self):
        vn = self.variant_name()
        if vn is not None:
            d = self.payload.get(vn, {})
            return f'{self.ty}::{vn}({", ".join(repr(c.v) for _, c in sorted(d.items()))})'
        return f'{self.ty}#{self.tag}'

class Ref:
    """reference / pointer to a cell"""
    __slots__ = ('cell', 'meta')
    def __init__(self, cell, meta=None):
        self.cell = cell
        self.meta = meta
    def __repr__(self):
        return f'&{self.cell.v!r}' if isinstance(self.cell, Cell) else f'&<{type(self.cell).__name__}>'

class FnItem:
    __slots__ = ('name',)
    def __init__(self, name):
        self.name = name
    def __repr__(self):
        return f'fn {self.name}'

class ClosureV:
    __slots__ = ('loc', 'caps', 'subst')
    def __init__(self, loc, caps, subst=None):
        self.loc = loc
        self.caps = caps    # Struct of captured values
        self.subst = subst  # generic instantiation of the function that created it (closure bodies use its parameters)

    def mir_field(self, eng, idx, ty):
        return self.caps.f[idx]

class Opaque:
    """value of a type the executor knows nothing about (only passed around)"""
    __slots__ = ('ty', 'name')
    def __init__(self, ty, name):
        self.ty = ty
        self.name = name
    def __repr__(self):
        return f'opaque<{self.ty}>{self.name}'

class StrV:
    """string slice constant"""
    __slots__ = ('s',)
    def __init__(self, s):
        self.s = s
    def __repr__(self):
        return f'str{self.s!r}'

# --------------------------------------------------------------------------------------------
# symbolic sequences (Vec<T>, slices)
class SymSeq:
    """sequence with symbolic length: z3 array BV64 -> elem sort.  Elements of ADT type are terms of an
    uninterpreted sort whose fields are read through uninterpreted accessor functions."""
    def __init__(self, elem_ty, arr, length, scalar_sort=None, tyname=None):
        self.elem_ty = elem_ty
        self.arr = arr
        self.len = length
        self.scalar_sort = scalar_sort    # z3 sort if elements are scalars
        self.tyname = tyname or elem_ty
    def copy(self):
        return SymSeq(self.elem_ty, self.arr, self.len, self.scalar_sort, self.tyname)
    def load(self, eng, idx):
        t = z3.Select(self.arr, idx)
        if self.scalar_sort is not None:
            return t
        return eng.materialise(self.elem_ty, TermBacking(t, self.tyname))
    def store(self, eng, idx, v):
        if self.scalar_sort is not None:
            self.arr = z3.Store(self.arr, idx, v)
            return
        term = eng.elem_term(v, self.arr.sort().range(), self.tyname)
        self.arr = z3.Store(self.arr, idx, term)

class SeqElemCell:
    """cell view onto seq[idx]"""
    __slots__ = ('seq', 'idx')
    def __init__(self, seq, idx):
        self.seq = seq
        self.idx = idx
    def get(self, eng):
        return self.seq.load(eng, self.idx)
    def set(self, eng, v):
        self.seq.store(eng, self.idx, v)
    def sub(self, eng, proj, variant=None):
        if self.seq.scalar_sort is not None:
            return None
        return ElemFieldCell(self, proj, variant)
    @property
    def v(self):
        raise Unsupported('raw .v on SeqElemCell')


class ElemFieldCell:
    """write-through view of a field inside an element of a symbolic sequence"""
    __slots__ = ('parent', 'proj', 'variant')

    def __init__(self, parent, proj, variant=None):
        self.parent = parent
        self.proj = proj
        self.variant = variant

    def _field_cell(self, eng, v):
        p = self.proj
        if isinstance(v, Struct):
            if p[1] in v.f:
                return v.f[p[1]]
            return v.field(eng, p[1], p[2])
        if isinstance(v, EnumV):
            vn = self.variant
            if vn is None and v.edef is not None and len(v.edef.variants) == 1:
                vn = v.edef.variants[0][0]
            if vn is None:
                raise Unsupported('field view into enum without a variant')
            d = v.payload.setdefault(vn, {})
            if p[1] in d:
                return d[p[1]]
            if v.backing is None:
                d[p[1]] = Cell(None)
                return d[p[1]]
            return v.field(eng, vn, p[1], p[2])
        raise Unsupported('field view into ' + type(v).__name__)

    def get(self, eng):
        v = self.parent.get(eng)
        return self._field_cell(eng, v).get(eng)

    def set(self, eng, x):
        v = self.parent.get(eng)
        self._field_cell(eng, v).set(eng, x)
        self.parent.set(eng, v)

    def sub(self, eng, proj, variant=None):
        return ElemFieldCell(self, proj, variant)

class SliceRef:
    """&[T] / &mut [T]: window into a sequence (SymSeq or ConcSeq)"""
    __slots__ = ('seq', 'start', 'len')
    def __init__(self, seq, start, length):
        self.seq = seq
        self.start = start
        self.len = length
    def __repr__(self):
        return f'&[{self.seq.elem_ty}][{self.start}..+{self.len}]'

class ConcSeq:
    """sequence with a concrete number of cells (arrays `[T; N]`, small concrete vectors)"""
    def __init__(self, elem_ty, cells):
        self.elem_ty = elem_ty
        self.cells = cells
    @property
    def len(self):
        return bv(len(self.cells), 64)
    def copy(self):
        raise Unsupported('copy of ConcSeq must go through the engine')

# --------------------------------------------------------------------------------------------
# z3 helpers with constant folding
def bv(v, w):
    return z3.BitVecVal(v, w)

def is_conc(x):
    return z3.is_bv_value(x)

def conc(x):
    """python int of a concrete BV or None"""
    if isinstance(x, int):
        return x
    if z3.is_bv_value(x):
        return x.as_long()
    return None

def simp(x):
    if isinstance(x, (bool, int)):
        return x
    return z3.simplify(x)

def as_bool(x):
    """normalise to python bool when decidable syntactically"""
    if isinstance(x, bool):
        return x
    if z3.is_true(x):
        return True
    if z3.is_false(x):
        return False
    return x

def b_not(x):
    x = as_bool(x)
    if isinstance(x, bool):
        return not x
    return as_bool(z3.simplify(z3.Not(x)))

def b_and(*xs):
    ys = []
    for x in xs:
        x = as_bool(x)
        if x is False:
            return False
        if x is True:
            continue
        ys.append(x)
    if not ys:
        return True
    return ys[0] if len(ys) == 1 else z3.And(*ys)

def b_or(*xs):
    ys = []
    for x in xs:
        x = as_bool(x)
        if x is True:
            return True
        if x is False:
            continue
        ys.append(x)
    if not ys:
        return False
    return ys[0] if len(ys) == 1 else z3.Or(*ys)

def to_z3_bool(x):
    return z3.BoolVal(x) if isinstance(x, bool) else x

def is_fp(x):
    return isinstance(x, z3.FPRef)


class SeqPtr:
    """typed raw pointer into a sequence (element granular): models `*mut T` obtained from a vector's buffer"""
    __slots__ = ('seq', 'idx', 'ty')

    def __init__(self, seq, idx, ty=None):
        self.seq = seq
        self.idx = idx
        self.ty = ty

    def offset(self, eng, n):
        return SeqPtr(self.seq, z3.simplify(self.idx + n), self.ty)

    def deref_cell(self, eng):
        cap = self.seq.len
        ok = eng.fork_bool(z3.ULT(self.idx, cap))
        if not ok:
            raise PathEnd('oob', ('pointer dereference outside its allocation', str(self.idx)))
        eng.note_access(self)
        return eng.seq_cell(self.seq, self.idx)

    def ptr_binop(self, eng, op, a, b):
        if isinstance(a, SeqPtr) and isinstance(b, SeqPtr):
            if a.seq is not b.seq:
                if op == 'Eq':
                    return False
                if op == 'Ne':
                    return True
                raise Unsupported('ordering of pointers into different allocations')
            return eng.binop(op, a.idx, b.idx, 'isize')
        if op == 'Offset':
            return a.offset(eng, b)
        raise Unsupported(f'pointer binop {op}')

    def copy_value(self, eng):
        return self

    def bind_elem(self, eng, backing):
        eng.add_constraint(backing.child('idx').leaf(eng, z3.BitVecSort(64)) == self.idx)

    def __repr__(self):
        return f'ptr[{self.idx}]'


class NullPtr:
    def ptr_binop(self, eng, op, a, b):
        if op == 'Eq':
            return isinstance(a, NullPtr) and isinstance(b, NullPtr)
        if op == 'Ne':
            return not (isinstance(a, NullPtr) and isinstance(b, NullPtr))
        raise Unsupported('null pointer arithmetic')

    def deref_cell(self, eng):
        raise PathEnd('oob', 'null pointer dereference')

    def __repr__(self):
        return 'null'
