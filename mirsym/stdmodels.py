"""Models of core/alloc library functions (the reviewed list of DESIGN.md §2.1 (2)).
Each model is a small python function over the executor's value domain.  They are validated
against native execution by the translator self-tests (selftest.py).
"""
import re
import z3
from .values import *
from .tys import *

def install(eng):
    from .engine import bvadd, bvsub, fit, SliceCell
    m = eng.model
    eng.value_eq = lambda a, b, fr=None: value_eq(eng, a, b, fr)
    # ---------------------------------------------------------------- Vec / slices
    def vec_of(v, eng):
        """accept Vec by value, &Vec, &mut Vec"""
        if isinstance(v, Ref):
            v = v.cell.get(eng)
        if isinstance(v, SliceRef):
            return v
        if not isinstance(v, (SymSeq, ConcSeq)):
            raise Unsupported('expected a vector, got ' + type(v).__name__)
        return v
    def seq_len(eng, s):
        if isinstance(s, SliceRef):
            return eng.slice_len(s)
        return s.len
    def as_slice(eng, v):
        if isinstance(v, Ref):
            v = v.cell.get(eng)
        if isinstance(v, SliceRef):
            return v
        if isinstance(v, (SymSeq, ConcSeq)):
            return SliceRef(v, bv(0, 64), None)
        raise Unsupported('expected slice-like, got ' + type(v).__name__)
    def m_vec_len(eng, args, ctx):
        return seq_len(eng, vec_of(args[0], eng))
    m(r'^(std::vec::|alloc::vec::)?Vec::len$', m_vec_len)
    m(r'^bumpalo::collections::Vec::len$', m_vec_len)
    m(r'^core::slice::<impl \[.*\]>::len$', lambda e, a, c: e.slice_len(as_slice(e, a[0])))

    def m_slice_contains(eng, args, ctx):
        s = as_slice(eng, args[0])
        x = args[1]
        n = conc(z3.simplify(eng.slice_len(s)))
        if n is None:
            raise Unsupported('contains on a slice of symbolic length')
        xv = x.cell.get(eng) if isinstance(x, Ref) else x
        for i in range(n):
            y = eng.seq_cell(s.seq, bvadd(s.start, bv(i, 64))).get(eng)
            if eng.fork_bool(to_z3_bool(eng.value_eq(y, xv, ctx.frame))):
                return True
        return False
    m(r'^core::slice::<impl \[.*\]>::contains$', m_slice_contains)

    def m_split_first(eng, args, ctx):
        s = as_slice(eng, args[0])
        ln = eng.slice_len(s)
        oty = norm_ty(ctx.dest_ty) if ctx.dest_ty else 'Option'
        if not eng.fork_bool(z3.UGT(ln, 0)):
            return opt(eng, oty)
        first = Ref(eng.seq_cell(s.seq, s.start))
        rest = SliceRef(s.seq, z3.simplify(s.start + 1), z3.simplify(ln - 1))
        return opt(eng, oty, Struct('()', {0: Cell(first), 1: Cell(rest)}, None))
    m(r'^core::slice::<impl \[.*\]>::split_first(_mut)?$', m_split_first)

    def m_split_last(eng, args, ctx):
        s = as_slice(eng, args[0])
        ln = eng.slice_len(s)
        oty = norm_ty(ctx.dest_ty) if ctx.dest_ty else 'Option'
        if not eng.fork_bool(z3.UGT(ln, 0)):
            return opt(eng, oty)
        last = Ref(eng.seq_cell(s.seq, z3.simplify(s.start + ln - 1)))
        rest = SliceRef(s.seq, s.start, z3.simplify(ln - 1))
        return opt(eng, oty, Struct('()', {0: Cell(last), 1: Cell(rest)}, None))
    m(r'^core::slice::<impl \[.*\]>::split_last(_mut)?$', m_split_last)
    m(r'^core::slice::<impl \[.*\]>::is_empty$', lambda e, a, c: as_bool(z3.simplify(e.slice_len(as_slice(e, a[0])) == 0)))

    def m_split_at(eng, args, ctx):
        s = as_slice(eng, args[0])
        mid = args[1]
        ln = eng.slice_len(s)
        if not eng.fork_bool(z3.ULE(mid, ln)):
            raise PathEnd('panic', 'split_at: mid > len')
        a = SliceRef(s.seq, s.start, mid)
        b = SliceRef(s.seq, z3.simplify(s.start + mid), z3.simplify(ln - mid))
        return Struct('()', {0: Cell(a), 1: Cell(b)}, None)
    m(r'^core::slice::<impl \[.*\]>::split_at(_mut)?$', m_split_at)
    m(r'^(std::vec::|alloc::vec::)?Vec::is_empty$', lambda e, a, c: as_bool(z3.simplify(seq_len(e, vec_of(a[0], e)) == 0)))
    m(r'^core::slice::<impl \[.*\]>::is_empty$', lambda e, a, c: as_bool(z3.simplify(e.slice_len(as_slice(e, a[0])) == 0)))
    def bounds(eng, idx, ln, what):
        ok = eng.fork_bool(z3.ULT(idx, ln))
        if not ok:
            raise PathEnd('panic', ('index out of bounds', what))
    def m_index(eng, args, ctx):
        """<Vec<T>/[T] as Index/IndexMut<I>>::index(_mut)"""
        a0 = args[0]
        while isinstance(a0, Ref):
            a0 = a0.cell.get(eng)
        hook = getattr(a0, 'index_with', None)
        if hook is not None:
            return hook(eng, args[1], ctx)
        s = as_slice(eng, args[0])
        i = args[1]
        ln = eng.slice_len(s)
        if isinstance(i, z3.BitVecRef):
            bounds(eng, i, ln, ctx.norm)
            return Ref(eng.seq_cell(s.seq, bvadd(s.start, i)))
        if isinstance(i, Struct):
            h = ty_head(i.ty)
            if h == 'RangeFrom':
                st = i.f[0].get(eng)
                if not eng.fork_bool(z3.ULE(st, ln)):
                    raise PathEnd('panic', ('slice start out of range', ctx.norm))
                return SliceRef(s.seq, bvadd(s.start, st), bvsub(ln, st))
            if h == 'Range':
                st, en = i.f[0].get(eng), i.f[1].get(eng)
                if not eng.fork_bool(z3.And(z3.ULE(st, en), z3.ULE(en, ln))):
                    raise PathEnd('panic', ('slice range out of range', ctx.norm))
                return SliceRef(s.seq, bvadd(s.start, st), bvsub(en, st))
            if h == 'RangeTo':
                en = i.f[0].get(eng)
                if not eng.fork_bool(z3.ULE(en, ln)):
                    raise PathEnd('panic', ('slice end out of range', ctx.norm))
                return SliceRef(s.seq, s.start, en)
            if h == 'RangeFull':
                return SliceRef(s.seq, s.start, ln)
            if h == 'RangeInclusive':
                st, en = i.f[0].get(eng), i.f[1].get(eng)
                if not eng.fork_bool(z3.And(z3.ULE(st, bvadd(en, bv(1, 64))), z3.ULT(en, ln))):
                    raise PathEnd('panic', ('slice range out of range', ctx.norm))
                return SliceRef(s.seq, bvadd(s.start, st), bvadd(bvsub(en, st), bv(1, 64)))
        raise Unsupported('index with ' + repr(i))
    m(r'^<(std::vec::|alloc::vec::)?Vec as (std::ops::|core::ops::)?Index(Mut)?>::index(_mut)?$', m_index)
    m(r'^<bumpalo::collections::Vec as (std::ops::|core::ops::)?Index(Mut)?>::index(_mut)?$', m_index)
    m(r'^<\[.*\] as (std::ops::|core::ops::)?Index(Mut)?>::index(_mut)?$', m_index)
    m(r'^core::slice::index::<impl (std::ops::|core::ops::)?Index(Mut)? for \[T\]>::index(_mut)?$', m_index)
    m(r'^core::array::<impl (std::ops::|core::ops::)?Index(Mut)? for \[T; N\]>::index(_mut)?$', m_index)
    def m_deref_vec(eng, args, ctx):
        return as_slice(eng, args[0])
    m(r'^<(std::vec::|alloc::vec::|bumpalo::collections::)?Vec as (std::ops::|core::ops::)?Deref(Mut)?>::deref(_mut)?$', m_deref_vec)
    m(r'^(std::vec::|alloc::vec::|bumpalo::collections::)?Vec::as_(mut_)?slice$', m_deref_vec)
    def m_slice_get(eng, args, ctx):
        s = as_slice(eng, args[0])
        i = args[1]
        ln = eng.slice_len(s)
        if not isinstance(i, z3.BitVecRef):
            raise Unsupported('slice get with range')
        ed = eng.P.enum_def('Option')
        if eng.fork_bool(z3.ULT(i, ln)):
            return EnumV(ctx.dest_ty and norm_ty(ctx.dest_ty) or 'Option', 1,
                         {'Some': {0: Cell(Ref(eng.seq_cell(s.seq, bvadd(s.start, i))))}}, None, ed)
        return EnumV(ctx.dest_ty and norm_ty(ctx.dest_ty) or 'Option', 0, None, None, ed)
    m(r'^core::slice::<impl \[.*\]>::get(_mut)?$', m_slice_get)
    def m_slice_last(eng, args, ctx):
        s_ = as_slice(eng, args[0])
        ln = eng.slice_len(s_)
        oty = norm_ty(ctx.dest_ty) if ctx.dest_ty else 'Option'
        if eng.fork_bool(ln == 0):
            return opt(eng, oty)
        first = ctx.norm.endswith('first') or ctx.norm.endswith('first_mut')
        idx = s_.start if first else bvadd(s_.start, bvsub(ln, bv(1, 64)))
        return opt(eng, oty, Ref(eng.seq_cell(s_.seq, idx)))
    m(r'^core::slice::<impl \[.*\]>::(last|last_mut|first|first_mut)$', m_slice_last)

    def m_get_unchecked(eng, args, ctx):
        s = as_slice(eng, args[0])
        i = args[1]
        ln = eng.slice_len(s)
        if not eng.fork_bool(z3.ULT(i, ln)):
            raise PathEnd('oob', ('get_unchecked out of bounds', ctx.norm))
        return Ref(eng.seq_cell(s.seq, bvadd(s.start, i)))
    m(r'^core::slice::<impl \[.*\]>::get_unchecked(_mut)?$', m_get_unchecked)
    def m_truncate(eng, args, ctx):
        v = vec_of(args[0], eng)
        n = args[1]
        if isinstance(v, SymSeq):
            v.len = z3.simplify(z3.If(z3.ULT(n, v.len), n, v.len))
            return UNIT
        cn = conc(n)
        if cn is None:
            cn = eng.concretize(n, list(range(len(v.cells) + 1)) + [None]) if False else eng.concretize(n)
        del v.cells[cn:]
        return UNIT
    m(r'^(std::vec::|alloc::vec::|bumpalo::collections::)?Vec::truncate$', m_truncate)
    def m_vec_push(eng, args, ctx):
        v = vec_of(args[0], eng)
        if isinstance(v, SymSeq):
            v.store(eng, v.len, args[1])
            v.len = bvadd(v.len, bv(1, 64))
        else:
            v.cells.append(Cell(args[1]))
        return UNIT
    m(r'^(std::vec::|alloc::vec::|bumpalo::collections::)?Vec::push$', m_vec_push)
    def m_vec_pop(eng, args, ctx):
        v = vec_of(args[0], eng)
        ed = eng.P.enum_def('Option')
        oty = norm_ty(ctx.dest_ty) if ctx.dest_ty else 'Option'
        if isinstance(v, SymSeq):
            if eng.fork_bool(v.len == 0):
                return EnumV(oty, 0, None, None, ed)
            v.len = bvsub(v.len, bv(1, 64))
            return EnumV(oty, 1, {'Some': {0: Cell(v.load(eng, v.len))}}, None, ed)
        if not v.cells:
            return EnumV(oty, 0, None, None, ed)
        c = v.cells.pop()
        return EnumV(oty, 1, {'Some': {0: Cell(c.get(eng))}}, None, ed)
    m(r'^(std::vec::|alloc::vec::|bumpalo::collections::)?Vec::pop$', m_vec_pop)
    def m_vec_new(eng, args, ctx):
        ety = ty_args(norm_ty(ctx.dest_ty))[0] if ctx.dest_ty and ty_args(norm_ty(ctx.dest_ty)) else None
        return ConcSeq(ety, [])
    m(r'^(std::vec::|alloc::vec::)?Vec::new$', m_vec_new)
    m(r'^<(std::vec::|alloc::vec::)?Vec as (std::default::|core::default::)?Default>::default$', m_vec_new)
    def m_int_default(eng, args, ctx):
        t = re.match(r'^<(\w+) as', ctx.norm).group(1)
        return bv(0, INT_BITS[t])
    m(r'^<([iu]\d+|[iu]size) as (std::default::|core::default::)?Default>::default$', m_int_default)
    m(r'^<bool as (std::default::|core::default::)?Default>::default$', lambda e, a, c: False)
    m(r'^(std::vec::|alloc::vec::)?Vec::with_capacity$', m_vec_new)
    # slice iterators -------------------------------------------------
    class SliceIter:
        rust_ty = 'std::slice::Iter'
        def __init__(self, s, pos=None, mutable=False):
            self.s = s
            self.pos = bv(0, 64) if pos is None else pos
            self.mutable = mutable
        def copy_value(self, eng):
            return SliceIter(self.s, self.pos, self.mutable)
    def m_iter(eng, args, ctx):
        return SliceIter(as_slice(eng, args[0]), None, 'mut' in ctx.norm)
    m(r'^core::slice::<impl \[.*\]>::iter(_mut)?$', m_iter)
    m(r'^<&(mut )?\[.*\] as (std::iter::|core::iter::)?IntoIterator>::into_iter$', m_iter)
    m(r'^<&(mut )?(std::vec::|alloc::vec::)?Vec as (std::iter::|core::iter::)?IntoIterator>::into_iter$', m_iter)
    m(r'^<&(mut )?bumpalo::collections::Vec as (std::iter::|core::iter::)?IntoIterator>::into_iter$', m_iter)
    def m_iter_next(eng, args, ctx):
        it = args[0].cell.get(eng)
        s = it.s
        ln = eng.slice_len(s)
        ed = eng.P.enum_def('Option')
        oty = norm_ty(ctx.dest_ty) if ctx.dest_ty else 'Option'
        if eng.fork_bool(z3.ULT(it.pos, ln)):
            c = eng.seq_cell(s.seq, bvadd(s.start, it.pos))
            it.pos = bvadd(it.pos, bv(1, 64))
            return EnumV(oty, 1, {'Some': {0: Cell(Ref(c))}}, None, ed)
        return EnumV(oty, 0, None, None, ed)
    m(r'^<(std|core)::slice::Iter(Mut)? as (std::iter::|core::iter::)?Iterator>::next$', m_iter_next)
    eng.SliceIter = SliceIter
    m(r'^<.* as (std::iter::|core::iter::)?IntoIterator>::into_iter$',
      lambda e, a, c: a[0], fallback=True)
    # ---------------------------------------------------------------- generic iterators (lazy adaptors)
    class MapIter:
        def __init__(self, it, f):
            self.it, self.f = it, f

    class ZipIter:
        def __init__(self, a, b):
            self.a, self.b = a, b

    class EnumIter:
        def __init__(self, it):
            self.it, self.n = it, bv(0, 64)

    class RevRange:
        def __init__(self, r):
            self.r = r

    def it_next(eng, it, fr):
        """-> value or None (forks)"""
        while isinstance(it, Ref):
            it = it.cell.get(eng)
        if isinstance(it, SliceIter):
            s = it.s
            if eng.fork_bool(z3.ULT(it.pos, eng.slice_len(s))):
                c = eng.seq_cell(s.seq, bvadd(s.start, it.pos))
                it.pos = bvadd(it.pos, bv(1, 64))
                return Ref(c)
            return None
        if isinstance(it, Struct) and ty_head(it.ty) == 'Range':
            st, en = it.f[0].get(eng), it.f[1].get(eng)
            if eng.fork_bool(z3.ULT(st, en)):
                it.f[0].set(eng, z3.simplify(st + 1))
                return st
            return None
        if isinstance(it, MapIter):
            v = it_next(eng, it.it, fr)
            if v is None:
                return None
            return eng.call_value(fr, it.f, [v])
        if isinstance(it, ZipIter):
            a = it_next(eng, it.a, fr)
            if a is None:
                return None
            b = it_next(eng, it.b, fr)
            if b is None:
                return None
            return Struct('()', [Cell(a), Cell(b)])
        if isinstance(it, EnumIter):
            v = it_next(eng, it.it, fr)
            if v is None:
                return None
            i = it.n
            it.n = bvadd(it.n, bv(1, 64))
            return Struct('()', [Cell(i), Cell(v)])
        nx = getattr(it, 'iter_next', None)
        if nx is not None:
            return nx(eng, fr)
        raise Unsupported('iteration over ' + type(it).__name__ + (' ' + it.ty if isinstance(it, Struct) else ''))
    eng.it_next = it_next
    eng.ZipIter = ZipIter
    eng.MapIter = MapIter

    def m_gen_next(eng, args, ctx):
        v = it_next(eng, args[0], ctx.frame)
        oty = norm_ty(ctx.dest_ty) if ctx.dest_ty else 'Option'
        return opt(eng, oty) if v is None else opt(eng, oty, v)
    m(r'^<(std::ops::|core::ops::)?Range as (std::iter::|core::iter::)?Iterator>::next$', lambda e, a, c: m_gen_next(e, a, c))
    m(r'^<(&mut )?(std::iter::|core::iter::)?(adapters::)?(\w+::)?(Map|Zip|Enumerate) as (std::iter::|core::iter::)?Iterator>::next$', lambda e, a, c: m_gen_next(e, a, c))
    m(r'^<.* as (std::iter::|core::iter::)?Iterator>::map$', lambda e, a, c: MapIter(a[0], a[1]), fallback=True)
    m(r'^<.* as (std::iter::|core::iter::)?Iterator>::zip$', lambda e, a, c: ZipIter(a[0], a[1] if not isinstance(a[1], (Ref, SymSeq, ConcSeq, SliceRef)) or isinstance(a[1], Ref) and isinstance(a[1].cell.get(e), SliceIter) else SliceIter(as_slice(e, a[1]))), fallback=True)
    m(r'^<.* as (std::iter::|core::iter::)?Iterator>::enumerate$', lambda e, a, c: EnumIter(a[0]), fallback=True)

    class RevSliceIter:
        """slice::Iter reversed: yields from the back"""
        def __init__(self, it):
            self.s, self.front, self.taken = it.s, it.pos, bv(0, 64)

        def iter_next(self, eng, fr):
            ln = eng.slice_len(self.s)
            remaining = z3.simplify(ln - self.front - self.taken)
            if eng.fork_bool(z3.And(z3.ULE(self.front + self.taken, ln), remaining != 0)):
                idx = z3.simplify(ln - 1 - self.taken)
                self.taken = z3.simplify(self.taken + 1)
                return Ref(eng.seq_cell(self.s.seq, bvadd(self.s.start, idx)))
            return None

        def copy_value(self, eng):
            return self

    class SkipIter:
        def __init__(self, it, n):
            self.it, self.n = it, n

        def iter_next(self, eng, fr):
            while True:
                if conc(z3.simplify(self.n)) == 0 or not eng.fork_bool(self.n != 0):
                    self.n = bv(0, 64)
                    return it_next(eng, self.it, fr)
                self.n = z3.simplify(self.n - 1)
                if it_next(eng, self.it, fr) is None:
                    return None

        def copy_value(self, eng):
            return self

    class TakeIter:
        def __init__(self, it, n):
            self.it, self.n = it, n

        def iter_next(self, eng, fr):
            if conc(z3.simplify(self.n)) == 0 or not eng.fork_bool(self.n != 0):
                return None
            self.n = z3.simplify(self.n - 1)
            return it_next(eng, self.it, fr)

        def copy_value(self, eng):
            return self

    class ClonedIter:
        def __init__(self, it):
            self.it = it

        def iter_next(self, eng, fr):
            v = it_next(eng, self.it, fr)
            if v is None:
                return None
            while isinstance(v, Ref):
                v = v.cell.get(eng)
            return eng.copy_value(v)

        def copy_value(self, eng):
            return self
    m(r'^<.* as (std::iter::|core::iter::)?Iterator>::(cloned|copied)$', lambda e, a, c: ClonedIter(a[0]), fallback=True)
    m(r'^<(std::iter::|core::iter::)?(adapters::)?(\w+::)?(Cloned|Copied) as (std::iter::|core::iter::)?Iterator>::next$', lambda e, a, c: m_gen_next(e, a, c))

    class FlattenIter:
        """Iterator::flatten over an iterator of Options (or references to Options)"""
        def __init__(self, it):
            self.it = it

        def iter_next(self, eng, fr):
            n = 0
            while True:
                v = it_next(eng, self.it, fr)
                if v is None:
                    return None
                o = v
                while isinstance(o, Ref):
                    o = o.cell.get(eng)
                if not isinstance(o, EnumV) or ty_head(o.ty) != 'Option':
                    raise Unsupported('flatten over ' + type(o).__name__)
                if variant_is(eng, o, 1):
                    payload0(eng, o, 'Some')
                    cell = o.payload['Some'][0]
                    return Ref(cell) if isinstance(v, Ref) else cell.get(eng)
                n += 1
                if n > max(4, getattr(eng, 'loop_bound', 64)):
                    raise PathEnd('unwind', 'flatten')

        def copy_value(self, eng):
            return self
    m(r'^<.* as (std::iter::|core::iter::)?Iterator>::flatten$', lambda e, a, c: FlattenIter(a[0]), fallback=True)
    m(r'^<(std::iter::|core::iter::)?(adapters::)?(\w+::)?Flatten as (std::iter::|core::iter::)?Iterator>::next$', lambda e, a, c: m_gen_next(e, a, c))

    def m_fold(eng, args, ctx):
        it, acc, f = args
        n = 0
        while True:
            v = it_next(eng, it, ctx.frame)
            if v is None:
                return acc
            acc = eng.call_value(ctx.frame, f, [acc, v])
            n += 1
            if n > max(4, getattr(eng, 'loop_bound', 64)):
                raise PathEnd('unwind', 'fold')
    m(r'^<.* as (std::iter::|core::iter::)?Iterator>::fold$', m_fold, fallback=True)

    def m_sum(eng, args, ctx):
        it = args[0]
        dty = norm_ty(ctx.dest_ty) if ctx.dest_ty else 'usize'
        w = INT_BITS.get(dty)
        if w is None:
            raise Unsupported('sum into ' + dty)
        acc = bv(0, w)
        n = 0
        while True:
            v = it_next(eng, it, ctx.frame)
            if v is None:
                return acc
            while isinstance(v, Ref):
                v = v.cell.get(eng)
            # debug builds panic on overflow, release builds wrap: the wrapped value is what both agree on when no overflow occurs
            acc = z3.simplify(acc + v)
            n += 1
            if n > max(4, getattr(eng, 'loop_bound', 64)):
                raise PathEnd('unwind', 'sum')
    m(r'^<.* as (std::iter::|core::iter::)?Iterator>::sum$', m_sum, fallback=True)

    # std::cell::Cell<T>: a plain slot (single threaded)
    class CellV:
        rust_ty = 'Cell'

        def __init__(self, inner):
            self.inner = inner

        def copy_value(self, eng):
            return CellV(Cell(eng.copy_value(self.inner.get(eng))))

    def mat_cellv(eng, ty, backing):
        t = norm_ty(ty)
        return CellV(Cell(Lazy(ty_args(t)[0], backing.child('cell'))))
    eng.materialiser(r'^(std::cell::|core::cell::)?Cell<.*>$', mat_cellv)

    def cellv(eng, v):
        while isinstance(v, Ref):
            v = v.cell.get(eng)
        if not isinstance(v, CellV):
            raise Unsupported('expected Cell<_>, got ' + type(v).__name__)
        return v
    m(r'^(std::cell::|core::cell::)?Cell::new$', lambda e, a, c: CellV(Cell(a[0])))
    m(r'^(std::cell::|core::cell::)?Cell::get$', lambda e, a, c: e.copy_value(cellv(e, a[0]).inner.get(e)))
    m(r'^(std::cell::|core::cell::)?Cell::set$', lambda e, a, c: (cellv(e, a[0]).inner.set(e, a[1]), UNIT)[1])

    def m_cell_replace(eng, args, ctx):
        cv = cellv(eng, args[0])
        old = cv.inner.get(eng)
        cv.inner.set(eng, args[1])
        return old
    m(r'^(std::cell::|core::cell::)?Cell::replace$', m_cell_replace)

    def m_try_fold(eng, args, ctx):
        it, acc, f = args
        oty = norm_ty(ctx.dest_ty) if ctx.dest_ty else 'Option'
        head = ty_head(oty)
        if head not in ('Option', 'Result'):
            raise Unsupported('try_fold into ' + oty)
        n = 0
        while True:
            v = it_next(eng, it, ctx.frame)
            if v is None:
                if head == 'Option':
                    return opt(eng, oty, acc)
                return EnumV(oty, 0, {'Ok': {0: Cell(acc)}}, None, eng.P.enum_def('Result'))
            r = eng.call_value(ctx.frame, f, [acc, v])
            good = 1 if head == 'Option' else 0
            if not variant_is(eng, r, good):
                return r
            acc = payload0(eng, r, 'Some' if head == 'Option' else 'Ok')
            n += 1
            if n > max(4, getattr(eng, 'loop_bound', 64)):
                raise PathEnd('unwind', 'try_fold')
    m(r'^<.* as (std::iter::|core::iter::)?Iterator>::try_fold$', m_try_fold, fallback=True)

    def m_rev(e, a, c):
        it = a[0]
        if isinstance(it, Ref):
            it = it.cell.get(e)
        if isinstance(it, SliceIter):
            return RevSliceIter(it)
        if isinstance(it, ClonedIter):
            inner = it.it.cell.get(e) if isinstance(it.it, Ref) else it.it
            if isinstance(inner, SliceIter):
                return ClonedIter(RevSliceIter(inner))
        raise Unsupported('rev of ' + type(it).__name__)
    m(r'^<.* as (std::iter::|core::iter::)?Iterator>::rev$', m_rev, fallback=True)
    m(r'^<.* as (std::iter::|core::iter::)?Iterator>::skip$', lambda e, a, c: SkipIter(a[0], a[1]), fallback=True)
    m(r'^<.* as (std::iter::|core::iter::)?Iterator>::take$', lambda e, a, c: TakeIter(a[0], a[1]), fallback=True)
    m(r'^<(std::iter::|core::iter::)?(adapters::)?(\w+::)?(Rev|Skip|Take) as (std::iter::|core::iter::)?Iterator>::next$', lambda e, a, c: m_gen_next(e, a, c))

    def m_collect(eng, args, ctx):
        out = []
        while True:
            v = it_next(eng, args[0], ctx.frame)
            if v is None:
                break
            out.append(Cell(v))
            if len(out) > eng.loop_bound:
                raise PathEnd('unwind', ('collect', ctx.frame.fn.name if ctx.frame else None))
        dty = norm_ty(ctx.dest_ty) if ctx.dest_ty else ''
        a = ty_args(dty)
        return ConcSeq(a[0] if a else None, out)
    m(r'^<.* as (std::iter::|core::iter::)?Iterator>::collect$', m_collect, fallback=True)

    def m_ptr_eq(eng, args, ctx):
        a, b = args
        if isinstance(a, Ref) and isinstance(b, Ref):
            return a.cell is b.cell
        pb = getattr(a, 'ptr_binop', None)
        if pb is not None:
            return pb(eng, 'Eq', a, b)
        raise Unsupported('ptr::eq on ' + type(a).__name__)
    m(r'^((std|core)::ptr::)?eq$', m_ptr_eq)

    # ---------------------------------------------------------------- Option / Result helpers not in MIR
    def opt(eng, ty, val=None):
        ed = eng.P.enum_def('Option')
        if val is None:
            return EnumV(ty or 'Option', 0, None, None, ed)
        return EnumV(ty or 'Option', 1, {'Some': {0: Cell(val)}}, None, ed)
    eng.mk_option = opt
    def variant_is(eng, e, idx):
        """python bool: is enum e variant idx (forks if symbolic)"""
        if isinstance(e.tag, int):
            return e.tag == idx
        return eng.fork_bool(e.tag == idx)
    eng.variant_is = variant_is
    def payload0(eng_, e, vname=None):
        if vname is None:
            eng_, e, vname = eng, eng_, e
        return e.payload[vname][0].get(eng) if vname in e.payload and 0 in e.payload[vname] \
            else e.field(eng, vname, 0, subst_generics(e.edef.variants[e.edef.vindex[vname]][2][0][1], e.edef, e.ty)).get(eng)
    eng.payload0 = payload0
    def m_unwrap(eng, args, ctx):
        e = args[0]
        if variant_is(eng, e, 1 if ty_head(e.ty) == 'Option' else 0):
            return payload0(eng, e, 'Some' if ty_head(e.ty) == 'Option' else 'Ok')
        raise PathEnd('panic', ('unwrap/expect on None/Err', ctx.norm,
                                args[1].s if len(args) > 1 and isinstance(args[1], StrV) else None))
    m(r'^(std::option::|core::option::)?Option::(unwrap|expect)$', m_unwrap)
    m(r'^(std::result::|core::result::)?Result::(unwrap|expect)$', m_unwrap)
    m(r'^(std::option::|core::option::)?Option::unwrap_unchecked$', m_unwrap)
    def m_is_some(eng, args, ctx):
        e = args[0]
        if isinstance(e, Ref):
            e = e.cell.get(eng)
        want = 1 if 'is_some' in ctx.norm or 'is_err' in ctx.norm else 0
        if isinstance(e.tag, int):
            return e.tag == want
        return as_bool(z3.simplify(e.tag == want))
    m(r'^(std::option::|core::option::)?Option::(is_some|is_none)$', m_is_some)
    m(r'^(std::result::|core::result::)?Result::(is_ok|is_err)$', m_is_some)
    def m_opt_map(eng, args, ctx):
        e, f = args
        oty = norm_ty(ctx.dest_ty) if ctx.dest_ty else 'Option'
        if variant_is(eng, e, 0):
            return opt(eng, oty)
        v = payload0(eng, e, 'Some')
        return opt(eng, oty, eng.call_value(ctx.frame, f, [v]))
    m(r'^(std::option::|core::option::)?Option::map$', m_opt_map)

    def m_res_map(eng, args, ctx):
        r, f = args
        ed = eng.P.enum_def('Result')
        oty = norm_ty(ctx.dest_ty) if ctx.dest_ty else 'Result'
        if variant_is(eng, r, 1):
            return EnumV(oty, 1, {'Err': {0: Cell(payload0(eng, r, 'Err'))}}, None, ed)
        v = payload0(eng, r, 'Ok')
        return EnumV(oty, 0, {'Ok': {0: Cell(eng.call_value(ctx.frame, f, [v]))}}, None, ed)
    m(r'^(std::result::|core::result::)?Result::map$', m_res_map)

    def m_res_and_then(eng, args, ctx):
        r, f = args
        ed = eng.P.enum_def('Result')
        oty = norm_ty(ctx.dest_ty) if ctx.dest_ty else 'Result'
        if variant_is(eng, r, 1):
            return EnumV(oty, 1, {'Err': {0: Cell(payload0(eng, r, 'Err'))}}, None, ed)
        return eng.call_value(ctx.frame, f, [payload0(eng, r, 'Ok')])
    m(r'^(std::result::|core::result::)?Result::and_then$', m_res_and_then)

    def m_expect_err(eng, args, ctx):
        r = args[0]
        if variant_is(eng, r, 1):
            return payload0(eng, r, 'Err')
        raise PathEnd('panic', ('expect_err on Ok', ctx.norm, None))
    m(r'^(std::result::|core::result::)?Result::(expect_err|unwrap_err)$', m_expect_err)
    def m_opt_and_then(eng, args, ctx):
        e, f = args
        oty = norm_ty(ctx.dest_ty) if ctx.dest_ty else 'Option'
        if variant_is(eng, e, 0):
            return opt(eng, oty)
        return eng.call_value(ctx.frame, f, [payload0(eng, e, 'Some')])
    m(r'^(std::option::|core::option::)?Option::and_then$', m_opt_and_then)
    def m_opt_filter(eng, args, ctx):
        e, f = args
        oty = norm_ty(ctx.dest_ty) if ctx.dest_ty else e.ty
        if variant_is(eng, e, 0):
            return opt(eng, oty)
        v = payload0(eng, e, 'Some')
        if eng.fork_bool(to_z3_bool(eng.call_value(ctx.frame, f, [Ref(Cell(v))]))):
            return opt(eng, oty, v)
        return opt(eng, oty)
    m(r'^(std::option::|core::option::)?Option::filter$', m_opt_filter)
    def m_opt_unwrap_or(eng, args, ctx):
        e, d = args
        if variant_is(eng, e, 1):
            return payload0(eng, e, 'Some')
        return d
    m(r'^(std::option::|core::option::)?Option::unwrap_or$', m_opt_unwrap_or)
    def m_opt_or_else(eng, args, ctx):
        e_, f = args
        if variant_is(eng, e_, 1):
            return e_
        return eng.call_value(ctx.frame, f, [])
    m(r'^(std::option::|core::option::)?Option::or_else$', m_opt_or_else)

    def m_opt_or(eng, args, ctx):
        e_, o = args
        if variant_is(eng, e_, 1):
            return e_
        return o
    m(r'^(std::option::|core::option::)?Option::or$', m_opt_or)

    def m_opt_unwrap_or_else(eng, args, ctx):
        e, f = args
        if variant_is(eng, e, 1 if ty_head(e.ty) == 'Option' else 0):
            return payload0(eng, e, 'Some' if ty_head(e.ty) == 'Option' else 'Ok')
        if ty_head(e.ty) == 'Option':
            return eng.call_value(ctx.frame, f, [])
        return eng.call_value(ctx.frame, f, [payload0(eng, e, 'Err')])
    m(r'^(std::option::|core::option::)?Option::unwrap_or_else$', m_opt_unwrap_or_else)
    m(r'^(std::result::|core::result::)?Result::unwrap_or_else$', m_opt_unwrap_or_else)
    def m_opt_as_ref(eng, args, ctx):
        e = args[0].cell.get(eng)
        oty = norm_ty(ctx.dest_ty) if ctx.dest_ty else 'Option'
        if variant_is(eng, e, 0):
            return opt(eng, oty)
        fty = subst_generics('T', e.edef, e.ty)
        return opt(eng, oty, Ref(e.field(eng, 'Some', 0, fty)))
    m(r'^(std::option::|core::option::)?Option::as_(ref|mut)$', m_opt_as_ref)
    def m_opt_ok_or(eng, args, ctx):
        e, err = args
        ed = eng.P.enum_def('Result')
        rty = norm_ty(ctx.dest_ty) if ctx.dest_ty else 'Result'
        if variant_is(eng, e, 1):
            return EnumV(rty, 0, {'Ok': {0: Cell(payload0(eng, e, 'Some'))}}, None, ed)
        return EnumV(rty, 1, {'Err': {0: Cell(err)}}, None, ed)
    m(r'^(std::option::|core::option::)?Option::ok_or$', m_opt_ok_or)
    def m_opt_cloned(eng, args, ctx):
        e_ = args[0]
        oty = norm_ty(ctx.dest_ty) if ctx.dest_ty else 'Option'
        if variant_is(eng, e_, 0):
            return opt(eng, oty)
        v = payload0(eng, e_, 'Some')
        if isinstance(v, Ref):
            v = eng.copy_value(v.cell.get(eng))
        return opt(eng, oty, v)
    m(r'^(std::option::|core::option::)?Option::(cloned|copied)$', m_opt_cloned)

    def m_opt_get_or_insert(eng, args, ctx):
        r, x = args
        cell = r.cell
        o = cell.get(eng)
        if variant_is(eng, o, 0):
            v = x if 'with' not in ctx.norm.split('::')[-1] else eng.call_value(ctx.frame, x, [])
            o = opt(eng, o.ty, v)
            cell.set(eng, o)
        if 'Some' not in (o.payload or {}) or 0 not in o.payload['Some']:
            payload0(eng, o, 'Some')
        return Ref(o.payload['Some'][0])
    m(r'^(std::option::|core::option::)?Option::(get_or_insert|get_or_insert_with)$', m_opt_get_or_insert)

    def m_from_elem(eng, args, ctx):
        x, n = args
        dty = norm_ty(ctx.dest_ty) if ctx.dest_ty else None
        ety = ty_args(dty)[0] if dty and ty_args(dty) else None
        if ety is None:
            g = re.search(r'from_elem<(.*)>$', norm_ty(ctx.callee))
            ety = g.group(1) if g else 'u8'
        s_ = eng.fresh_seq(ety, NameBacking(eng.fresh_name('from_elem')), n)
        so = s_.arr.sort().range()
        term = x if s_.scalar_sort is not None else eng.elem_term(x, so, s_.tyname)
        s_.arr = z3.K(z3.BitVecSort(64), term)
        return s_
    m(r'^(std|alloc)::vec::from_elem$', m_from_elem)

    def m_vec_resize(eng, args, ctx):
        v = vec_of(args[0], eng)
        n, x = args[1], args[2]
        if not isinstance(v, SymSeq):
            raise Unsupported('Vec::resize on ' + type(v).__name__)
        so = v.arr.sort().range()
        term = x if v.scalar_sort is not None else eng.elem_term(x, so, v.tyname)
        eng.fresh_n += 1
        i = z3.BitVec(f'i!rs{eng.fresh_n}', 64)
        old, oldlen = v.arr, v.len
        v.arr = z3.Lambda([i], z3.If(z3.ULT(i, oldlen), z3.Select(old, i), term))
        v.len = n
        return UNIT
    m(r'^(std::vec::|alloc::vec::)?Vec::resize$', m_vec_resize)

    def m_opt_replace(eng, args, ctx):
        c = args[0].cell
        old = c.get(eng)
        c.set(eng, opt(eng, old.ty if isinstance(old, EnumV) else 'Option', args[1]))
        return old
    m(r'^(std::option::|core::option::)?Option::replace$', m_opt_replace)

    def m_opt_map_or(eng, args, ctx):
        e_, d, f = args
        if variant_is(eng, e_, 0):
            return d
        return eng.call_value(ctx.frame, f, [payload0(eng, e_, 'Some')])
    m(r'^(std::option::|core::option::)?Option::map_or$', m_opt_map_or)

    def m_opt_take(eng, args, ctx):
        c = args[0].cell
        e = c.get(eng)
        c.set(eng, opt(eng, e.ty))
        return e
    m(r'^(std::option::|core::option::)?Option::take$', m_opt_take)
    def m_opt_eq(eng, args, ctx):
        """<Option<T> as PartialEq>::eq  (std's derived impl): tags equal and payloads equal via T's eq"""
        a = args[0].cell.get(eng) if isinstance(args[0], Ref) else args[0]
        b = args[1].cell.get(eng) if isinstance(args[1], Ref) else args[1]
        return eng.value_eq(a, b, ctx.frame)
    m(r'^<(std::option::|core::option::)?Option as (std::cmp::|core::cmp::)?PartialEq>::(eq|ne)$',
      lambda e, a, c: m_opt_eq(e, a, c) if c.norm.endswith('eq') else b_not(m_opt_eq(e, a, c)))
    # try operator plumbing: <Result as Try>::branch / from_residual, <Option as Try>::branch
    def m_try_branch(eng, args, ctx):
        e = args[0]
        cf = eng.P.enum_def('ControlFlow')
        cty = norm_ty(ctx.dest_ty) if ctx.dest_ty else 'ControlFlow'
        is_opt = ty_head(e.ty) == 'Option'
        good = 1 if is_opt else 0
        if variant_is(eng, e, good):
            return EnumV(cty, 0, {'Continue': {0: Cell(payload0(eng, e, 'Some' if is_opt else 'Ok'))}}, None, cf)
        if is_opt:
            res = opt(eng, 'Option<Infallible>')
        else:
            res = EnumV('Result<Infallible, E>', 1, {'Err': {0: Cell(payload0(eng, e, 'Err'))}}, None, eng.P.enum_def('Result'))
        return EnumV(cty, 1, {'Break': {0: Cell(res)}}, None, cf)
    m(r'^<(std::result::|core::result::)?Result as (std::ops::|core::ops::)?Try>::branch$', m_try_branch)
    m(r'^<(std::option::|core::option::)?Option as (std::ops::|core::ops::)?Try>::branch$', m_try_branch)
    def m_from_residual(eng, args, ctx):
        r = args[0]
        rty = norm_ty(ctx.dest_ty) if ctx.dest_ty else r.ty
        if ty_head(r.ty) == 'Option':
            return opt(eng, rty)
        err = payload0(eng, r, 'Err')
        return EnumV(rty, 1, {'Err': {0: Cell(err)}}, None, eng.P.enum_def('Result'))
    m(r'^<(std::result::|core::result::)?Result as (std::ops::|core::ops::)?FromResidual>::from_residual$', m_from_residual)
    m(r'^<(std::option::|core::option::)?Option as (std::ops::|core::ops::)?FromResidual>::from_residual$', m_from_residual)
    def m_fn_call(eng, args, ctx):
        f = args[0]
        tup = args[1] if len(args) > 1 else UNIT
        vals = [tup.f[i].get(eng) for i in sorted(tup.f)] if isinstance(tup, Struct) else []
        return eng.call_value(ctx.frame, f, vals)
    m(r'^<.* as (std::ops::|core::ops::)?Fn(Once|Mut)?>::call(_once|_mut)?$', m_fn_call)

    def m_default_ne(eng, args, ctx):
        callee = re.sub(r'::ne$', '::eq', ctx.callee)
        from .tys import normalise_callee
        f, subst = eng.resolve(callee, normalise_callee(callee), args, ctx.frame)
        if f is None:
            raise Unsupported('PartialEq::ne without an eq body: ' + ctx.callee)
        return b_not(eng.exec_fn(f, args, (ctx.frame.depth + 1) if ctx.frame else 0, subst))
    m(r'^<.* as (std::cmp::|core::cmp::)?PartialEq>::ne$', m_default_ne, fallback=True)

    def m_box_deref(eng, args, ctx):
        b = args[0]
        inner = b.cell.get(eng) if isinstance(b, Ref) else b
        if isinstance(inner, Ref):
            return inner
        return b
    m(r'^<(bumpalo::boxed::|std::boxed::|alloc::boxed::)?Box as (std::ops::|core::ops::)?Deref(Mut)?>::deref(_mut)?$', m_box_deref)

    # identity conversions
    m(r'^<.* as (std::convert::|core::convert::)?From>::from$', lambda e, a, c: a[0], fallback=True)
    m(r'^<.* as (std::convert::|core::convert::)?Into>::into$', lambda e, a, c: a[0], fallback=True)
    m(r'^<.* as (std::clone::|core::clone::)?Clone>::clone$',
      lambda e, a, c: e.copy_value(a[0].cell.get(e)), fallback=True)
    m(r'^(std::mem::|core::mem::)(forget|drop)$', lambda e, a, c: UNIT)
    m(r'^(std::mem::|core::mem::)drop$', lambda e, a, c: UNIT)
    def m_replace(eng, args, ctx):
        c = args[0].cell
        old = c.get(eng)
        c.set(eng, args[1])
        return old
    m(r'^(std::mem::|core::mem::)replace$', m_replace)
    def m_swap(eng, args, ctx):
        a, b = args[0].cell, args[1].cell
        x, y = a.get(eng), b.get(eng)
        a.set(eng, y)
        b.set(eng, x)
        return UNIT
    m(r'^(std::mem::|core::mem::)swap$', m_swap)
    def m_size_of(eng, args, ctx):
        g = re.search(r'size_of::<(.*)>$', norm_ty(ctx.callee).replace('size_of<', 'size_of::<'))
        ty = g.group(1) if g else None
        if ty is None:
            raise Unsupported('size_of without type')
        return bv(eng.size_of(ty, ctx.frame), 64)
    m(r'^(std::mem::|core::mem::)size_of$', m_size_of)
    def m_align_of(eng, args, ctx):
        g = re.search(r'align_of<(.*)>$', norm_ty(ctx.callee))
        if g is None:
            raise Unsupported('align_of without type')
        return bv(eng.align_of(g.group(1), ctx.frame), 64)
    m(r'^(std::mem::|core::mem::)align_of$', m_align_of)
    # ---------------------------------------------------------------- bumpalo vectors (same model as Vec)
    m(r'^bumpalo::collections::Vec::push$', m_vec_push)
    m(r'^bumpalo::collections::Vec::(new_in|with_capacity_in)$', m_vec_new)
    m(r'^bumpalo::collections::Vec::pop$', m_vec_pop)
    m(r'^bumpalo::collections::Vec::is_empty$', lambda e, a, c: as_bool(z3.simplify(seq_len(e, vec_of(a[0], e)) == 0)))

    def m_extend_from_slice(eng, args, ctx):
        v = vec_of(args[0], eng)
        src = as_slice(eng, args[1])
        n = conc(z3.simplify(eng.slice_len(src)))
        if n is None:
            raise Unsupported('extend_from_slice with symbolic length')
        for i in range(n):
            x = eng.copy_value(eng.seq_cell(src.seq, bvadd(src.start, bv(i, 64))).get(eng))
            if isinstance(v, SymSeq):
                v.store(eng, v.len, x)
                v.len = bvadd(v.len, bv(1, 64))
            else:
                v.cells.append(Cell(x))
        return UNIT
    m(r'^(bumpalo::collections::|std::vec::|alloc::vec::)?Vec::extend_from_slice$', m_extend_from_slice)

    # ---------------------------------------------------------------- VecDeque (logical queue over a sequence)
    class DequeV:
        """VecDeque<T>: elements seq[head .. head+len) (no ring wrap-around in the abstract view)"""
        rust_ty = 'VecDeque'

        def __init__(self, seq, head, length):
            self.seq, self.head, self.len = seq, head, length

        def copy_value(self, eng):
            return self
    eng.DequeV = DequeV

    def dq(eng, v):
        while isinstance(v, Ref):
            v = v.cell.get(eng)
        if not isinstance(v, DequeV):
            raise Unsupported('expected VecDeque, got ' + type(v).__name__)
        return v

    def mat_deque(eng, ty, backing):
        a = ty_args(norm_ty(ty))
        ln = backing.child('len').leaf(eng, z3.BitVecSort(64))
        hd = backing.child('head').leaf(eng, z3.BitVecSort(64))
        eng.add_constraint(z3.And(z3.ULT(ln, 1 << 32), z3.ULT(hd, 1 << 32)))
        return DequeV(eng.fresh_seq(a[0], backing.child('buf'), bv((1 << 64) - 1, 64)), hd, ln)
    eng.materialiser(r'^(std::collections::)?(vec_deque::)?VecDeque<.*>$', mat_deque)
    VD = r'^(std::collections::)?(vec_deque::)?VecDeque::'
    m(VD + r'len$', lambda e, a, c: dq(e, a[0]).len)
    m(VD + r'is_empty$', lambda e, a, c: as_bool(z3.simplify(dq(e, a[0]).len == 0)))

    def m_dq_push_back(eng, args, ctx):
        d = dq(eng, args[0])
        d.seq.store(eng, z3.simplify(d.head + d.len), args[1])
        d.len = z3.simplify(d.len + 1)
        return UNIT
    m(VD + r'push_back$', m_dq_push_back)

    def m_dq_pop_front(eng, args, ctx):
        d = dq(eng, args[0])
        oty = norm_ty(ctx.dest_ty) if ctx.dest_ty else 'Option'
        if eng.fork_bool(d.len == 0):
            return opt(eng, oty)
        v = d.seq.load(eng, d.head)
        d.head = z3.simplify(d.head + 1)
        d.len = z3.simplify(d.len - 1)
        return opt(eng, oty, v)
    m(VD + r'pop_front$', m_dq_pop_front)

    def m_dq_new(eng, args, ctx):
        a = ty_args(norm_ty(ctx.dest_ty)) if ctx.dest_ty else ('u8',)
        return DequeV(eng.fresh_seq(a[0], NameBacking(eng.fresh_name('deque')), bv((1 << 64) - 1, 64)), bv(0, 64), bv(0, 64))
    m(VD + r'(new|with_capacity)$', m_dq_new)

    def m_dq_capacity(eng, args, ctx):
        # the physical capacity of the ring buffer: any value not below the length (std only promises "at least")
        d = dq(eng, args[0])
        k = z3.BitVec(eng.fresh_name('deque_capacity'), 64)
        eng.add_constraint(z3.And(z3.UGE(k, d.len), z3.ULT(k, 1 << 33)))
        return k
    m(VD + r'capacity$', m_dq_capacity)
    m(VD + r'(reserve|reserve_exact|shrink_to_fit)$', lambda e, a, c: UNIT)

    def m_dq_iter(eng, args, ctx):
        d = dq(eng, args[0])
        return SliceIter(SliceRef(d.seq, d.head, d.len))
    m(VD + r'iter$', m_dq_iter)
    m(r'^<&(mut )?(std::collections::)?(vec_deque::)?VecDeque as (std::iter::|core::iter::)?IntoIterator>::into_iter$', m_dq_iter)
    m(r'^<(std::collections::)?vec_deque::(iter::)?Iter as (std::iter::|core::iter::)?Iterator>::next$', lambda e, a, c: m_gen_next(e, a, c))

    def m_dq_as_slices(eng, args, ctx):
        # the split point of the ring buffer is arbitrary: a symbolic k <= len
        d = dq(eng, args[0])
        k = z3.BitVec(eng.fresh_name('ring_split'), 64)
        eng.add_constraint(z3.ULE(k, d.len))
        return Struct('()', [Cell(SliceRef(d.seq, d.head, k)), Cell(SliceRef(d.seq, z3.simplify(d.head + k), z3.simplify(d.len - k)))])
    m(VD + r'as_slices$', m_dq_as_slices)

    # ---------------------------------------------------------------- HashMap / HashSet: bounded association list
    class MapV:
        """hash map as an association list of (key, value cell) with pairwise distinct keys; key equality through value_eq"""
        rust_ty = 'HashMap'

        def __init__(self, entries=None, kty=None, vty=None):
            self.entries = entries or []     # [(key, Cell(value))]
            self.kty, self.vty = kty, vty

        def copy_value(self, eng):
            return MapV([(k, Cell(eng.copy_value(c.get(eng)))) for k, c in self.entries], self.kty, self.vty)
    eng.MapV = MapV

    def mp(eng, v):
        while isinstance(v, Ref):
            v = v.cell.get(eng)
        if not isinstance(v, MapV):
            raise Unsupported('expected a hash map, got ' + type(v).__name__)
        return v

    def key_of(eng, k):
        while isinstance(k, Ref):
            k = k.cell.get(eng)
        return k

    def key_eq(eng, a, b):
        a, b = key_of(eng, a), key_of(eng, b)     # &K keys compare through the reference
        ve = getattr(a, 'value_eq', None)
        if ve is not None:
            return ve(eng, b)
        pb = getattr(a, 'ptr_binop', None)
        if pb is not None:
            return pb(eng, 'Eq', a, b)
        return eng.value_eq(a, b, None)

    def map_find(eng, m_, k):
        """index of the entry with key k, or None (forks on key equality)"""
        for i, (ki, _) in enumerate(m_.entries):
            if eng.fork_bool(to_z3_bool(key_eq(eng, ki, k))):
                return i
        return None
    eng.map_find = map_find

    def mat_map(eng, ty, backing):
        t = norm_ty(ty)
        a = ty_args(t)
        kty = a[0]
        vty = a[1] if ty_head(t) != 'HashSet' and len(a) > 1 else '()'
        n = backing.child('n').leaf(eng, z3.BitVecSort(64))
        bound = eng.path_state.get('map_bound', 2)
        eng.add_constraint(z3.ULE(n, bound))
        cn = eng.concretize(n)
        ents = []
        for i in range(cn):
            k = eng.materialise(kty, backing.child(f'k{i}'))
            for (k2, _) in ents:
                eng.add_constraint(z3.Not(to_z3_bool(key_eq(eng, k, k2))))
            ents.append((k, Cell(Lazy(vty, backing.child(f'v{i}')))))
        return MapV(ents, kty, vty)
    eng.materialiser(r'^(hashbrown::|std::collections::)?(hash_map::)?HashMap<.*>$', mat_map)
    eng.materialiser(r'^(hashbrown::|std::collections::)?(hash_set::)?HashSet<.*>$', mat_map)
    HM = r'^(hashbrown::|std::collections::)?(hash_map::|hash_set::)?Hash(Map|Set)::'
    m(HM + r'len$', lambda e, a, c: bv(len(mp(e, a[0]).entries), 64))
    m(HM + r'is_empty$', lambda e, a, c: len(mp(e, a[0]).entries) == 0)
    m(HM + r'(reserve|shrink_to_fit)$', lambda e, a, c: UNIT)
    m(HM + r'(new|with_hasher|with_capacity_and_hasher|with_capacity)$', lambda e, a, c: MapV())
    m(r'^<(hashbrown::|std::collections::)?(hash_map::|hash_set::)?Hash(Map|Set) as (std::default::|core::default::)?Default>::default$', lambda e, a, c: MapV())

    def m_map_get(eng, args, ctx):
        m_ = mp(eng, args[0])
        k = key_of(eng, args[1])
        oty = norm_ty(ctx.dest_ty) if ctx.dest_ty else 'Option'
        i = map_find(eng, m_, k)
        if i is None:
            return opt(eng, oty)
        return opt(eng, oty, Ref(m_.entries[i][1]))
    m(HM + r'(get|get_mut)$', m_map_get)

    def m_map_contains(eng, args, ctx):
        return map_find(eng, mp(eng, args[0]), key_of(eng, args[1])) is not None
    m(HM + r'(contains_key|contains)$', m_map_contains)

    def m_map_insert(eng, args, ctx):
        m_ = mp(eng, args[0])
        k = args[1]
        v = args[2] if len(args) > 2 else UNIT
        oty = norm_ty(ctx.dest_ty) if ctx.dest_ty else 'Option'
        i = map_find(eng, m_, k)
        is_set = 'HashSet' in ctx.norm or len(args) == 2
        if i is None:
            m_.entries.append((k, Cell(v)))
            return True if is_set else opt(eng, oty)
        old = m_.entries[i][1].get(eng)
        m_.entries[i][1].set(eng, v)
        return False if is_set else opt(eng, oty, old)
    m(HM + r'insert$', m_map_insert)

    def m_map_remove(eng, args, ctx):
        m_ = mp(eng, args[0])
        k = key_of(eng, args[1])
        oty = norm_ty(ctx.dest_ty) if ctx.dest_ty else 'Option'
        i = map_find(eng, m_, k)
        if i is None:
            return False if 'HashSet' in ctx.norm else opt(eng, oty)
        old = m_.entries.pop(i)[1].get(eng)
        return True if 'HashSet' in ctx.norm else opt(eng, oty, old)
    m(HM + r'remove$', m_map_remove)

    class HashIter:
        def __init__(self, m_, mode):
            self.m, self.i, self.mode = m_, 0, mode

        def iter_next(self, eng, fr):
            if self.i >= len(self.m.entries):
                return None
            k, c = self.m.entries[self.i]
            self.i += 1
            if self.mode == 'keys':
                return Ref(Cell(k))
            if self.mode == 'values':
                return Ref(c)
            return Struct('()', [Cell(Ref(Cell(k))), Cell(Ref(c))])

        def copy_value(self, eng):
            return self
    m(HM + r'(iter|iter_mut)$', lambda e, a, c: HashIter(mp(e, a[0]), 'keys' if 'HashSet' in c.norm else 'pairs'))
    m(HM + r'keys$', lambda e, a, c: HashIter(mp(e, a[0]), 'keys'))
    m(HM + r'values$', lambda e, a, c: HashIter(mp(e, a[0]), 'values'))
    m(r'^<(hashbrown::|std::collections::)?(hash_map::|hash_set::)?(map::|set::)?(Iter|IterMut|Keys|Values) as (std::iter::|core::iter::)?Iterator>::next$', lambda e, a, c: m_gen_next(e, a, c))

    def m_for_each(eng, args, ctx):
        it, f = args
        n = 0
        while True:
            v = it_next(eng, it, ctx.frame)
            if v is None:
                return UNIT
            eng.call_value(ctx.frame, f, [v])
            n += 1
            if n > max(4, getattr(eng, 'loop_bound', 64)):
                raise PathEnd('unwind', 'for_each')
    m(r'^<.* as (std::iter::|core::iter::)?Iterator>::for_each$', m_for_each, fallback=True)

    def _it_scan(eng, args, ctx, kind):
        it, f = args
        if isinstance(it, Ref):
            it = it.cell.get(eng)
        n = 0
        while True:
            v = it_next(eng, it, ctx.frame)
            if v is None:
                break
            r = eng.call_value(ctx.frame, f, [v] if kind != 'find' else [Ref(Cell(v))])
            hit = eng.fork_bool(to_z3_bool(r))
            if kind == 'all':
                hit = not hit
            if hit:
                if kind == 'position':
                    return opt(eng, 'Option<usize>', bv(n, 64))
                if kind == 'find':
                    return opt(eng, norm_ty(ctx.dest_ty) if ctx.dest_ty else 'Option', v)
                return kind == 'any'
            n += 1
            if n > max(4, getattr(eng, 'loop_bound', 64)):
                raise PathEnd('unwind', kind)
        if kind == 'position':
            return opt(eng, 'Option<usize>')
        if kind == 'find':
            return opt(eng, norm_ty(ctx.dest_ty) if ctx.dest_ty else 'Option')
        return kind == 'all'
    for _k in ('position', 'any', 'all', 'find'):
        m(r'^<.* as (std::iter::|core::iter::)?Iterator>::' + _k + '$', (lambda k: lambda e, a, c: _it_scan(e, a, c, k))(_k), fallback=True)

    def m_map_retain(eng, args, ctx):
        m_, f = mp(eng, args[0]), args[1]
        keep = []
        for k, c in m_.entries:
            r = eng.call_value(ctx.frame, f, [Ref(Cell(k)), Ref(c)] if 'HashMap' in ctx.norm else [Ref(Cell(k))])
            if eng.fork_bool(to_z3_bool(r)):
                keep.append((k, c))
        m_.entries[:] = keep
        return UNIT
    m(HM + r'retain$', m_map_retain)

    # ---------------------------------------------------------------- Rc<RefCell<T>>
    class RcRefCell:
        rust_ty = 'Rc<RefCell>'

        def __init__(self, inner):
            self.inner = inner

        def copy_value(self, eng):
            return self

    def mat_rc_refcell(eng, ty, backing):
        t = norm_ty(ty)
        inner = ty_args(ty_args(t)[0])[0]
        key = ('rc', backing.key())
        v = eng.memo.get(key)
        if v is None:
            v = RcRefCell(Cell(Lazy(inner, backing.child('rc'))))
            eng.memo[key] = v
        return v
    eng.materialiser(r'^(std::rc::|alloc::rc::)?Rc<(std::cell::|core::cell::)?RefCell<.*>>$', mat_rc_refcell)
    eng.RcRefCell = RcRefCell

    def rc_of(eng, v):
        while isinstance(v, Ref):
            v = v.cell.get(eng)
        if not isinstance(v, RcRefCell):
            raise Unsupported('expected Rc<RefCell<_>>, got ' + type(v).__name__)
        return v
    m(r'^<(std::rc::|alloc::rc::)?Rc as (std::ops::|core::ops::)?Deref>::deref$', lambda e, a, c: Ref(Cell(rc_of(e, a[0]))))
    m(r'^<(std::rc::|alloc::rc::)?Rc as (std::clone::|core::clone::)?Clone>::clone$', lambda e, a, c: rc_of(e, a[0]))
    m(r'^(std::cell::|core::cell::)?RefCell::borrow(_mut)?$',
      lambda e, a, c: rc_of(e, a[0]) if isinstance(_deep(e, a[0]), RcRefCell) else _refcell_plain(e, a, c))
    m(r'^<(std::cell::|core::cell::)?Ref(Mut)? as (std::ops::|core::ops::)?Deref(Mut)?>::deref(_mut)?$',
      lambda e, a, c: Ref(rc_of(e, a[0]).inner) if isinstance(_deep(e, a[0]), RcRefCell) else _deep_ref(e, a[0]))

    def _deep(eng, v):
        while isinstance(v, Ref):
            v = v.cell.get(eng)
        return v

    def _deep_ref(eng, v):
        # &RefMut<T> where RefMut is modelled as &T
        while isinstance(v, Ref) and isinstance(v.cell.get(eng), Ref):
            v = v.cell.get(eng)
        return v

    def _refcell_plain(eng, a, c):
        # RefCell<T> stored inline: modelled as a struct whose only content is T (havoc unless materialised)
        return eng.fresh(c.dest_ty, eng.fresh_name('refcell_borrow')) if c.dest_ty else UNIT

    # ---------------------------------------------------------------- raw pointers (element granular)
    def as_seqptr(eng, p):
        if isinstance(p, SliceRef):
            return SeqPtr(p.seq, p.start)
        if isinstance(p, Ref) and isinstance(p.cell, SeqElemCell):
            return SeqPtr(p.cell.seq, p.cell.idx)
        return p
    eng.as_seqptr = as_seqptr

    def m_ptr_offset(eng, args, ctx):
        p, n = args
        op = ctx.norm.rsplit('::', 1)[1]
        p = as_seqptr(eng, p)
        if isinstance(p, Ref):
            c = conc(n)
            if c == 0:
                return p
            raise Unsupported('offset of a pointer to a single object')
        off = getattr(p, 'offset', None)
        if off is None:
            raise Unsupported('pointer arithmetic on ' + type(p).__name__)
        if op in ('sub', 'wrapping_sub'):
            n = z3.simplify(-n)
        return off(eng, n)
    m(r'^(std|core)::ptr::(mut_ptr|const_ptr)::<impl \*(mut|const) .*>::(offset|add|sub|wrapping_add|wrapping_sub|wrapping_offset)$', m_ptr_offset)

    def m_ptr_offset_from(eng, args, ctx):
        a, b = as_seqptr(eng, args[0]), as_seqptr(eng, args[1])
        of = getattr(a, 'offset_from', None)
        if of is not None:
            return of(eng, b)
        if isinstance(a, SeqPtr) and isinstance(b, SeqPtr):
            if a.seq is not b.seq:
                raise PathEnd('ub', 'offset_from between different allocations')
            return z3.simplify(a.idx - b.idx)
        raise Unsupported('offset_from on ' + type(a).__name__)
    m(r'^(std|core)::ptr::(mut_ptr|const_ptr)::<impl \*(mut|const) .*>::(offset_from|offset_from_unsigned|sub_ptr)$', m_ptr_offset_from)

    def m_ptr_read(eng, args, ctx):
        p = args[0]
        if isinstance(p, Ref):
            return eng.copy_value(p.cell.get(eng))
        return eng.copy_value(p.deref_cell(eng).get(eng))
    m(r'^(std|core)::ptr::read(_unaligned|_volatile)?$', m_ptr_read)
    m(r'^(std|core)::ptr::(mut_ptr|const_ptr)::<impl \*(mut|const) .*>::read(_unaligned|_volatile)?$', m_ptr_read)

    def m_ptr_write(eng, args, ctx):
        p, v = args
        if isinstance(p, Ref):
            p.cell.set(eng, v)
        else:
            p.deref_cell(eng).set(eng, v)
        return UNIT
    m(r'^(std|core)::ptr::write(_unaligned|_volatile)?$', m_ptr_write)
    m(r'^(std|core)::ptr::mut_ptr::<impl \*mut .*>::write(_unaligned|_volatile)?$', m_ptr_write)

    def m_is_null(eng, args, ctx):
        return isinstance(args[0], NullPtr)
    m(r'^(std|core)::ptr::(mut_ptr|const_ptr)::<impl \*(mut|const) .*>::is_null$', m_is_null)
    m(r'^((std|core)::ptr::)?null(_mut)?$', lambda e, a, c: NullPtr())

    def m_from_raw_parts(eng, args, ctx):
        p, n = args
        if isinstance(p, SeqPtr):
            # bounds: [idx, idx+n) within the allocation (n == 0 allowed anywhere inside or one past)
            ok = eng.fork_bool(z3.And(z3.ULE(p.idx, p.seq.len), z3.ULE(n, p.seq.len - p.idx)))
            if not ok:
                raise PathEnd('oob', ('slice::from_raw_parts outside the allocation', str(p.idx), str(n)))
            eng.note_access(SeqPtr(p.seq, p.idx))
            acc = eng.path_state.get('slices')
            if acc is not None:
                acc.append((p.seq, p.idx, n))
            return SliceRef(p.seq, p.idx, n)
        if isinstance(p, SliceRef):
            return SliceRef(p.seq, p.start, n)
        frp = getattr(p, 'from_raw_parts', None)
        if frp is not None:
            return frp(eng, n)
        raise Unsupported('from_raw_parts on ' + type(p).__name__)
    m(r'^(std|core)::slice::from_raw_parts(_mut)?$', m_from_raw_parts)

    def m_slice_as_ptr(eng, args, ctx):
        s = as_slice(eng, args[0])
        return SeqPtr(s.seq, s.start)
    m(r'^core::slice::<impl \[.*\]>::as_(mut_)?ptr$', m_slice_as_ptr)

    def m_nonnull_as(eng, args, ctx):
        p = args[0]
        if isinstance(p, Ref) and ctx.norm.endswith(('as_ref', 'as_mut')):
            # &NonNull<T> -> &T : NonNull is modelled as the pointer itself
            inner = p.cell.get(eng)
            if isinstance(inner, (Ref, SeqPtr)) or hasattr(inner, 'deref_cell'):
                return inner if isinstance(inner, Ref) else Ref(inner.deref_cell(eng))
        return p
    m(r'^(std::ptr::|core::ptr::)?NonNull::(as_ref|as_mut)$', m_nonnull_as)
    m(r'^(std::ptr::|core::ptr::)?NonNull::(as_ptr|new_unchecked|cast)$', lambda e, a, c: a[0])
    m(r'^<(std::ptr::|core::ptr::)?NonNull as (std::convert::|core::convert::)?From>::from$', lambda e, a, c: a[0])

    def m_nonnull_eq(e, a, c):
        x, y = a[0], a[1]
        x = x.cell.get(e) if isinstance(x, Ref) else x
        y = y.cell.get(e) if isinstance(y, Ref) else y
        return m_ptr_eq(e, [x, y], c)
    m(r'^<(std::ptr::|core::ptr::)?NonNull as (std::cmp::|core::cmp::)?PartialEq>::eq$', m_nonnull_eq)

    # ---------------------------------------------------------------- atomics (single threaded: a cell)
    class AtomicV:
        __slots__ = ('cell',)
        rust_ty = 'Atomic'

        def __init__(self, v):
            self.cell = Cell(v)

        def copy_value(self, eng):
            return AtomicV(self.cell.get(eng))

        def __repr__(self):
            return f'atomic({self.cell.v!r})'
    eng.AtomicV = AtomicV

    def atom(eng, v):
        while isinstance(v, Ref):
            v = v.cell.get(eng)
        if type(v) is Lazy:
            v = v.force(eng)
        if not isinstance(v, AtomicV):
            raise Unsupported('expected an atomic, got ' + type(v).__name__)
        return v
    AT = r'^(std::sync::atomic::|core::sync::atomic::)?Atomic(Bool|Usize|U8|U16|U32|U64|Isize|I32|I64)?::'
    m(AT + r'new$', lambda e, a, c: AtomicV(a[0]))
    m(AT + r'load$', lambda e, a, c: atom(e, a[0]).cell.get(e))
    m(AT + r'(into_inner|get_mut)$', lambda e, a, c: atom(e, a[0]).cell.get(e))

    def m_atomic_store(e, a, c):
        atom(e, a[0]).cell.set(e, a[1])
        return UNIT
    m(AT + r'store$', m_atomic_store)

    def m_atomic_swap(e, a, c):
        at = atom(e, a[0])
        old = at.cell.get(e)
        at.cell.set(e, a[1])
        return old
    m(AT + r'swap$', m_atomic_swap)

    def m_try_into_array(eng, args, ctx):
        # <&[T] as TryInto<[T; N]>>::try_into
        s = args[0]
        dty = norm_ty(ctx.dest_ty)
        m_ = re.search(r'\[(\w+); (\d+)\]', dty)
        if not isinstance(s, SliceRef) or not m_:
            raise Unsupported('try_into ' + dty)
        n = int(m_.group(2))
        ln = eng.slice_len(s)
        ed = eng.P.enum_def('Result')
        if eng.fork_bool(ln == n):
            cells = [Cell(eng.copy_value(eng.seq_cell(s.seq, bvadd(s.start, bv(i, 64))).get(eng))) for i in range(n)]
            return EnumV(dty, 0, {'Ok': {0: Cell(ConcSeq(m_.group(1), cells))}}, None, ed)
        return EnumV(dty, 1, {'Err': {0: Cell(UNIT)}}, None, ed)
    m(r'^<&(mut )?\[.*\] as (std::convert::|core::convert::)?TryInto>::try_into$', m_try_into_array)

    # ---------------------------------------------------------------- integer helpers
    def int_ty_of(ctx):
        g = re.search(r'<impl ([iu]\d+|[iu]size)>', ctx.norm)
        return g.group(1) if g else None
    def m_checked(eng, args, ctx):
        ty = int_ty_of(ctx)
        op = ctx.norm.rsplit('::', 1)[1]
        mop = {'checked_add': 'AddWithOverflow', 'checked_sub': 'SubWithOverflow', 'checked_mul': 'MulWithOverflow'}[op]
        r = eng.binop(mop, args[0], args[1], ty)
        val, ovf = r.f[0].get(eng), r.f[1].get(eng)
        oty = norm_ty(ctx.dest_ty) if ctx.dest_ty else 'Option'
        if eng.fork_bool(ovf):
            return opt(eng, oty)
        return opt(eng, oty, val)
    m(r'^core::num::<impl [iu](\d+|size)>::checked_(add|sub|mul)$', m_checked)
    def m_wrapping(eng, args, ctx):
        op = ctx.norm.rsplit('::', 1)[1]
        return eng.binop({'wrapping_add': 'Add', 'wrapping_sub': 'Sub', 'wrapping_mul': 'Mul'}[op], args[0], args[1], int_ty_of(ctx))
    m(r'^core::num::<impl [iu](\d+|size)>::wrapping_(add|sub|mul)$', m_wrapping)
    def m_saturating(eng, args, ctx):
        ty = int_ty_of(ctx)
        op = ctx.norm.rsplit('::', 1)[1]
        w = INT_BITS[ty]
        sg = ty in SIGNED
        r = eng.binop('AddWithOverflow' if op == 'saturating_add' else 'SubWithOverflow', args[0], args[1], ty)
        val, ovf = r.f[0].get(eng), to_z3_bool(r.f[1].get(eng))
        if sg:
            raise Unsupported('signed saturating op')
        sat = bv((1 << w) - 1, w) if op == 'saturating_add' else bv(0, w)
        return z3.simplify(z3.If(ovf, sat, val))
    m(r'^core::num::<impl [iu](\d+|size)>::saturating_(add|sub)$', m_saturating)
    def m_pow2(eng, args, ctx):
        x = args[0]
        return as_bool(z3.simplify(z3.And(x != 0, (x & (x - 1)) == 0)))
    m(r'^core::num::<impl [iu](\d+|size)>::is_power_of_two$', m_pow2)
    def m_minmax(eng, args, ctx):
        ty = ctx.arg_tys[0] if ctx.arg_tys else None
        a, b = args
        if is_fp(a):
            raise Unsupported('float min/max')
        sg = ty in SIGNED if ty else False
        lt = (a < b) if sg else z3.ULT(a, b)
        if ctx.norm.endswith('min'):
            return z3.simplify(z3.If(lt, a, b))
        return z3.simplify(z3.If(lt, b, a))
    m(r'^(std::cmp::|core::cmp::)(min|max)$', m_minmax)
    m(r'^<[iu](\d+|size) as (std::cmp::|core::cmp::)?Ord>::(min|max)$', m_minmax)
    def m_to_bytes(eng, args, ctx):
        x = args[0]
        n = x.size() // 8
        return ConcSeq('u8', [Cell(z3.simplify(z3.Extract(8 * i + 7, 8 * i, x))) for i in range(n)])
    m(r'^core::num::<impl [iu](16|32|64|size)>::to_(ne|le)_bytes$', m_to_bytes)

    def m_from_ne_bytes(eng, args, ctx):
        arr = args[0]
        bs = [c.get(eng) for c in arr.cells]
        r = bs[0]
        for b in bs[1:]:
            r = z3.Concat(b, r)
        return z3.simplify(r)
    m(r'^core::num::<impl u(16|32|64)>::from_(ne|le)_bytes$', m_from_ne_bytes)
    # ---------------------------------------------------------------- f64
    m(r'^((std|core)::)?f64::<impl f64>::is_nan$', lambda e, a, c: as_bool(z3.simplify(z3.fpIsNaN(a[0]))))
    m(r'^((std|core)::)?f64::<impl f64>::is_infinite$', lambda e, a, c: as_bool(z3.simplify(z3.fpIsInf(a[0]))))
    m(r'^((std|core)::)?f64::<impl f64>::is_finite$', lambda e, a, c: as_bool(z3.simplify(z3.Not(z3.Or(z3.fpIsInf(a[0]), z3.fpIsNaN(a[0]))))))
    m(r'^((std|core)::)?f64::<impl f64>::to_bits$', lambda e, a, c: __import__('mirsym.engine', fromlist=['fp_to_bits']).fp_to_bits(a[0]))
    m(r'^((std|core)::)?f64::<impl f64>::from_bits$', lambda e, a, c: z3.fpBVToFP(a[0], F64))
    m(r'^((std|core)::)?f64::<impl f64>::abs$', lambda e, a, c: z3.fpAbs(a[0]))
    m(r'^((std|core)::)?f64::<impl f64>::trunc$', lambda e, a, c: z3.fpRoundToIntegral(z3.RTZ(), a[0]))
    m(r'^((std|core)::)?f64::<impl f64>::floor$', lambda e, a, c: z3.fpRoundToIntegral(z3.RTN(), a[0]))
    m(r'^((std|core)::)?f64::<impl f64>::ceil$', lambda e, a, c: z3.fpRoundToIntegral(z3.RTP(), a[0]))
    m(r'^((std|core)::)?f64::<impl f64>::round$', lambda e, a, c: z3.fpRoundToIntegral(z3.RNA(), a[0]))
    def m_fract(eng, args, ctx):
        # x - trunc(x) characterised instead of computed (the subtraction is exact, so these facts determine every comparison
        # of the result with 0 and 1; bit-blasting the subtraction costs minutes): NaN for NaN/inf, a zero of x's sign for
        # integral x, otherwise a non-zero value of x's sign with magnitude < 1 that is exactly x - trunc(x) when asked
        x = args[0]
        eng.fresh_n += 1
        f = z3.FP(f'fract!{eng.fresh_n}', F64)
        t = z3.fpRoundToIntegral(z3.RTZ(), x)
        special = z3.Or(z3.fpIsNaN(x), z3.fpIsInf(x))
        integral = z3.And(z3.Not(special), z3.fpEQ(t, x))
        eng.add_constraint(z3.Implies(special, z3.fpIsNaN(f)))
        eng.add_constraint(z3.Implies(integral, z3.And(z3.fpIsZero(f), z3.fpIsNegative(f) == z3.fpIsNegative(x))))
        eng.add_constraint(z3.Implies(z3.And(z3.Not(special), z3.Not(integral)),
                                      z3.And(z3.Not(z3.fpIsNaN(f)), z3.Not(z3.fpIsZero(f)), z3.fpLT(z3.fpAbs(f), z3.FPVal(1.0, F64)),
                                             z3.fpIsNegative(f) == z3.fpIsNegative(x))))
        return f
    m(r'^((std|core)::)?f64::<impl f64>::fract$', m_fract)
    def m_not(eng, args, ctx):
        a = args[0]
        while isinstance(a, Ref):
            a = a.cell.get(eng)
        if isinstance(a, bool) or z3.is_bool(a):
            return b_not(a)
        return z3.simplify(~a)
    m(r'^<&?(bool|[iu]\d+|[iu]size) as (std::ops::|core::ops::)?Not>::not$', m_not)

    # ---------------------------------------------------------------- misc
    m(r'^(std::hint::|core::hint::)black_box$', lambda e, a, c: a[0])
    m(r'^(std::hint::|core::hint::)assert_unchecked$', lambda e, a, c: UNIT)
    m(r'^(std::intrinsics::|core::intrinsics::)(likely|unlikely)$', lambda e, a, c: a[0])
    def m_unreachable_unchecked(eng, args, ctx):
        raise PathEnd('ub', 'unreachable_unchecked reached')
    m(r'^(std::hint::|core::hint::)unreachable_unchecked$', m_unreachable_unchecked)
    # str
    def m_str_len(eng, args, ctx):
        s = args[0]
        if isinstance(s, StrV):
            return bv(len(s.s.encode()), 64)
        if isinstance(s, SliceRef):
            return eng.slice_len(s)
        raise Unsupported('str::len of ' + type(s).__name__)
    m(r'^core::str::<impl str>::len$', m_str_len)
    def m_str_eq(eng, args, ctx):
        a, b = args
        while isinstance(a, Ref):
            a = a.cell.get(eng)
        while isinstance(b, Ref):
            b = b.cell.get(eng)
        if isinstance(a, StrV) and isinstance(b, StrV):
            r = a.s == b.s
            return r if ctx.norm.endswith('eq') else not r
        raise Unsupported('str eq on symbolic strings')
    m(r'^core::str::traits::<impl (std::cmp::|core::cmp::)?PartialEq for str>::(eq|ne)$', m_str_eq)
    m(r'^<str as (std::cmp::|core::cmp::)?PartialEq>::(eq|ne)$', m_str_eq)
    m(r'^<&(mut )?.* as (std::cmp::|core::cmp::)?PartialEq>::(eq|ne)$', lambda e, a, c: generic_ref_eq(e, a, c))
    m(r'^core::cmp::impls::<impl (std::cmp::|core::cmp::)?PartialEq<&B> for &A>::(eq|ne)$',
      lambda e, a, c: generic_ref_eq(e, a, c))
    def generic_ref_eq(eng, args, ctx):
        a, b = args[0].cell.get(eng), args[1].cell.get(eng)
        r = eng.value_eq(a, b, ctx.frame)
        return r if ctx.norm.endswith('eq') else b_not(r)
    def m_ref_ord(eng, args, ctx):
        a, b = args
        while isinstance(a, Ref):
            a = a.cell.get(eng)
        while isinstance(b, Ref):
            b = b.cell.get(eng)
        op = ctx.norm.rsplit('::', 1)[1]
        g = re.match(r'^<&(?:mut )?&?([iu]\d+|[iu]size|bool|char|f64) as', ctx.norm)
        if not g:
            raise Unsupported('ordering on references to ' + ctx.norm)
        return eng.binop({'lt': 'Lt', 'le': 'Le', 'gt': 'Gt', 'ge': 'Ge'}[op], a, b, g.group(1))
    m(r'^<&(mut )?.* as (std::cmp::|core::cmp::)?PartialOrd>::(lt|le|gt|ge)$', m_ref_ord)

    # scalar PartialEq / PartialOrd via trait syntax
    def m_scalar_cmp(eng, args, ctx):
        a, b = args
        if isinstance(a, Ref):
            a = a.cell.get(eng)
        if isinstance(b, Ref):
            b = b.cell.get(eng)
        op = ctx.norm.rsplit('::', 1)[1]
        g = re.search(r'for ([iu]\d+|[iu]size|bool|char|f64)', ctx.norm) or re.match(r'^<([iu]\d+|[iu]size|bool|char|f64) as', ctx.norm)
        ty = g.group(1) if g else None
        return eng.binop({'eq': 'Eq', 'ne': 'Ne', 'lt': 'Lt', 'le': 'Le', 'gt': 'Gt', 'ge': 'Ge'}[op], a, b, ty)
    m(r'^core::cmp::impls::<impl (std::cmp::|core::cmp::)?Partial(Eq|Ord) for ([iu]\d+|[iu]size|bool|char|f64)>::(eq|ne|lt|le|gt|ge)$', m_scalar_cmp)
    m(r'^<([iu]\d+|[iu]size|bool|char|f64) as (std::cmp::|core::cmp::)?Partial(Eq|Ord)>::(eq|ne|lt|le|gt|ge)$', m_scalar_cmp)

def value_eq(eng, a, b, fr=None):
    """structural equality that defers to the crate's own PartialEq impls for ADTs with MIR"""
    if isinstance(a, Ref) and isinstance(b, Ref):
        a, b = a.cell.get(eng), b.cell.get(eng)
    if type(a) is Lazy:
        a = a.force(eng)
    if type(b) is Lazy:
        b = b.force(eng)
    if isinstance(a, (bool, z3.ExprRef)) or isinstance(b, (bool, z3.ExprRef)):
        if is_fp(a):
            return as_bool(z3.simplify(z3.fpEQ(a, b)))
        return eng.binop('Eq', a, b, None)
    if isinstance(a, EnumV) and isinstance(b, EnumV):
        h = ty_head(a.ty)
        if h in ('Option', 'Result'):
            ta, tb = a.tag, b.tag
            if isinstance(ta, int) and isinstance(tb, int):
                if ta != tb:
                    return False
                vn = a.edef.variants[ta][0]
                if not a.edef.variants[ta][2]:
                    return True
                return value_eq(eng, eng.payload0(a, vn), eng.payload0(b, vn), fr)
            same = eng.fork_bool((ta if not isinstance(ta, int) else bv(ta, 64)) == (tb if not isinstance(tb, int) else bv(tb, 64)))
            if not same:
                return False
            # tags equal: fix which
            t = ta if isinstance(ta, int) else (tb if isinstance(tb, int) else eng.concretize(ta, list(range(len(a.edef.variants)))))
            vn = a.edef.variants[t][0]
            if not a.edef.variants[t][2]:
                return True
            return value_eq(eng, eng.payload0(a, vn), eng.payload0(b, vn), fr)
        c = eng.P._method_cands(a.ty, 'PartialEq', 'eq')
        if len(c) == 1:
            return eng.exec_fn(c[0][0], [Ref(Cell(a)), Ref(Cell(b))], (fr.depth + 1) if fr else 0, None)
        raise Unsupported('no PartialEq::eq MIR for ' + a.ty)
    if isinstance(a, Struct) and isinstance(b, Struct):
        if a.ty != '()':
            c = eng.P._method_cands(a.ty, 'PartialEq', 'eq')
            if len(c) == 1:
                return eng.exec_fn(c[0][0], [Ref(Cell(a)), Ref(Cell(b))], (fr.depth + 1) if fr else 0, None)
            raise Unsupported('no PartialEq::eq MIR for ' + a.ty)
        r = True
        for k in sorted(set(a.f) | set(b.f)):
            r = b_and(r, value_eq(eng, a.f[k].get(eng), b.f[k].get(eng), fr))
        return r
    ve = getattr(a, 'value_eq', None)
    if ve is not None:
        return ve(eng, b)
    pb = getattr(a, 'ptr_binop', None)
    if pb is not None:
        return pb(eng, 'Eq', a, b)
    raise Unsupported(f'value_eq on {type(a).__name__},{type(b).__name__}')
