"""Small reader of Rust item definitions (struct / enum / impl headers) from the source tree.
Needed because the MIR text names enum variants and struct fields only partly: aggregates use field
*names*, projections use field *indices*, `switchInt(discriminant(..))` uses variant indices, and
method definitions are named `<impl at file:line:col>` whose self type / trait must be read from the
source at that location.
"""
import os
import re
from .mir import split_top, find_top

class StructDef:
    def __init__(self, name, generics, fields, kind, file, line, cfg):
        self.name = name
        self.generics = generics      # [param names]
        self.fields = fields          # [(name|None, type)]
        self.kind = kind              # 'named' | 'tuple' | 'unit'
        self.file = file
        self.line = line
        self.cfg = cfg                # list of cfg predicate strings that must hold
        self.is_union = False
    def index_of(self, fname):
        for i, (n, _) in enumerate(self.fields):
            if n == fname:
                return i
        raise KeyError(fname)
    def __repr__(self):
        return f'<struct {self.name} {self.fields}>'

class EnumDef:
    def __init__(self, name, generics, variants, file, line, cfg):
        self.name = name
        self.generics = generics
        self.variants = variants      # [(vname, kind, fields[(name|None, ty)], discr|None)]
        self.file = file
        self.line = line
        self.cfg = cfg
        self.vindex = {v[0]: i for i, v in enumerate(variants)}
        # discriminant values
        self.discr = []
        cur = 0
        for v in variants:
            if v[3] is not None:
                cur = v[3]
            self.discr.append(cur)
            cur += 1
    def __repr__(self):
        return f'<enum {self.name} {[v[0] for v in self.variants]}>'

class ImplDef:
    def __init__(self, self_ty, trait, generics, file, line, cfg):
        self.self_ty = self_ty
        self.trait = trait
        self.generics = generics
        self.file = file
        self.line = line
        self.cfg = cfg
    def __repr__(self):
        return f'<impl {self.trait} for {self.self_ty} @{self.file}:{self.line}>'

def blank_comments_and_strings(src):
    """replace comments, string and char literals by spaces (newlines kept) so that brace matching works"""
    out = list(src)
    i = 0
    n = len(src)
    def blank(a, b):
        for k in range(a, b):
            if out[k] != '\n':
                out[k] = ' '
    while i < n:
        c = src[i]
        if c == '/' and i + 1 < n and src[i + 1] == '/':
            j = src.find('\n', i)
            j = n if j < 0 else j
            blank(i, j)
            i = j
        elif c == '/' and i + 1 < n and src[i + 1] == '*':
            depth = 1
            j = i + 2
            while j < n and depth:
                if src.startswith('/*', j):
                    depth += 1
                    j += 2
                elif src.startswith('*/', j):
                    depth -= 1
                    j += 2
                else:
                    j += 1
            blank(i, j)
            i = j
        elif c == '"':
            j = i + 1
            while j < n and src[j] != '"':
                j += 2 if src[j] == '\\' else 1
            blank(i + 1, j)
            i = j + 1
        elif c == 'r' and re.match(r'r#*"', src[i:i + 6]) and (i == 0 or not (src[i - 1].isalnum() or src[i - 1] == '_')):
            m = re.match(r'r(#*)"', src[i:])
            close = '"' + m.group(1)
            j = src.find(close, i + len(m.group(0)))
            j = n if j < 0 else j
            blank(i + len(m.group(0)), j)
            i = j + len(close)
        elif c == "'":
            # char literal or lifetime
            if i + 2 < n and src[i + 1] == '\\':
                j = src.find("'", i + 3)
                if 0 <= j - i <= 12:
                    blank(i + 1, j)
                    i = j + 1
                    continue
            if i + 2 < n and src[i + 2] == "'":
                blank(i + 1, i + 2)
                i = i + 3
                continue
            i += 1
        else:
            i += 1
    return ''.join(out)

def match_brace(s, i, open_='{', close='}'):
    """s[i] == open_; return index of matching close"""
    depth = 0
    n = len(s)
    while i < n:
        c = s[i]
        if c == open_:
            depth += 1
        elif c == close:
            depth -= 1
            if depth == 0:
                return i
        i += 1
    return n - 1

_ITEM = re.compile(r'\b(struct|enum|impl|mod|union)\b')
_ATTR = re.compile(r'#\s*\[')

def _attrs_before(s, pos, src=None):
    src = src or s
    """collect the text of attributes immediately preceding position pos (skipping visibility and whitespace)"""
    attrs = []
    i = pos
    while True:
        j = i
        while j > 0 and s[j - 1] in ' \t\n':
            j -= 1
        # visibility
        m = re.search(r'(pub(\s*\([^)]*\))?|unsafe|default)\s*$', s[:j])
        if m and (m.start() == 0 or not (s[m.start() - 1].isalnum() or s[m.start() - 1] == '_')):
            i = m.start()
            continue
        if j > 0 and s[j - 1] == ']':
            # walk back to the matching '['
            depth = 0
            k = j - 1
            while k >= 0:
                if s[k] == ']':
                    depth += 1
                elif s[k] == '[':
                    depth -= 1
                    if depth == 0:
                        break
                k -= 1
            h = k - 1
            while h >= 0 and s[h] in ' \t':
                h -= 1
            if h >= 0 and s[h] == '#':
                attrs.append((h, src[k + 1:j - 1]))
                i = h
                continue
        break
    return attrs

def _generic_names(g):
    if not g:
        return []
    out = []
    for p in split_top(g):
        p = p.strip()
        if p.startswith("'"):
            continue
        if p.startswith('const '):
            p = p[6:]
        out.append(re.split(r'[:=\s]', p, 1)[0])
    return out

def _parse_fields_named(body):
    fields = []
    for f in split_top(body):
        f = re.sub(r'#\s*\[[^\]]*\]', '', f).strip()
        f = re.sub(r'^pub(\s*\([^)]*\))?\s+', '', f)
        if not f:
            continue
        k = find_top(f, ':')
        if k < 0:
            continue
        fields.append((f[:k].strip(), ' '.join(f[k + 1:].split())))
    return fields

def _parse_fields_tuple(body):
    fields = []
    for f in split_top(body):
        f = re.sub(r'#\s*\[[^\]]*\]', '', f).strip()
        f = re.sub(r'^pub(\s*\([^)]*\))?\s+', '', f)
        if f:
            fields.append((None, ' '.join(f.split())))
    return fields

def _read_generics(s, i):
    """s[i:] may start with <...>; returns (text|None, next index)"""
    while i < len(s) and s[i] in ' \t\n':
        i += 1
    if i < len(s) and s[i] == '<':
        depth = 0
        j = i
        while j < len(s):
            if s[j] == '<':
                depth += 1
            elif s[j] == '>' and s[j - 1] != '-':
                depth -= 1
                if depth == 0:
                    return s[i + 1:j], j + 1
            j += 1
    return None, i

class Items:
    def __init__(self):
        self.structs = {}
        self.enums = {}
        self.impls = {}        # (file, line) -> [ImplDef]
        self.derives = {}      # (file, line) -> (type name, [traits])
        self.files = {}
    def add_tree(self, root, rel_prefix):
        for dp, dn, fn in os.walk(root):
            for f in fn:
                if f.endswith('.rs'):
                    p = os.path.join(dp, f)
                    rel = rel_prefix + p[len(root):]
                    self.add_file(p, rel)
    def add_file(self, path, rel):
        src = open(path).read()
        s = blank_comments_and_strings(src)
        self.files[rel] = src
        line_of = _LineIndex(s)
        # inline modules with cfg
        mods = []
        for m in _ITEM.finditer(s):
            kw = m.group(1)
            pos = m.start()
            # reject `impl` in type position and identifiers like `r#struct`
            prev = s[:pos].rstrip()
            if prev and prev[-1] in ':(,<&>=|+' or prev.endswith('->') or prev.endswith('dyn'):
                continue
            attrs = _attrs_before(s, pos, src)
            start = attrs[-1][0] if attrs else pos
            cfgs = [a[1].strip()[4:-1].strip() for a in attrs if a[1].strip().startswith('cfg(')]
            enclosing = [c for (a, b, c) in mods if a < pos < b]
            cfg = [x for e in enclosing for x in e] + cfgs
            i = m.end()
            if kw == 'mod':
                mm = re.match(r'\s+(\w+)\s*\{', s[i:])
                if mm:
                    a = i + mm.end() - 1
                    b = match_brace(s, a)
                    mods.append((a, b, cfgs))
                continue
            if kw in ('struct', 'enum', 'union'):
                mm = re.match(r'\s+(\w+)', s[i:])
                if not mm:
                    continue
                name = mm.group(1)
                i += mm.end()
                g, i = _read_generics(s, i)
                gens = _generic_names(g)
                # skip where clause
                j = i
                while j < len(s) and s[j] not in '{(;':
                    j += 1
                if j >= len(s):
                    continue
                derive_traits = []
                for a in attrs:
                    t = a[1].strip()
                    if t.startswith('derive('):
                        derive_traits += [x.strip() for x in t[7:-1].split(',') if x.strip()]
                        # each derive line is an impl location
                        ln0 = line_of(a[0])
                        ln1 = line_of(a[0] + len(a[1]) + 2)
                        for ln in range(ln0, ln1 + 1):
                            self.derives[(rel, ln)] = (name, gens, cfg)
                line = line_of(pos)
                if kw == 'enum':
                    if s[j] != '{':
                        continue
                    e = match_brace(s, j)
                    variants = []
                    for v in split_top(s[j + 1:e]):
                        v = re.sub(r'#\s*\[[^\]]*\]', '', v).strip()
                        if not v:
                            continue
                        mm = re.match(r'^(\w+)\s*(.*)$', v, re.S)
                        vname, rest = mm.group(1), mm.group(2).strip()
                        discr = None
                        if rest.startswith('('):
                            ce = match_brace(rest, 0, '(', ')')
                            fields = _parse_fields_tuple(rest[1:ce])
                            kind = 'tuple'
                            rest = rest[ce + 1:].strip()
                        elif rest.startswith('{'):
                            ce = match_brace(rest, 0)
                            fields = _parse_fields_named(rest[1:ce])
                            kind = 'struct'
                            rest = rest[ce + 1:].strip()
                        else:
                            fields = []
                            kind = 'unit'
                        if rest.startswith('='):
                            try:
                                discr = int(rest[1:].strip().replace('_', ''), 0)
                            except ValueError:
                                discr = None
                        variants.append((vname, kind, fields, discr))
                    self.enums.setdefault(name, []).append(EnumDef(name, gens, variants, rel, line, cfg))
                else:
                    if s[j] == '{':
                        e = match_brace(s, j)
                        d = StructDef(name, gens, _parse_fields_named(s[j + 1:e]), 'named', rel, line, cfg)
                    elif s[j] == '(':
                        e = match_brace(s, j, '(', ')')
                        d = StructDef(name, gens, _parse_fields_tuple(s[j + 1:e]), 'tuple', rel, line, cfg)
                    else:
                        d = StructDef(name, gens, [], 'unit', rel, line, cfg)
                    d.is_union = (kw == 'union')
                    self.structs.setdefault(name, []).append(d)
                continue
            if kw == 'impl':
                g, i2 = _read_generics(s, i)
                j = i2
                depth = 0
                while j < len(s):
                    if s[j] == '<':
                        depth += 1
                    elif s[j] == '>' and s[j - 1] != '-':
                        depth -= 1
                    elif s[j] == '{' and depth <= 0:
                        break
                    elif s[j] == ';' and depth <= 0:
                        break
                    j += 1
                if j >= len(s) or s[j] != '{':
                    continue
                hdr = ' '.join(s[i2:j].split())
                k = find_top(hdr, ' where ')
                if k >= 0:
                    hdr = hdr[:k]
                k = find_top(hdr, ' for ')
                if k >= 0:
                    trait, self_ty = hdr[:k].strip(), hdr[k + 5:].strip()
                else:
                    trait, self_ty = None, hdr.strip()
                if trait and trait.startswith('!'):
                    continue
                d = ImplDef(self_ty, trait, _generic_names(g), rel, line_of(pos), cfg)
                self.impls.setdefault((rel, line_of(pos)), []).append(d)

class _LineIndex:
    def __init__(self, s):
        self.starts = [0]
        for m in re.finditer('\n', s):
            self.starts.append(m.end())
    def __call__(self, pos):
        import bisect
        return bisect.bisect_right(self.starts, pos)

def cfg_holds(pred, features):
    """evaluate a cfg predicate string for the dump configuration (not test, debug_assertions per flag)"""
    pred = pred.strip()
    m = re.match(r'^(\w+)\s*\((.*)\)$', pred, re.S)
    if m and m.group(1) in ('not', 'any', 'all'):
        parts = [cfg_holds(p, features) for p in split_top(m.group(2))]
        if m.group(1) == 'not':
            return not parts[0]
        if m.group(1) == 'any':
            return any(parts)
        return all(parts)
    m = re.match(r'^feature\s*=\s*"?\s*([\w\-]*)\s*"?$', pred)
    if m:
        # the string literal has been blanked: recover from position is impossible, so callers pass
        # predicates extracted from the unblanked text (see Items.add_file)
        return m.group(1) in features
    if pred == 'test':
        return False
    if pred == 'debug_assertions':
        return 'debug_assertions' in features
    if pred.startswith('target_'):
        return 'wasm' not in pred
    return pred in features
