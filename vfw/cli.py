"""./check <ID> [--tier quick|thorough] [--only OBLIGATION] [--replay path] [-v]"""
import os
import sys
import json
import time
import random
import argparse
import importlib
import multiprocessing as mp

from . import core
from .core import REGISTRY, run_obligation, get_program, VERIF

EVIDENCE = os.environ.get('VERIF_EVIDENCE') or os.path.join(VERIF, 'evidence')
REPLAY = os.environ.get('VERIF_REPLAY') or os.path.join(VERIF, 'replay')
KNOWN = os.path.join(VERIF, 'known_findings.json')


def load_obligations():
    d = os.path.join(VERIF, 'obl')
    for n in sorted(os.listdir(d)):
        if n.endswith('.py') and not n.startswith('_'):
            importlib.import_module('obl.' + n[:-3])


def load_known():
    if not os.path.exists(KNOWN):
        return []
    return json.load(open(KNOWN)).get('entries', [])


def _worker(args):
    ob_id, prop, tier, seed = args
    ob = [o for o in REGISTRY[prop] if o.id == ob_id][0]
    return run_obligation(ob, tier, seed)


def main(argv=None):
    ap = argparse.ArgumentParser()
    ap.add_argument('prop')
    ap.add_argument('--tier', default=os.environ.get('VERIF_TIER', 'quick'))
    ap.add_argument('--only', default=None)
    ap.add_argument('--replay', default=None)
    ap.add_argument('-v', action='store_true')
    ap.add_argument('-j', type=int, default=int(os.environ.get('VERIF_JOBS', '14')))
    a = ap.parse_args(argv)
    prop = a.prop.upper()
    tier = a.tier if a.tier in ('quick', 'thorough') else 'quick'
    seed = int(os.environ.get('VERIF_SEED', '0') or 0)
    t0 = time.time()
    load_obligations()
    if a.replay:
        from . import replay
        return replay.replay_file(a.replay)
    obs = [o for o in REGISTRY.get(prop, []) if tier in o.tiers]
    if a.only:
        obs = [o for o in obs if a.only in o.id]
    if not obs:
        print(f'no obligations registered for {prop} in tier {tier}')
        return 2
    rnd = random.Random(seed)
    rnd.shuffle(obs)
    # load every program variant needed before forking (shared copy-on-write)
    needed = []
    for o in obs:
        for p in o.programs:
            if p not in needed:
                needed.append(p)
    t_load = time.time()
    for p in needed:
        get_program(p)
    t_load = time.time() - t_load
    jobs = [(o.id, prop, tier, seed) for o in obs]
    if len(jobs) == 1 or a.j <= 1:
        results = [_worker(j) for j in jobs]
    else:
        ctx = mp.get_context('fork')
        with ctx.Pool(min(a.j, len(jobs))) as pool:
            results = pool.map(_worker, jobs, chunksize=1)
    known = load_known()
    violations = []
    known_hit = []
    inconclusive = []
    for r in results:
        if r['status'] == 'inconclusive':
            inconclusive.append((r['id'], r['reason']))
        for f in r['findings']:
            k = [e for e in known if e.get('status') == 'known' and e['property'] == prop and e['key'] == f['key']]
            if k:
                known_hit.append((r['id'], f, k[0]))
            else:
                violations.append((r['id'], f))
    os.makedirs(EVIDENCE, exist_ok=True)
    os.makedirs(REPLAY, exist_ok=True)
    exit_code = 0
    for oid, f, k in known_hit:
        print(f'KNOWN-FINDING: property={prop} {f["key"]}: {k.get("what", f["what"])}')
    nrep = 0
    from . import replay
    for oid, f in violations:
        path = os.path.join(REPLAY, f'{prop}_{nrep}.json')
        nrep += 1
        rec = dict(property=prop, obligation=oid, finding=f, tier=tier, tree=core.tree_hash())
        verdict = replay.try_replay(rec)
        rec['native_replay'] = verdict
        json.dump(rec, open(path, 'w'), indent=1, default=str)
        if verdict.get('status') == 'not_reproduced':
            print(f'INCONCLUSIVE property={prop} obligation={oid} counterexample did not reproduce natively: {f["key"]}')
            inconclusive.append((oid, 'counterexample did not reproduce: ' + f['key']))
            continue
        print(f'VIOLATION property={prop} replay={path}')
        print(f'  obligation={oid} key={f["key"]} :: {f["what"]}')
        if a.v:
            print(json.dumps(f['detail'], indent=1, default=str)[:3000])
        exit_code = 1
    for oid, why in inconclusive:
        print(f'INCONCLUSIVE obligation={oid}: {str(why)[:500]}')
    if exit_code == 0 and inconclusive:
        exit_code = 2
    write_evidence(prop, tier, seed, obs, results, violations, known_hit, inconclusive, time.time() - t0, t_load, needed)
    if a.v or exit_code != 0:
        for r in results:
            print(f'  {r["id"]}: {r["status"]} paths={r["paths"]} checks={r["checks"]} queries={r["queries"]} '
                  f'solver={r["solver_s"]}s wall={r["wall_s"]}s')
    print(f'{prop} {tier}: {len(obs)} obligations, {sum(1 for r in results if r["status"] == "pass")} pass, '
          f'{len(known_hit)} known findings, {len(violations)} new violations, {len(inconclusive)} inconclusive, '
          f'{round(time.time() - t0, 1)}s')
    return exit_code


def write_evidence(prop, tier, seed, obs, results, violations, known_hit, inconclusive, wall, t_load, programs):
    rnd = random.Random(seed)
    samples = []
    for r in results:
        for s in r['samples']:
            samples.append({'obligation': r['id'], 'case': s})
    rnd.shuffle(samples)
    queries = sum(r['queries'] for r in results)
    paths = sum(r['paths'] for r in results)
    nontriv = sum(r['nontrivial'] for r in results)
    checks = sum(r['checks'] for r in results)
    discharged = sum(1 for r in results if r['status'] == 'pass')
    progs = {}
    for p in programs:
        P = get_program(p)
        progs[p] = {c: os.path.basename(f) for c, f in P.mir_files.items()}
    ev = {
        'property_id': prop,
        'tier': tier,
        'seed': seed,
        'level': 'model_checking',
        'coverage': {
            'evaluations': max(queries + checks, 1),
            'distinct_nontrivial': nontriv,
            'rule': 'each case is one solver-feasible path of the real MIR (symbolic inputs) on which at least one '
                    'post-condition was decided by Z3 over all values satisfying the path condition; paths are '
                    'distinct by their branch decisions; "evaluations" = solver queries + decided assertions',
            'samples': samples[:6] or [{'note': 'no samples'}],
            'obligations': len(results),
            'discharged': discharged,
            'inconclusive': [i[0] for i in inconclusive],
            'paths': paths,
            'assertions_decided': checks,
            'solver_queries': queries,
            'solver_time_s': round(sum(r['solver_s'] for r in results), 2),
            'per_obligation': [{k: r[k] for k in ('id', 'status', 'paths', 'nontrivial', 'checks', 'queries', 'solver_s', 'wall_s',
                                                  'bounds', 'outside', 'assumptions', 'reason')} for r in results],
            'functions_encoded': sorted({f for r in results for f in r['functions']})[:400],
            'functions_havoced': sorted({f for r in results for f in r['havoced']})[:200],
            'library_models_used': sorted({f for r in results for f in r['models']})[:200],
            'known_findings_matched': [f['key'] for _, f, _ in known_hit],
            'new_violations': [f['key'] for _, f in violations],
            'mir_dumps': progs,
            'mir_flags': '-Zunpretty=mir -C overflow-checks=on, debug-assertions per program variant (-dbg = on)',
            'tree_hash': core.tree_hash(),
            'solver': 'z3 ' + __import__('z3').get_version_string() + ' (python API, incremental)',
            'exhaustive': False,
            'explanation': 'bounded symbolic execution of rustc MIR (mirsym) + Z3; see DESIGN.md',
        },
        'assumptions': sorted({a for r in results for a in r['assumptions']}),
        'wall_s': round(wall, 2),
        'violations': len(violations),
    }
    with open(os.path.join(EVIDENCE, prop + '.json'), 'w') as fh:
        json.dump(ev, fh, indent=1, default=str)


if __name__ == '__main__':
    sys.exit(main())
