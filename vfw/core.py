"""Obligation registry, result records and program cache of the /verif framework."""
import os
import sys
import time
import json
import traceback

VERIF = os.path.dirname(os.path.dirname(os.path.abspath(__file__)))
sys.path.insert(0, VERIF)

from mirsym.program import Program, tree_hash  # noqa: E402
from mirsym.engine import Engine  # noqa: E402
from mirsym.values import Unsupported, PathEnd  # noqa: E402

PROGRAMS = {
    # name -> (crates, features, debug_assertions)
    'vm': (['laythe_core', 'laythe_lib', 'laythe_vm'], (), False),
    'vm-dbg': (['laythe_core', 'laythe_lib', 'laythe_vm'], (), True),
    'vm-nan': (['laythe_core', 'laythe_lib', 'laythe_vm'], ('nan_boxing',), False),
    'core': (['laythe_core'], (), False),
    'core-nan': (['laythe_core'], ('nan_boxing',), False),
}
_loaded = {}


def get_program(name):
    p = _loaded.get(name)
    if p is None:
        crates, feats, dbg = PROGRAMS[name]
        p = Program(crates, feats, dbg)
        p.cfg_name = name
        _loaded[name] = p
    return p


class Finding:
    def __init__(self, key, what, detail=None, replay=None):
        self.key = key          # role-based identification (stable across runs)
        self.what = what        # one line, human readable
        self.detail = detail    # solver model / path description
        self.replay = replay    # dict describing a native replay (see vfw/replay.py) or None

    def to_json(self):
        return dict(key=self.key, what=self.what, detail=self.detail, replay=self.replay)


class ObResult:
    def __init__(self, oid):
        self.id = oid
        self.status = 'pass'       # pass | fail | inconclusive
        self.findings = []
        self.reason = None         # for inconclusive
        self.paths = 0
        self.nontrivial = 0        # paths/cases with a non-empty discharged obligation
        self.checks = 0            # individual solver-decided assertions
        self.queries = 0
        self.solver_s = 0.0
        self.wall_s = 0.0
        self.samples = []
        self.functions = set()
        self.havoced = set()
        self.models = set()
        self.bounds = {}
        self.outside = []
        self.assumptions = []
        self.notes = []

    def fail(self, key, what, detail=None, replay=None):
        self.status = 'fail'
        if not any(f.key == key for f in self.findings):
            self.findings.append(Finding(key, what, detail, replay))

    def inconclusive(self, reason):
        if self.status != 'fail':
            self.status = 'inconclusive'
        self.reason = (self.reason + '; ' if self.reason else '') + reason

    def absorb(self, eng):
        self.queries += eng.stats['queries']
        self.solver_s += eng.stats['solver_s']
        self.functions |= {k.split('::', 1)[1] if '::' in k else k for k in eng.functions_executed}
        self.havoced |= set(eng.functions_havoced)
        self.models |= set(eng.models_used)

    def to_json(self):
        return dict(id=self.id, status=self.status, reason=self.reason,
                    findings=[f.to_json() for f in self.findings], paths=self.paths,
                    nontrivial=self.nontrivial, checks=self.checks, queries=self.queries,
                    solver_s=round(self.solver_s, 3), wall_s=round(self.wall_s, 3), samples=self.samples[:4],
                    functions=sorted(self.functions)[:200], havoced=sorted(self.havoced)[:100],
                    models=sorted(self.models)[:100], bounds=self.bounds, outside=self.outside,
                    assumptions=self.assumptions, notes=self.notes[:20])


class Obligation:
    def __init__(self, oid, prop, fn, tiers, programs, doc):
        self.id = oid
        self.prop = prop
        self.fn = fn
        self.tiers = tiers
        self.programs = programs
        self.doc = doc


REGISTRY = {}


def obligation(oid, prop=None, tiers=('quick', 'thorough'), programs=('vm',), also=()):
    """also: further properties whose check runs this obligation too (one kernel can carry clauses of several properties)"""
    prop = prop or oid.split('.')[0]

    def deco(fn):
        for p in (prop,) + tuple(also):
            REGISTRY.setdefault(p, []).append(Obligation(oid, p, fn, tiers, programs, (fn.__doc__ or '').strip()))
        return fn
    return deco


def run_obligation(ob, tier, seed):
    """executed in a worker process; returns ObResult.to_json()"""
    res = ObResult(ob.id)
    t0 = time.time()
    try:
        ob.fn(res, tier)
    except Unsupported as e:
        res.inconclusive('unsupported: ' + str(e))
    except PathEnd as e:
        res.inconclusive(f'unhandled path end {e.kind}: {e.info}')
    except Exception as e:  # machinery bug: never a pass, never a violation
        res.inconclusive('exception: ' + repr(e) + ' ' + traceback.format_exc()[-1500:])
    if res.status == 'pass' and res.nontrivial == 0:
        res.inconclusive('vacuous: no path reached a decided assertion')
    res.wall_s = time.time() - t0
    return res.to_json()


def summarize_paths(res, eng, results, sample_fn=None, ok_kinds=('ok',), panic_is_violation=True,
                    unwind_ok=True, key_prefix=''):
    """common bookkeeping over engine PathResults: failed checks -> findings; unsupported -> inconclusive"""
    res.absorb(eng)
    for r in results:
        res.paths += 1
        if r.kind == 'unsupported':
            res.inconclusive('unsupported: ' + str(r.info)[:300])
        elif r.kind == 'budget':
            res.inconclusive('budget exceeded: ' + str(r.info))
        elif r.kind == 'unwind':
            if unwind_ok:
                s = f'loop bound reached at {r.info}'
                if s not in res.outside:
                    res.outside.append(s)
            else:
                res.inconclusive('unwind ' + str(r.info))
        elif r.kind == 'infeasible':
            pass
        nontriv = False
        for label, ok, info in r.checks:
            res.checks += 1
            nontriv = True
            if not ok:
                res.fail(key_prefix + label, f'{label} fails', info)
        if nontriv:
            res.nontrivial += 1
        if sample_fn is not None and len(res.samples) < 4:
            s = sample_fn(r)
            if s is not None:
                res.samples.append(s)
