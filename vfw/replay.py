"""Native replay of counterexamples.  A finding may carry `replay`:
   {'kind': 'lay', 'source': <program text>, 'expect_stdout': ..., 'bad_stdout_re': ..., 'bad_exit': [...]} — run through the
   real `laythe` binary built from /repo (debug profile); with 'valgrind': True under memcheck (an invalid access reproduces the finding); with 'gc_stress': True on the
   repository's collect-at-every-allocation build (feature gc_stress; death by signal reproduces the finding);
   {'kind': 'none'} — kernel-level counterexample without a native route (reported with its model)."""
import os
import re
import json
import subprocess
import tempfile

REPO = os.environ.get('VERIF_REPO', '/repo')
CACHE = os.environ.get('VERIF_CACHE', '/verif/.cache')


def build_laythe(profile='debug', stress=False):
    env = dict(os.environ)
    env['CARGO_NET_OFFLINE'] = 'true'
    env['CARGO_TARGET_DIR'] = os.path.join(CACHE, 'target-stress' if stress else 'target-native')
    cmd = ['cargo', 'build', '--offline', '-p', 'laythe']
    if stress:
        # the repository's own collect-at-every-allocation build
        cmd += ['--features', 'laythe_vm/gc_stress']
    if profile == 'release':
        cmd.append('--release')
    r = subprocess.run(cmd, cwd=REPO, env=env, stdout=subprocess.PIPE, stderr=subprocess.STDOUT)
    if r.returncode != 0:
        return None
    return os.path.join(env['CARGO_TARGET_DIR'], profile, 'laythe')


def run_lay(source, files=None, timeout=20, profile='debug', stdin=None, valgrind=False, stress=False):
    exe = build_laythe(profile, stress)
    if stress:
        timeout = max(timeout, 120)
    if exe is None:
        return None
    with tempfile.TemporaryDirectory(prefix='vreplay', dir=CACHE) as d:
        for name, text in (files or {}).items():
            p = os.path.join(d, name)
            os.makedirs(os.path.dirname(p), exist_ok=True)
            open(p, 'w').write(text)
        main = os.path.join(d, 'main.lay')
        open(main, 'w').write(source)
        try:
            cmd = [exe, main]
            if valgrind:
                # memory errors of the real binary: exit status 97 when memcheck saw an invalid access
                cmd = ['valgrind', '-q', '--error-exitcode=97'] + cmd
                timeout = max(timeout, 300)
            r = subprocess.run(cmd, cwd=d, stdout=subprocess.PIPE, stderr=subprocess.PIPE, timeout=timeout,
                               input=stdin)
            return dict(exit=r.returncode, stdout=r.stdout.decode(errors='replace'), stderr=r.stderr.decode(errors='replace'))
        except subprocess.TimeoutExpired:
            return dict(exit=None, stdout='', stderr='timeout')


def try_replay(rec):
    rp = rec['finding'].get('replay')
    if not rp or rp.get('kind') == 'none':
        return dict(status='no_native_route')
    first = _try_one(rp)
    if first.get('status') == 'reproduced':
        return first
    # further demonstrations of the same finding (a counterexample class may need a different program to show natively)
    for alt in rp.get('alternatives', []):
        v = _try_one(alt)
        if v.get('status') == 'reproduced':
            return v
    return first


def _try_one(rp):
    if rp['kind'] == 'lay':
        out = run_lay(rp['source'], rp.get('files'), valgrind=bool(rp.get('valgrind')), stress=bool(rp.get('gc_stress')))
        if out is None:
            return dict(status='build_failed')
        bad = False
        if rp.get('valgrind') and out['exit'] == 97:
            bad = True
        if rp.get('gc_stress') and out['exit'] is not None and out['exit'] < 0:
            bad = True          # killed by a signal (segmentation fault) under the collect-at-every-allocation build
        if 'expect_stdout' in rp and out['stdout'].strip() != rp['expect_stdout'].strip():
            bad = True
        if 'bad_re' in rp and re.search(rp['bad_re'], out['stdout'] + out['stderr']):
            bad = True
        if 'bad_exit' in rp and out['exit'] in rp['bad_exit']:
            bad = True
        return dict(status='reproduced' if bad else 'not_reproduced', run=out)
    if rp['kind'] == 'repl':
        # lines typed at the interactive prompt (laythe without a script argument)
        exe = build_laythe('debug')
        if exe is None:
            return dict(status='build_failed')
        with tempfile.TemporaryDirectory(prefix='vreplay', dir=CACHE) as d:
            for name, text in (rp.get('files') or {}).items():
                pth = os.path.join(d, name)
                os.makedirs(os.path.dirname(pth), exist_ok=True)
                open(pth, 'w').write(text)
            try:
                r = subprocess.run([exe], cwd=d, input=rp['stdin'].encode(), stdout=subprocess.PIPE, stderr=subprocess.PIPE, timeout=20)
                out = dict(exit=r.returncode, stdout=r.stdout.decode(errors='replace'), stderr=r.stderr.decode(errors='replace'))
            except subprocess.TimeoutExpired:
                out = dict(exit=None, stdout='', stderr='timeout')
        text = re.sub(r'laythe:> ?', '', out['stdout'])
        bad = False
        if 'expect_stdout_re' in rp and not re.search(rp['expect_stdout_re'], text):
            bad = True
        if 'bad_re' in rp and re.search(rp['bad_re'], text + out['stderr']):
            bad = True
        if 'bad_exit' in rp and out['exit'] in rp['bad_exit']:
            bad = True
        return dict(status='reproduced' if bad else 'not_reproduced', run=out)
    return dict(status='no_native_route')


def replay_file(path):
    rec = json.load(open(path))
    v = try_replay(rec)
    print(json.dumps(v, indent=1)[:4000])
    return 0 if v.get('status') != 'reproduced' else 1
