#!/bin/bash
# Builds nothing but the MIR dumps (cached by tree hash) and checks the tooling is present. Offline.
cd "$(dirname "$0")"
export CARGO_NET_OFFLINE=true
mkdir -p .cache evidence replay
python3-vt - <<'PY'
import sys
sys.path.insert(0, '.')
import z3
from vfw.core import get_program
for name in ('vm', 'vm-dbg', 'vm-nan', 'core', 'core-nan'):
    p = get_program(name)
    print(name, len(p.fns), 'MIR functions')
for name in ('core', 'core-nan'):
    print(name, 'Value layout', get_program(name).layout('Value'))
PY
