#!/bin/bash
# run_all_seeds.sh : apply every seed in /verif/seeded to a scratch worktree and run the checks that should catch it.
# Output: /verif/seeded/RESULTS.tsv  (seed, property, exit, violations, first violated key)
WT=/tmp/seedtest
OUT=/verif/seeded/RESULTS.tsv
declare -A EXTRA=( [C01_1]="C12" [C02_2]="C12" [C03_1]="C13" [C16_1]="C13" [C10_1]="C14" [C04_1]="C06" [C05_2]="C09" [C09_2]="C05" [C19_1]="C02" [C20_1]="C11"
 [C02_1]="" [F18_undefined_eq]="C02" [F19_assign_binary_slot]="C03" [F20]="C17 C18" [F11]="C19" [F16_send_effect]="C06" [F17_launch_sync]="C06" [F4_handler_depth]="C04"
 [F5_nested_try_exits]="C04" [F6_linear_simulation]="C06" [F1]="C20" [F2]="C20" [F3]="C11" [F10]="C17" [F12]="C15" [F13]="C15" [F14]="C16" [F15]="C11" [F21]="C16" [C18_2]="C05" [C05_3]="" )
: > $OUT
for d in /verif/seeded/*/; do
  ID=$(basename $d)
  [ -f $d/patch.diff ] || continue
  P=${ID%%_*}
  PROPS="${EXTRA[$ID]}"
  case $ID in F*) ;; *) PROPS="$P $PROPS";; esac
  cd $WT && git checkout -q -f --detach main && { git apply $d/patch.diff 2>/dev/null || git apply --3way $d/patch.diff 2>/dev/null; } || { echo -e "$ID\t-\tpatch-failed" >> $OUT; git checkout -q -f --detach main; continue; }
  cd /verif
  for Q in $PROPS; do
    VERIF_REPO=$WT VERIF_CACHE=/tmp/seedcache VERIF_EVIDENCE=/tmp/seedev VERIF_REPLAY=/tmp/seedreplay ./check $Q --tier quick > /tmp/seedrun_${ID}_$Q.log 2>&1
    RC=$?
    NV=$(grep -c '^VIOLATION' /tmp/seedrun_${ID}_$Q.log)
    KEY=$(grep -A1 '^VIOLATION' /tmp/seedrun_${ID}_$Q.log | grep 'obligation=' | head -1 | sed 's/^ *//' | sed 's/ key=.*//' | cut -c1-120)
    echo -e "$ID\t$Q\t$RC\t$NV\t$KEY" >> $OUT
  done
done
cd $WT && git checkout -q -f --detach main
echo DONE >> $OUT
