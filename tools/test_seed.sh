#!/bin/bash
# test_seed.sh <seed-id> <PROP> [<PROP>...] : run checks against a scratch worktree with the seeded patch applied
ID=$1; shift
WT=/tmp/seedtest
cd $WT && git reset -q --hard && git checkout -q --detach main && { git apply /verif/seeded/$ID/patch.diff 2>/dev/null || git apply --3way /verif/seeded/$ID/patch.diff 2>/dev/null; } || { echo "$ID: patch failed"; git checkout -q -- .; exit 3; }
cd /verif
for P in "$@"; do
  VERIF_REPO=$WT VERIF_CACHE=/tmp/seedcache VERIF_EVIDENCE=/tmp/seedev VERIF_REPLAY=/tmp/seedreplay ./check $P --tier ${TIER:-quick} > /tmp/seedtest_${ID}_$P.log 2>&1
  echo "$ID $P exit=$? $(grep -c '^VIOLATION' /tmp/seedtest_${ID}_$P.log) violations :: $(grep -A1 '^VIOLATION' /tmp/seedtest_${ID}_$P.log | grep obligation | head -2 | tr '\n' ' ' | cut -c1-220)"
done
cd $WT && git reset -q --hard
