#!/bin/bash
# confirm_seed2.sh <worktree> <outdir> <seed-id> <demo-cmd-with-{BIN}> : for seeds whose demo is a script (directory demos, REPL sessions)
WT=$1; OUT=$2; ID=$3; CMD=$4
DEST=/verif/seeded/$ID; mkdir -p $DEST; LOG=$DEST/confirm.log; : > $LOG
export CARGO_NET_OFFLINE=true
cp $OUT/patch.diff $DEST/; cp $OUT/notes.md $DEST/ 2>/dev/null; cp -r $OUT/demo $DEST/ 2>/dev/null; for f in demo.lay expected.txt demo.diff run_demo.sh check.sh; do [ -f $OUT/$f ] && cp $OUT/$f $DEST/; done
cd $WT && git checkout -q -- .
cargo build --offline -q -p laythe 2>/dev/null
(cd $OUT && eval "${CMD//\{BIN\}/$WT/target/debug/laythe}" > $DEST/out_clean.txt 2>&1; echo "clean demo exit=$?" >> $LOG)
git apply $OUT/patch.diff || { echo "PATCH DOES NOT APPLY" >> $LOG; exit 1; }
cargo test --workspace --no-fail-fast --offline > /tmp/tests_$ID.txt 2>&1
grep -E "^test .* FAILED" /tmp/tests_$ID.txt | sort -u >> $LOG
grep -cE "^test .* ok$" /tmp/tests_$ID.txt >> $LOG
cargo build --offline -q -p laythe 2>/dev/null
(cd $OUT && eval "${CMD//\{BIN\}/$WT/target/debug/laythe}" > $DEST/out_patched.txt 2>&1; echo "patched demo exit=$?" >> $LOG)
git checkout -q -- .
echo done >> $LOG
