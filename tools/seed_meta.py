#!/usr/bin/env python3
"""seed_meta.py <seed-id> <property> <needs> <caught_by|-> : writes /verif/seeded/<id>/meta.json from the confirm log"""
import json, os, sys
sid, prop, needs, caught = sys.argv[1:5]
d = f'/verif/seeded/{sid}'
log = open(os.path.join(d, 'confirm.log')).read() if os.path.exists(os.path.join(d, 'confirm.log')) else ''
meta = {
    'seed': sid, 'breaks_property': prop, 'needs_to_manifest': needs,
    'confirmed': {
        'tests_with_change': 'cargo test --workspace --no-fail-fast --offline: only the 5 known-bad tests fail' if 'cos::call' in log or not log else 'see confirm.log',
        'demo': 'demo fails with the change and passes without it' if 'outputs differ' in log and 'clean == expected' in log else 'see confirm.log / notes.md',
        'how': 'tools/confirm_seed.sh in a scratch worktree of /repo (removed afterwards)',
    },
    'checks_run': f'tools/test_seed.sh {sid} <PROP> (scratch worktree with the patch applied, VERIF_REPO pointed at it)',
    'caught_by': None if caught == '-' else caught,
}
json.dump(meta, open(os.path.join(d, 'meta.json'), 'w'), indent=1)
print('wrote', d)
