#!/usr/bin/env python3
"""Generates /verif/MANIFEST.json from the table below (kept in one place so it stays consistent)."""
import json
import os

VERIF = os.path.dirname(os.path.dirname(os.path.abspath(__file__)))

TECH = 'bounded symbolic execution of rustc MIR (mirsym) + Z3'

CLAIMED = {
    'C12': dict(
        text='Decides, with Z3 over the real MIR of peephole_optimize and its helpers, one rewrite step from an arbitrary '
             'cursor over an arbitrary program of arbitrary length (C12.K1): no panic, cursors consistent, emitted window '
             'equivalent to the consumed window under the abstract byte-code semantics, no label swallowed, lines attached. '
             'By induction over iterations this covers every instruction sequence; run lengths inside one step are bounded '
             '(K=4 quick, K=8 thorough). The composition into whole programs is argued in DESIGN.md, not machine checked.',
        note='Trusted: rustc MIR printer, mirsym, library models (Vec/slice/Option), reference semantics obl/bcsem.py, Z3. '
             'Assumes A1 (Call directly after PropertySlot/GetSuper has 0 args).',
        ref='§4 C12'),
}

CLAIMED['C01'] = dict(
    text='Decides with Z3 over the real MIR of the interpreter ops (C01.K1/K2): for every pair of operand values (all 2^64 number '
         'bit patterns, bool, nil, every object kind) each arithmetic / comparison / equality / logic op produces the IEEE or '
         'string result of left-op-right or ends in the documented RuntimeError, and each jump op moves ip and the stack exactly '
         'as the source rule prescribes for every 16-bit distance. C01.C2 the real Compiler::assign / assign_binary / send with opaque operand '
         'expressions and every left-hand-side shape (<= 2 trailers): each operand expression is lowered exactly once (known finding F55: '
         '`a[i] op= v` lowers i twice, so a side-effecting index runs twice). Front-end fidelity (text to AST) and the composition into '
         'program output are outside the claim.',
    note='Trusted: rustc MIR printer, mirsym, abstract object identities (vmabs.py), Z3 FP theory. Fiber stack primitives, '
         'Value methods, is_falsey are executed from MIR, not modelled.',
    ref='§4 C01')

CLAIMED['C06'] = dict(
    text='Decides with Z3 over the real MIR (C06.K1): for each of the 79 symbolic instructions with arbitrary operands, encoded by '
         'ByteCodeEncoder::encode at an arbitrary offset and then executed by one step of Vm::execute on those very bytes: '
         'len() == bytes written == bytes consumed, stack_effect() == net stack depth change on every non-error path, jump ops '
         'land exactly on the label offset or the distance overflow is diagnosed, PushHandler registers the label offset and the '
         'slot depth operand, retried ops restore ip and depth, the line table gets one entry per byte; C06.C1 the real lowering '
         'functions ternary / if_ / while_ / binary / unary / call / index / list / tuple / map / interpolation / channel / raise are executed with opaque sub-constructs (induction hypothesis: an '
         'expression pushes one value, a block nets its locals): the depth is the same on every path into every join, the '
         'construct has its declared net effect, and the repository\'s own apply_stack_effects, run from MIR on the skeleton, '
         'computes the real depth at every reachable instruction; C06.K2 Fiber::ensure_stack / push_frame / pop_frame from any fiber '
         'with 1..3 frames: room for the callee\'s max_slots is reserved above the stack top, and when the buffer moves the stack '
         'top and the first slot of EVERY frame are rebased into the new buffer at their old offsets (the moved buffer has a new '
         'identity, so a stale pointer is reported), the callee frame starts argc + 1 below the top and pop_frame drops exactly '
         'from there; Fiber::new / Fiber::split (launch) for ANY max_slots establish the filled buffer, slot 0, stack top and single '
         'frame those steps start from and never panic (found and fixed F29: more than 254 slots sliced a static array out of range). Remaining lowering functions (for / try / launch / class / fun) are not yet machine checked.',
    note='Trusted: rustc MIR printer, mirsym, abstract object identities and call summary at resolve_call (vmabs.py), Z3. '
         'Fiber stack primitives and all ops are executed from MIR.',
    ref='§4 C06')

CLAIMED['C04'] = dict(
    text='Decides with Z3 over the real MIR: C04.K1 the slot depth the optimiser writes into PushHandler equals the run-time depth '
         '(callee slot + parameters + net effect of preceding instructions; entry value plus one inductive step over an arbitrary '
         'program); C04.K2 Fiber::stack_unwind from an arbitrary fiber picks the innermost handler, leaves every handler at or below the native '
         'boundary to the calling code (the boundary is the caller\'s frame count: decided on the real run_fun by C18.K2; found and '
         'fixed F35, the handler of the frame that invoked a stack-less native ran inside the nested execution), '
         'restores frame, stack top = frame start + slot depth and ip = chunk start + offset; C04.K3 op_check_handler / op_raise / '
         'op_pop_handler / op_continue_unwind / op_get_error / op_push_handler behave as the source rules prescribe for every '
         'operand; C04.C1 the real lowering functions break_ / continue_ / return_ / emit_return / try_ / loop_scope / child are '
         'executed with opaque sub-constructs and a ghost list of open try blocks (<= 3): every exit pops exactly the handlers of '
         'the try blocks it leaves, nested code sees the right try/loop attributes, nested functions start with none, and every '
         'path through the emitted try skeleton registers and deactivates its handler exactly once; C04.K4 every native and every '
         'Enumerate::next of laythe_lib that calls back into the program (24 units: call / each / reduce / sort / collect / the '
         'adaptor iterators ...) runs from MIR with callbacks summarised by "returns any value or raises": on every path on which a '
         'callback raised the native ends in Call::Err (found and fixed F32: List.sort dropped its comparator\'s error) and an error '
         'object the native built from its error class is raised, not returned (F43: list / tuple / map str); C04.K5 Vm::runtime_error '
         'leaves every live stack slot of the raising frame unchanged (F36: the top local was overwritten by the error object); C04.K6 a '
         'raise on a fiber that is evaluating the clauses of a handler discards that handler (F44: catch e: NotYetDefined hung); '
         'C04.K1.handler_label_depth the real apply_stack_effects on try skeletons whose body ends in return / raise / jump with values '
         'live: a catch label starts at the depth its PushHandler recorded (F41).',
    note='Trusted: rustc MIR printer, mirsym, abstract object identities (vmabs.py), uninterpreted is_subclass/class_of, Z3. '
         'Known design-level findings F5/F6 live in the lowering, outside these kernels.',
    ref='§4 C04')

CLAIMED['C02'] = dict(
    text='Decides with Z3 over the real MIR of the box / capture / closure ops (C02.K1) on an arbitrary stack, frame and box heap '
         '(aliasing between symbolic box references decided by the solver): a captured variable is one heap cell addressed by the '
         'box identity; op_box/op_empty_box create a fresh cell, op_fill_box/op_set_box/op_set_capture write exactly that cell, '
         'op_get_box/op_get_capture read it, op_closure copies box identities (not values) in operand order for up to 3 captures. '
         'C02.K2 the real Compiler::resolve_capture / add_capture over a chain of three compilers with arbitrary existing captures and '
         'arbitrary name-lookup answers: capture chains stay well formed (every Enclosing(k) names a capture that exists one level up, '
         'answers that need a capture name one that exists, every function between use and declaration carries it, module-level '
         'answers record nothing, capture counts match the capture lists); Compiler::child starts a nested function without the '
         'module table, locals or captures, so enclosing locals shadow module names; the implicit return of an initialiser reads self through its box when a '
         'closure captured it (found and fixed F40: B().x undefined after init() { self.x = 1; let f = || self; }). Resolver::super_ / self_ for every kind of enclosing function: the implicit self of `super.m()` is resolved only in a method or initialiser '
         '(found and fixed F77: `super` in a static method bound the self of an unrelated enclosing method). The resolver pass '
         '(which locals become boxes) and the emission per symbol state elsewhere are not yet machine checked.',
    note='Trusted: rustc MIR printer, mirsym, abstract object identities + identity-indexed heap arrays (vmabs.py), Z3. '
         'Captures / LyBox / Closure accessors are executed from laythe_core MIR.',
    ref='§4 C02')

CLAIMED['C14'] = dict(
    text='Decides with Z3 over the real MIR of both Value implementations (tagged enum and NaN-boxed; two MIR dumps): C14.D1 every '
         'predicate/accessor agrees with a reference decoding of the representation for every well-formed value, every f64 bit '
         'pattern outside the tag space / bool / nil round-trips bit for bit, == is the language equality (IEEE on numbers) and '
         'Hash is consistent with it; C14.D2 the C01 operator and branch obligations are discharged again on the NaN-boxed '
         'interpreter, so both builds compute the same results for every operand pair. The genuine divergence F9 (bitwise == / '
         'hash in the NaN-boxed build) is reported as a known finding. Object layouts that differ by representation are C20.',
    note='Trusted: rustc MIR printer, mirsym (union and transmute modelling; NaN results are one of the two canonical quiet NaNs), '
         'abstract object identities (pointer<->integer conversions carry the identity), Z3 FP theory.',
    ref='§4 C14')

CLAIMED['C07'] = dict(
    text='Decides with Z3 over the real MIR of ChannelQueue (C07.K1): one send / receive / close / runnable_waiter step from an '
         'arbitrary queue state satisfying the representation invariant (symbolic length <= symbolic capacity, any open/closed '
         'state, waiter lists of <= 2 (quick) / 4 (thorough) entries): admitted sends append exactly the sent value at the tail, '
         'receives remove exactly the head, rejected operations leave the queue unchanged, nothing is admitted after close and '
         'buffered values survive close in order; a parked synchronous sender is never woken while its value is still queued. By '
         'induction over the (cooperative, hence sequential) operation history this gives FIFO / exactly-once / capacity for '
         'histories of any length. The VM side of the retry protocol (ip and depth restored on Full/Empty) is decided in C06.K1. '
         'C07.K2 close on a queue with parked receivers must make them runnable - KNOWN FINDING F47 (close only changes the state, the '
         'parked receive never yields nil: "Fatal error deadlock"; replayed natively). C07.K3 the wake-up step Vm::queue_blocked_fiber + '
         'Fiber::activate from MIR: for any run queue (0..2 fibers) satisfying the run-queue invariant (distinct, Pending, not the running '
         'fiber) and a waiter naming a parked fiber, a queued fiber or the running fiber, the invariant is kept without a host panic '
         '(found and fixed F56: fiber queued twice / running fiber unblocked: panics from 8-line programs); Fiber::complete for a child whose '
         'parent sleeps on a channel (0..2 channels, views may share a queue, lists of <= 1 (quick) / 2 entries): the parent link is the one '
         'route that does not pop the waiter it resumes, so the parent is taken out of every waiter list there, other waiters keep their order '
         '(found and fixed F57: a waiter left behind resumed a fiber blocked in a synchronous send on another channel, which proceeded before '
         'its value was taken). Other blocking semantics that need the whole scheduler are C08 (not applicable).',
    note='Trusted: rustc MIR printer, mirsym, VecDeque modelled as a logical queue, Ref<ChannelWaiter> as identities, Z3.',
    ref='§4 C07')

CLAIMED['C13'] = dict(
    text='Decides with Z3 over the real MIR of op_invoke / op_super_invoke / op_get_prop_by_name / op_set_prop_by_name and of '
         'InlineCache (C13.K1), with class method / field tables as uninterpreted functions (any tables): started from an '
         'arbitrary cache state satisfying the cache invariant, the op is indistinguishable (callee, arguments, stack, ip, error '
         'class) from the same op started with an empty cache, the entry it leaves behind satisfies the invariant again '
         '(entry => that class has that method / field index, and no instance field shadows a cached method), and entries of '
         'other sites are untouched. This is "behaves as with every lookup forced to the slow path" for every receiver and class '
         'table. The clause about classes collected and re-created at the same address is decided as a reachability fact: every class '
         'and method an entry names is kept alive by the Vm\'s roots (C05.K1.roots_vm / trace_inline_cache), so an address named by an '
         'entry cannot be handed to another class (found and fixed F46: the caches were not traced, a stale entry was hit after a '
         'collection - segmentation fault on the gc_stress build). C13.K1.property_slots_in_bounds: every field slot an entry or a compile-time '
         'slot names is inside the instance it is applied to, with instance length uninterpreted (found and fixed F53: a class extended '
         'after instances existed indexed past the instance).'
         ' op_invoke is covered too, with Instance::get_field executed from MIR instead of summarised (found and fixed F67: invoke on an import object older than the export it '
         'names panicked). C13.K1.export_forgets_shadowed_entries: the invariant "no field of the class shadows a cached method" under op_export, the one operation that adds a '
         'field to a class with live call sites (found and fixed F74: a site warmed before `export fn str()` kept calling Object.str).',
    note='Trusted: rustc MIR printer, mirsym, abstract object identities, call summary at resolve_call, Z3. Slot ids in range: C19.K1.',
    ref='§4 C13')

CLAIMED['C03'] = dict(
    text='Decides with Z3 over the real MIR: C03.K1 Class::inherit / add_method / add_field / get_method / get_field_index over '
         'bounded symbolic tables (<= 2 (quick) / 3 (thorough) methods and fields, symbolic interned names): a subclass starts '
         'with exactly its parent\'s methods (the initialiser included) and fields at unchanged indices, inherits init unless it has '
         'its own, add_method / add_field update exactly the named entry and number new fields after the existing ones; C03.K3 the '
         'real lowering functions assign / assign_binary / send hand a class (hence a compile-time field slot) to '
         'property_get / property_set only when the receiver is self itself; C03.K2 reading or writing a property the class does not declare '
         'ends in the documented error for every receiver (found and fixed F49). Invoke == get-then-call on the VM side and the '
         'property ops are decided under C13.K1 (cached vs first execution) and C06.K1. Static methods / metaclasses and bound '
         'method values are not yet machine checked.',
    note='Trusted: rustc MIR printer, mirsym, hash maps as association lists with distinct keys, abstract identities, Z3.',
    ref='§4 C03')

CLAIMED['C20'] = dict(
    text='Decides with Z3 over the real MIR: C20.K1 for every object kind (string, tuple, list, instance with symbolic length / '
         'capacity / field count in both value representations, and each fixed-size `impl Object`) the kind\'s real alloc() runs on a '
         'byte-addressed block model, then the real ObjectHandle::size and <ObjectHandle as Drop>::drop run on the handle it produced: '
         'the size reported at allocation, the size summed by the sweeps and the size and alignment handed to dealloc all equal the '
         'layout the block was obtained with, for every length (element loops of drop summarised) and with the loops executed for '
         'length <= 3, every access inside the block; C20.K3 Allocator::collect_garbage from an arbitrary mark state over abstract '
         'handles (1-2 old, 2 nursery, 1-2 boxed, nursery and full sweeps via symbolic gc_count): bytes_allocated equals the sum of '
         'the survivors\' sizes, next_gc is exactly twice that, survivors are unmarked again, the nursery is emptied. Real type sizes '
         'come from rustc -Zprint-type-sizes of the same tree. Vector growth / forwarding blocks and non-object boxed allocations '
         '(Box<dyn Manage> sizes) are not yet covered. C20.K1.forwarded_list_size: the block a grown list leaves behind reports its own size, not the size of the block it forwards to. C20.K4 Vm::call_native with the native summarised by its result and any number of temporary '
         'roots left behind on the error result: the roots are released before the error is handed on (found and fixed F66: one leaked root per '
         'caught error in the natives that call back, unbounded growth with bounded live data). Found and fixed F1 (string dealloc layout) and F2 (nursery accounting).',
    note='Trusted: rustc MIR printer and type-size printer, mirsym, block memory model (obl/memabs.py: usize words in a z3 array, '
         '#[repr(C)] prefix punning), handle abstraction (obl/gcabs.py: identity, size, mark bit), Layout::from_size_align model, Z3.',
    ref='§4 C20')

CLAIMED['C05'] = dict(
    text='Decides with Z3 over the real MIR: C05.K1 mark completeness, one level: for every hand-written `impl Trace` of the three '
         'crates (15 object / runtime types with their own obligation, 26 more in a sweep: iterator states, signatures, builders, '
         'source files) the real trace body runs on an arbitrary value of the type (references as abstract identities, containers '
         'with 0..2 elements, every Option / variant shape) and must hand every managed reference found by walking the type '
         'definition to a trace; <Vm as TraceRoot>::trace must do the same for the fields of the Vm; C05.K2 the collector step '
         '(collect_garbage, sweeps, collect_garbage_with_value) from an arbitrary mark state frees exactly the unmarked, keeps every '
         'marked object, releases nothing twice, sweeps only after the context and every temporary root were traced, roots the '
         'newborn object and leaves no intern entry pointing at a released string. Fields that are redundant by a stated invariant '
         '(iterator `current` mirrored in Enumerator.current, error classes, Class.init, Vm.builtin / global_module / current_fun) '
         'are listed as assumptions, not checked; the inline caches, first assumed weak, are now required to be traced (F46); the rooting automaton also treats what a callback returns as a newborn (found and fixed F70: reduce accumulator) and a summarised call that is handed the hooks '
         'and an unprotected newborn as a risk inside that call, unless the MIR of List::push / insert shows they root the value they add (found and fixed F68: '
         'List::push grew the list before storing the value); C05.K3.runtime_error_message_rooted follows Vm::runtime_error (found and fixed F69: message unrooted while the stack grows); C05.K1.roots_compiler does the same for the roots the compiler holds while it allocates. Not decided: the element loops of the managed containers\' own '
         'traces (Array, UniqueVector, RawSharedVector), `dyn` natives and enumerators (listed as not encoded in the evidence), and the '
         'composition into "same output under every collection schedule". C05.K3 temporary-root discipline: every native of laythe_lib '
         '(the C16.K4 sweep, about 115 of 123 decided) and every `impl Enumerate::next` runs from MIR with every call observed; on each '
         'solver-feasible path an ownership automaton requires that an object the native has just allocated is rooted, stored into '
         'something reachable or handed to the next allocation before any point that can collect (allocations, callbacks, summarised '
         'calls that receive the hooks), or is never used afterwards (a store is assumed whenever a newborn is handed to a call on a '
         'reachable receiver: silence rather than alarm). Compiler-side rooting is not decided.',
    note='Trusted: rustc MIR printer, mirsym, abstract identities for every reference type, hash maps / deques / vectors as bounded '
         'logical containers, handle abstraction for the collector (identity, size, mark bit), Z3. The allow-list of redundant '
         'fields is an argument by inspection, recorded in obl/c05k1.py.',
    ref='§4 C05')

CLAIMED['C09'] = dict(
    text='Decides with Z3 over the real MIR of Allocator::manage_str / has_str / sweep_intern_cache / collect_garbage (C09.K1), string '
         'contents uninterpreted (any text, any length): from any intern table satisfying its invariant (distinct keys, key == content '
         'of its string) manage_str returns the one existing object for equal content and allocates nothing, otherwise a fresh object '
         'with that content that the table maps from then on (has_str finds exactly it) and that survives the collection its own '
         'allocation may trigger; every collection prunes the table after all roots are traced and before anything is released, an '
         'entry stays exactly when its string is marked. By induction: equal content <=> same object for all creation orders and '
         'collection timings. That every string-producing native routes through manage_str, and identity-based ==/hash of values '
         '(C14.D1), are separate; the native call sites are not yet machine checked.',
    note='Trusted: rustc MIR printer, mirsym, hash map as association list with distinct keys, handle abstraction, Z3.',
    ref='§4 C09')

CLAIMED['C11'] = dict(
    text='Decides with Z3 over the real MIR on a byte-addressed block memory (the list is built by the real alloc, optionally '
         'forwarded once or twice by the real grow): C11.K1 List::push / insert / remove / pop are exactly the finite-sequence '
         'operations for every length, capacity and index (element contents as an uninterpreted array, universally quantified '
         'position), every read and write stays inside its allocation, out-of-range indices return OutOfBounds and change nothing; '
         'C11.K2 the natives list.remove / list.insert / list[x] / list[x] = v for every f64 argument (NaN, infinities, fractions, '
         'negative values): they succeed exactly for integral in-range x (negative x from the end where documented), perform exactly '
         'the sequence operation, and otherwise raise leaving the receiver unchanged. Found and fixed F3 (capacity-0 growth wrote out '
         'of bounds) and F15 (fractional / NaN indices truncated); C11.K3 take / map / filter as stream functions; C11.K4 string[x] by '
         'characters; C11.K5 the map iterator across ANY history of inserts / removals between two next() calls advances a hash-table '
         'iterator only on the table generation it was created from (found and fixed F31: use after free of the reallocated buckets, '
         'replayed under valgrind); the same generation model on Map.str, whose str() callbacks may change the map (found and fixed F73), and for lists '
         'every native that calls back takes elements only from a slice view obtained after the last callback (found and fixed F71: List.str printed '
         'elements a str() callback had removed and read freed memory). Map / Tuple / String natives\' results and the other adaptors are not machine checked.',
    note='Trusted: rustc MIR printer and type-size printer, mirsym, block memory model (obl/memabs.py), f64::fract characterised by its '
         'sign / zero / magnitude facts instead of bit-blasted, error construction (call_error) and format! abstracted, Z3 FP theory.',
    ref='§4 C11')

CLAIMED['C10'] = dict(
    text='Decides with Z3 over the real MIR on the block memory model: C10 part of the list kernels (shared with C11.K1): after any push / '
         'insert / remove / pop, including ones that grow the list, an alias holding the original address (before one or two '
         'forwardings) sees the same length and reads / writes the same element cells as the live vector, and the forwarded block '
         'stays well formed; C10.K1 Value == and Hash of a list reached through an alias taken before it grew: reported as the '
         'known finding F7 (identity is the raw address; aliases become unequal and map keys are lost after growth); C10.K2 the map\'s key '
         'equality (real <Value as PartialEq>::eq on (v, v)) and Hash for every well-formed value in both representations: a key finds '
         'itself - known finding F61 (NaN in the tagged-enum build: IEEE == is not reflexive, a NaN key is never found again). C10.K3 every native of '
         'List that can grow its receiver asks has_moved() after the growing call and rewrites the roots when it moved; C10.K4 the real '
         'Fiber::scan_roots on one stack slot (any value, containers of <= 2 elements, forwarding as uninterpreted functions): the slot and the '
         'elements one level below it are rewritten, nothing else changes (deeper aliases: F7). Identity of '
         'maps / instances under mutation (no forwarding involved) and scan_roots over map values are not yet machine checked.',
    note='Trusted: rustc MIR printer, mirsym, block memory model, Z3. F7 is a genuine defect recorded in known_findings.json '
         '(repair needs a growth-stable identity; not a small change).',
    ref='§4 C10')

CLAIMED['C17'] = dict(
    text='Decides with Z3 over the real MIR: C17.K2 op_import / op_import_symbol from an arbitrary module cache with the loader '
         'summarised to its four outcomes: a cached module is neither loaded nor run again, a freshly compiled module is run as a '
         'child fiber of the importer, which is rewound to retry exactly this instruction and pushes nothing before, a module is '
         'entered into the cache only once loaded and under its fully resolved path, the symbol form pushes exactly the value the '
         'export table holds under the requested name and answers non-exported names and missing modules with an import error, a '
         'module that does not compile ends the program with a failing status; C17.K1 find_missing_module over an arbitrary module '
         'tree (uninterpreted child relation) and any path of <= 3 (quick) / 4 segments descends exactly along the path and splits '
         'it at the first missing segment. C17.K3 one inductive step of every Module table operation from an arbitrary module satisfying the '
         'representation invariant (<= 2 / 3 symbols and exports): insert_symbol, export_symbol, get_exported_symbol_by_name '
         '(a value exactly for exported names, the one stored for that very name), module_instance (fields set exactly per export), '
         'set/get by slot and name, Module::import over module trees of depth 2 / 3. Found and fixed F10 (path[0] at every depth), '
         'F20 (exit status 0) and F28 (a refused duplicate insert_symbol corrupted the name table). C17.K4 Fiber::complete for a '
         'child of a fiber that sleeps in an import: only the module fiber may resume the importer (found F30: any child launched '
         'before the import resumed it while the module body was blocked; replayed natively; fixed); C17.K2 loading a module file '
         'leaves the package table alone (F45: a user std.lay imported as self.std replaced the std package). Other scheduling histories of concurrent importers are not '
         'machine checked. C17.K2.only_own_package_loads_files: Vm::import_module asks the file loader only for the program\'s own package (found and fixed F76: `import std.util` ran ./util.lay); '
         'load_missing_module registers a module under its parent only once it has compiled (found and fixed F75: at the prompt the second import of a module that failed to compile bound an empty module object).',
    note='Trusted: rustc MIR printer, mirsym, abstract identities for modules / strings (paths compare by identity: interning is '
         'C09), laythe Map over the association-list hash map model, Z3. Assumes the working directory exists.',
    ref='§4 C17')

CLAIMED['C19'] = dict(
    text='Decides with Z3 over the real MIR: C19.K1 Vm::compile (every prompt entry and every module goes through it) with parser / '
         'resolver / lowering summarised by their results and the real Compiler::new, CacheIdEmitter and InlineCache executed: the '
         'inline-cache ids handed out by a compile start where the ids of earlier compiles of that module end, after a successful '
         'compile the module\'s cache holds every id ever handed out for it, a failed compile leaves the caches as they were; C19.K2 '
         'Vm::stack_unwind with the fiber unwind summarised: an error nobody handles is printed and reported, and the run queue, '
         'packages, module cache and inline caches that carry a session from one entry to the next are untouched; plus the capture '
         'chain obligation C02.K2 (symbols of earlier entries referenced from nested functions). Found and fixed F11 (slot ids '
         'restarted per entry: wrong method dispatched or out-of-bounds cache read at the prompt) and F52 (caches were indexed by module id '
         'assuming ids are consecutive per Vm: a module imported from a second package at the prompt read another module\'s cache). Repl-mode name resolution in the '
         'resolver and the read-compile-run loop itself are not yet machine checked.',
    note='Trusted: rustc MIR printer, mirsym, summaries of Parser::parse / Resolver::resolve / Compiler::compile (the compiler hands out '
         'consecutive ids from the emitter state it was created with), Z3.',
    ref='§4 C19')

CLAIMED['C16'] = dict(
    text='Decides with Z3 over the real MIR: C16.K1 Native::check_if_valid_call, the gate in front of every native, for all three arity '
         'forms, any parameter kinds and <= 3 (quick) / 4 arguments: a native is entered exactly when the count fits and every argument '
         'passed the test of its own parameter (remaining arguments against the variadic one); C16.K2 call, call_closure and '
         'call_native from any state with at most MAX_FRAME_SIZE frames push a frame only below the limit and otherwise raise the '
         'catchable stack-overflow error, so the call depth is bounded on every path, native callbacks included; C16.K3 op_inherit '
         'never accepts a builtin value class as superclass, which is what makes the unchecked receiver casts of the builtin '
         'natives sound (C16.K7: no program comparator runs inside a standard library sort, which may panic on an order that is not total - found and fixed F72), and never hands the class being defined to Class::inherit as its own superclass (found and fixed F64: `class Object {}` '
         'panicked). Found and fixed F21 (recursion through native callbacks skipped the depth limit: host stack overflow) and '
         'F14 (class L : List {}: abort / segfault); C16.K4 every native declared in laythe_lib (signature constants and `native!` '
         'declarations read from the current sources; about 75 of 123 decided, the rest listed as not encoded in the evidence) runs '
         'from MIR on arguments constrained only by its signature and receiver class: every unchecked cast is justified, to_num / '
         'to_obj are applied only to values of that kind, the argument slice is indexed within the admitted count (found and fixed '
         'F24 zip / chain, F25 collect / isA?, F26 RegExp pattern field); C16.K3 chan(n) for every value (F23 capacity overflow); '
         'exit requests through native callbacks (C18.K2, F22); fiber creation for any max_slots (C06.K2 fiber_new / fiber_split, F29: '
         'a 300-element list literal panicked the host). What the native bodies compute, the natives not encoded (string, io, '
         'math, iterator constructors) and errors raised while another error is handled are not machine checked.',
    note='Trusted: rustc MIR printer, mirsym, abstract Vm state (vmabs.py), ParameterKind::is_valid summarised per (parameter, '
         'argument) pair with Object accepting everything, native bodies summarised by their result, Z3.',
    ref='§4 C16')

CLAIMED['C18'] = dict(
    text='Decides with Z3 over the real MIR: C18.K1 Fiber::pause_unwind for <= 4 (quick) / 6 frames, any handler depth and any number of '
         'frames already recorded by an earlier stage of the same unwind: the backtrace holds one position per frame from the '
         'raising frame down to the handler frame, earlier entries (the true raise sites) are kept and newly covered frames are '
         'appended innermost first; C18.K2 call_native: exit(n) ends the run with exactly n in both native environments, an error '
         'raised by a native becomes the fiber\'s current error; run_fun hands exit / error / deadlock signals of a nested run to its caller '
         'for every mode (found and fixed F48: a deadlock inside a nested run had no error object and panicked); print_error is total over '
         'any backtrace and looks the line of every frame up at the position it had when the error was raised (found and fixed F59: after a '
         'catch clause that did not match, the uncaught traceback named the catch clause\'s line); native frames are named in the trace; the line table the positions come from has one entry per line (C15.K2); the import instructions end the run with a failing status when a '
         'module does not compile (C17.K2, found and fixed F20); the unwinding target itself is C04.K2 and one line-table entry '
         'per code byte is C06.K1. The text of the traceback (print_error, frame_line formatting, line lookup) and the final '
         'ExecutionResult to process status mapping in Vm::run / main.rs are not machine checked.',
    note='Trusted: rustc MIR printer, mirsym, UniqueVector modelled as buffer + length, iterator adaptors rev / skip / take / map / '
         'collect modelled over bounded sequences, Z3.',
    ref='§4 C18')

CLAIMED['C15'] = dict(
    text='Partial: decides with Z3 over the real MIR bounded kernels of the front end, not its totality over arbitrary text. '
         'C15.K2 the scanner (Scanner::new + scan_token to Eof, all of scanner.rs from MIR, characters symbolic over every Unicode '
         'scalar value, byte offsets as sums of UTF-8 widths): for 14 fixed prefixes (empty, string, escape, unicode escape, '
         'interpolation, single quote, numbers, identifier, @, /, comment) followed by up to 2 (quick) / 2-3 (thorough) arbitrary '
         'characters there is no panic, every slice is taken at a character boundary, token spans lie inside the text, the scanner '
         'makes progress and the line table has one entry per line on texts without error tokens '
         '(no scanner defect found on the pinned tree; seeded scanner defects are caught, DESIGN.md B.5). C15.K1 Compiler::emit_byte for an instruction on any source line never panics and '
         'records exact 1-based lines while they fit the u16 line table; peephole_compile (each stage summarised by an arbitrary '
         'result) answers with a function or diagnostics for any number of jump labels; one iteration of the Drop-run loop of the '
         'peephole pass from an arbitrary counter keeps the u8 counter in range (found and fixed F54: 256 locals in a block '
         'panicked the compiler instead of printing the too-many-locals diagnostic). C15.K3 Compiler::child starts every nested '
         'function body outside any loop (found and fixed F51: `break` inside a function literal inside a loop compiled to a jump '
         'out of the function and crashed the Vm). C15.K4 Parser::function / lambda with every sub-parser an arbitrary Ok / Err answer: the loop '
         'counter is restored on every path (found and fixed F62: a syntax error in a function signature inside a loop panicked the parser). '
         'C15.K5 Resolver::for_ / catch with the sub-resolvers as events: the iterable / class is resolved before the variable is declared, the '
         'order in which the compiler lowers them (found and fixed F63: `for x in x {}` and `catch e: e` panicked the compiler). C15.K1 also runs '
         'the debug-profile apply_stack_effects on what the dead-code pass leaves of a loop behind a return (found and fixed F65: debug assertion '
         'on a valid program). Found and fixed F13 (line 65536) and F12 (todo!() for > 65535 labels). Parser / '
         'resolver totality, recursion depth on deeply nested text and the interactive prompt surviving diagnostics are NOT decided '
         '(longer texts than the stated prefixes + K characters are outside the claim).',
    note='Trusted: rustc MIR printer, mirsym, models of the std character iterators and string slicing on the symbolic text '
         '(slicing off a boundary is a panic, as in Rust), stage summaries (peephole_optimize C12, apply_stack_effects C04/C06, '
         'encoder C06), Z3. Debug-profile MIR (overflow checks on); the release build wraps where the debug build panics.',
    ref='§4 C15')

NOT_APPLICABLE = {
    'C08': 'global liveness of the fiber scheduler needs the running Vm (DESIGN.md §6); no bounded symbolic encoding of the real scheduler is within reach',
}

PENDING = 'obligations for this property are designed (DESIGN.md §4) but not yet built; not claimed until they run conclusively'


def main():
    props = [json.loads(l)['id'] for l in open(os.path.join(VERIF, 'properties.jsonl'))]
    checks = []
    na = []
    for p in props:
        if p in CLAIMED:
            c = CLAIMED[p]
            checks.append({
                'property_id': p,
                'quick_cmd': f'./check {p} --tier quick',
                'thorough_cmd': f'./check {p} --tier thorough',
                'evidence_file': f'/verif/evidence/{p}.json',
                'replay_cmd_template': f'./check {p} --replay {{path}}',
                'engine': 'mirsym',
                'level_claimed': {'category': 'model_checking', 'text': c['text'], 'design_ref': c['ref']},
                'level_note': c['note'],
                'technique': c.get('technique', TECH),
            })
        else:
            na.append({'property_id': p, 'reason': NOT_APPLICABLE.get(p, PENDING)})
    m = {
        'version': 1,
        'setup_cmd': './setup.sh',
        'hooks': {
            'guard': 'none: no hook or instrumentation was added to /repo (the checks read the MIR of the unmodified sources); '
                     'the only /repo commits are unguarded "fix:" commits listed in known_findings.json',
            'enable': 'not needed; native replay builds the unmodified `laythe` binary',
            'baseline_off_cmd': 'cd /repo && cargo test --workspace --no-fail-fast --offline',
            'source_commits': [],
            'add_only': True,
        },
        'engines': [
            {'name': 'mirsym', 'path': '/verif/mirsym', 'serves_properties': sorted(CLAIMED),
             'kind_free_text': 'symbolic executor for rustc MIR text (regenerated from /repo on every run) over Z3: '
                               'path exploration with decision replay, lazily materialised symbolic structures, symbolic '
                               'sequences, library models; obligations in /verif/obl'},
        ],
        'checks': checks,
        'notes': 'Every verdict is a solver verdict over the MIR of the current /repo tree within stated bounds; see DESIGN.md.',
        'not_applicable': na,
    }
    json.dump(m, open(os.path.join(VERIF, 'MANIFEST.json'), 'w'), indent=1)
    print('wrote MANIFEST.json:', len(checks), 'checks,', len(na), 'not applicable')


if __name__ == '__main__':
    main()
