#!/bin/bash
# confirm_seed.sh <worktree> <outdir> <seed-id> : applies patch in the scratch worktree, runs the test suite and the demo
# with and without the change, and writes /verif/seeded/<seed-id>/{patch.diff,demo*,meta.json,confirm.log}
set -u
WT=$1; OUT=$2; ID=$3
DEST=/verif/seeded/$ID
mkdir -p $DEST
export CARGO_NET_OFFLINE=true
cd $WT && git checkout -q -- . && git status --short | head -3
cp $OUT/patch.diff $DEST/patch.diff
for f in demo.lay expected.txt demo.diff demo_test.rs notes.md; do [ -f $OUT/$f ] && cp $OUT/$f $DEST/; done
LOG=$DEST/confirm.log; : > $LOG
run_demo() {
  if [ -f $OUT/demo.lay ]; then
    cargo build --offline -q -p laythe 2>/dev/null
    (cd $OUT && timeout 60 $WT/target/debug/laythe demo.lay > $DEST/out_$1.txt 2> $DEST/err_$1.txt; echo "exit=$?" >> $DEST/out_$1.txt)
  fi
}
echo "== clean demo" >> $LOG; run_demo clean
git apply $OUT/patch.diff || { echo "PATCH DOES NOT APPLY" >> $LOG; exit 1; }
echo "== patched build+tests" >> $LOG
cargo test --workspace --no-fail-fast --offline > $DEST/tests_patched.txt 2>&1
grep -E "^test result|FAILED|failed" $DEST/tests_patched.txt | sort | uniq -c >> $LOG
grep -E "^test .* FAILED|^    [a-z_:]+$" $DEST/tests_patched.txt | sort -u >> $LOG
run_demo patched
git checkout -q -- .
if [ -f $OUT/demo.lay ]; then
  if cmp -s $DEST/out_clean.txt $DEST/out_patched.txt; then echo "DEMO: NO DIFFERENCE" >> $LOG; else echo "DEMO: outputs differ (clean vs patched)" >> $LOG; fi
  if [ -f $OUT/expected.txt ]; then diff <(grep -v '^exit=' $DEST/out_clean.txt) $OUT/expected.txt > /dev/null && echo "clean == expected" >> $LOG || echo "clean != expected" >> $LOG; fi
fi
tail -5 $DEST/tests_patched.txt > /dev/null
rm -f $DEST/tests_patched.txt.tmp
echo done >> $LOG
