"""C10 — object identity is stable under mutation.  The list kernels (c11list.py, registered for C10 too) decide that every alias
reaches the live elements through the forwarding chain; this file decides what ==, hash and the root rewriting make of an alias
taken before the list grew."""
import z3
from vfw.core import obligation, get_program, summarize_paths
from mirsym.values import *
from mirsym.tys import *
from .c11list import ListWorld, _finish
from .c14 import HasherV, _hasher_models
from .memabs import BlockPtr

F7_REPRO = '''fn t() {
  let a = [1, 2, 3, 4];
  let holder = [[a]];
  let m = {a: "found"};
  a.push(5);
  print(a == holder[0][0]);
  print(m[a]);
}
t();
'''
F7_REPLAY = dict(kind='lay', source=F7_REPRO, expect_stdout='true\nfound\n')


def _value_of_list(W, e, lst):
    """the Value a program holds for this list address (real conversions)"""
    P = W.P
    f = P.lookup('<Value as From<List>>::from')
    if f is None:
        raise Unsupported('no From<List> for Value')
    return e.exec_fn(f, [lst], 0, None)


@obligation('C10.K1.alias_identity', 'C10', programs=('core',))
def k1_alias_identity(res, tier):
    """a list value taken before the list grew and one taken after denote the same object: Value == is true and both hash alike
    (real <Value as PartialEq>::eq / Hash on the enum representation, real List::grow)"""
    res.bounds = {'length/capacity': 'any', 'forwarding hops': 1, 'representation': 'tagged enum'}
    W = ListWorld('core')
    e = W.e
    P = W.P
    _hasher_models(e)
    # the address is what ObjectRef hashes: feed the pointer itself to the recorder
    e.model(r'^<(std::ptr::|core::ptr::)?NonNull as (std::hash::|core::hash::)?Hash>::hash$',
            lambda e_, a, c: (a[1].cell.get(e_) if isinstance(a[1], Ref) else a[1]).sink.append(a[0].cell.get(e_) if isinstance(a[0], Ref) else a[0]) or UNIT)
    feq = P.lookup('<Value as PartialEq>::eq')
    fhash = P.lookup('<Value as Hash>::hash')

    def path(e):
        lst, blk0, seq, n, cap = W.new_list(e)
        old_alias = _value_of_list(W, e, Struct('List', {0: Cell(e.copy_value(lst.f[0].get(e)))}, None))
        new, blk1, ncap = W.grow_once(e, lst, n, cap)
        new_alias = _value_of_list(W, e, new)
        r = e.exec_fn(feq, [Ref(Cell(old_alias)), Ref(Cell(new_alias))], 0, None)
        e.check(r, 'a list equals itself through an alias taken before it grew (Value ==)')
        r2 = e.exec_fn(feq, [Ref(Cell(old_alias)), Ref(Cell(e.copy_value(old_alias)))], 0, None)
        e.check(r2, 'a list value equals a copy of itself')
        ha, hb = [], []
        e.exec_fn(fhash, [Ref(Cell(old_alias)), Ref(Cell(HasherV(ha)))], 0, {'H': 'Hasher'})
        e.exec_fn(fhash, [Ref(Cell(new_alias)), Ref(Cell(HasherV(hb)))], 0, {'H': 'Hasher'})

        def same(x, y):
            if isinstance(x, BlockPtr) and isinstance(y, BlockPtr):
                return x.blk is y.blk and bool(conc(z3.simplify(x.off == y.off)))
            if isinstance(x, z3.ExprRef) and isinstance(y, z3.ExprRef) and x.sort() == y.sort():
                return z3.simplify(x == y)
            return False
        eqs = [same(x, y) for x, y in zip(ha, hb)]
        ok = len(ha) == len(hb) and len(ha) > 0 and all((z3.is_true(q) if isinstance(q, z3.ExprRef) else q) for q in eqs)
        e.check(ok, 'a list hashes alike through an alias taken before it grew (map key lookup finds its entry)')
        return {'hash_words': len(ha)}
    results = e.explore(path)
    _finish(res, e, results, 'C10.K1:')
    for f in res.findings:
        if 'alias taken before it grew' in f.key:
            f.replay = F7_REPLAY


# ---------------------------------------------------------------------------------------------- K2 any value works as a map key
F61_SRC = 'let n = 0/0;\nlet m = {};\nm[n] = "first";\nprint(m.has(n));\nm[n] = "second";\nprint(m.len());\n'
F61_REPLAY = dict(kind='lay', source=F61_SRC, expect_stdout='true\n1\n', note='default (tagged enum) build: NaN as a map key never finds its entry, every write adds an entry')


def _mk_key_reflexive(prog, nan):
    from .c14 import _fresh_value, _install_obj_models, _panic_fail, VALUE
    from mirsym.engine import Engine
    suffix = 'boxed' if nan else 'enum'

    @obligation(f'C10.K2.{suffix}.map_key_finds_itself', 'C10', programs=(prog,))
    def key_reflexive(res, tier):
        """the key equality of the hash map (<Value as PartialEq>::eq, real code) is reflexive on every well-formed value and the
        hash of a value is a function of the value: a value stored as a map key finds its own entry again"""
        P = get_program(prog)
        res.bounds = {'values': 'every well-formed Value (every number bit pattern, booleans, nil, any object reference)', 'representation': suffix}
        res.assumptions = ['the map looks keys up with Value\'s Hash and == (hashbrown contract: an entry is found iff hash and == agree)']
        e = Engine(P, timeout_s=120)
        _install_obj_models(e, P, nan)
        _hasher_models(e)
        feq = P.lookup('<Value as PartialEq>::eq')
        fhash = P.lookup('<Value as Hash>::hash')

        def path(e):
            a, aw = _fresh_value(e, P, nan, 'key')
            e.assume(z3.Not(aw.is_undef))
            r = to_z3_bool(e.call(feq, [Ref(Cell(a)), Ref(Cell(e.copy_value(a)))]))
            nanv = z3.And(aw.is_num, z3.fpIsNaN(aw.num))
            e.check(z3.Implies(nanv, r), f'{suffix}: a value used as a map key equals itself [NaN]')
            e.check(z3.Implies(z3.Not(nanv), r), f'{suffix}: a value used as a map key equals itself [every other value]')
            ha, hb = [], []
            e.call(fhash, [Ref(Cell(e.copy_value(a))), Ref(Cell(HasherV(ha)))])
            e.call(fhash, [Ref(Cell(e.copy_value(a))), Ref(Cell(HasherV(hb)))])
            same = z3.And(*[x == y for x, y in zip(ha, hb)]) if len(ha) == len(hb) and len(ha) > 0 else z3.BoolVal(False)
            e.check(same, f'{suffix}: hashing a value twice feeds the hasher the same data')
            return {'fn': 'key ==/hash', 'hash_words': len(ha)}
        rs = e.explore(path)
        _panic_fail(res, rs, f'C10.K2.{suffix}:key')
        summarize_paths(res, e, rs, lambda r: r.info if isinstance(r.info, dict) else None, key_prefix=f'C10.K2:', unwind_ok=False)
        for fd in res.findings:
            if '[NaN]' in fd.key and not nan:
                fd.replay = F61_REPLAY


_mk_key_reflexive('core', False)
_mk_key_reflexive('core-nan', True)


# ---------------------------------------------------------------------------------------------- C20: the stub a grown list leaves behind is sized as itself
@obligation('C20.K1.forwarded_list_size', 'C20', programs=('core',), also=('C10',))
def k1_forwarded_size(res, tier):
    """a list built by the real allocation path with any capacity, forwarded once by the real List::grow to any larger capacity:
    ObjectHandle::size (summed by every sweep into bytes_allocated) of the block left behind is the size that block was obtained
    with — not the size of the block it forwards to — and the size of the new block is its own"""
    res.bounds = {'length/capacity': 'any', 'forwarding hops': 1, 'representation': 'tagged enum'}
    W = ListWorld('core')
    e = W.e
    P = W.P
    f_size = P.lookup('ObjectHandle::size')

    def handle_of(blk):
        from .memabs import BlockPtr
        return Struct('ObjectHandle', {0: Cell(BlockPtr(blk, bv(0, 64), 'u8'))}, None)

    def path(e):
        lst, blk0, seq, n, cap = W.new_list(e)
        new, blk1, ncap = W.grow_once(e, lst, n, cap)
        s0 = e.call(f_size, [Ref(Cell(handle_of(blk0)))])
        e.check(s0 == blk0.size, 'the block a grown list leaves behind reports the size it was obtained with (not the size of the block it forwards to)',
                {'obtained': str(z3.simplify(blk0.size))[:80], 'reported': str(z3.simplify(s0))[:80]})
        s1 = e.call(f_size, [Ref(Cell(handle_of(blk1)))])
        e.check(s1 == blk1.size, 'the new block of a grown list reports the size it was obtained with')
        return {'fn': 'ObjectHandle::size', 'blocks': 2}
    results = e.explore(path)
    _finish(res, e, results, 'C20.K1:forwarded:')
