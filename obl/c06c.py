"""C06.C1 — the linear stack simulation equals every control-flow path, by induction over the lowering functions.

Each lowering function is executed from MIR with opaque sub-constructs obeying the induction hypothesis H (an expression
chunk pushes exactly one value on every path and has no escaping jumps; a block chunk has net effect = the locals it
declares in its scope).  The emitted skeleton is then explored along every control-flow path using the repository's own
stack_effect() table (executed from MIR; its agreement with the VM is C06.K1) and compared with the *linear* sum that
apply_stack_effects computes."""
import re
import z3
from vfw.core import obligation, get_program, summarize_paths
from mirsym.engine import Engine
from mirsym.values import *
from mirsym.tys import *
from .compabs import CompilerWorld, emitted_names, variant_name
from .c04c import _label_of, ClosureBlock

F6_TERNARY = """fn f() {
  let x = true ? 1 : 2;
  try {
    let q = 5;
    raise Error("boom");
  } catch e: Error {
    print(e.message);
  }
}
f();
"""

JUMPS = ('Jump', 'JumpIfFalse', 'And', 'Or', 'Loop', 'PushHandler', 'CheckHandler')


def _effect(e, P, feff, ins, name, nested):
    if isinstance(ins, tuple):
        kind = ins[1]
        if kind in ('expr', 'getvar'):
            return 1
        if kind in ('block', 'decl', 'stmt'):
            return nested[ins[2]].get('locals_declared', 0)
        return 0
    r = e.call(feff, [Ref(Cell(ins))])
    c = conc(z3.simplify(r))
    if c is None:
        raise Unsupported('symbolic stack effect of ' + name)
    return c - (1 << 32) if c >= (1 << 31) else c


def stack_discipline(e, P, emitted, names, nested, base_label, expect_net):
    """-> dict(ok, why, linear, paths)"""
    feff = P.lookup('byte_code::SymbolicByteCode::stack_effect')
    effs = [_effect(e, P, feff, ins, n, nested) for ins, n in zip(emitted, names)]
    linear = sum(effs)
    labels = {}
    for i, (ins, n) in enumerate(zip(emitted, names)):
        if n == 'Label':
            v = conc(z3.simplify(_label_of(e, ins, 'Label') - base_label))
            if v is None:
                raise Unsupported('label not determined relative to the label counter')
            if v in labels:
                return dict(ok=False, why=[f'label {v} emitted twice'], linear=linear)
            labels[v] = i

    def target(i):
        v = conc(z3.simplify(_label_of(e, emitted[i], names[i]) - base_label))
        return labels.get(v), v
    why = []
    depth_at = {}
    exits = set()
    work = [(0, 0)]
    steps = 0
    ok = True
    while work:
        i, d = work.pop()
        while True:
            steps += 1
            if steps > 5000:
                return dict(ok=False, why=['path explosion'], linear=linear)
            if i in depth_at:
                if depth_at[i] != d:
                    ok = False
                    why.append(f'join at instruction {i} ({names[i] if i < len(names) else "end"}) reached with depths {depth_at[i]} and {d}')
                break
            depth_at[i] = d
            if i >= len(names):
                exits.add(d)
                break
            n = names[i]
            if n in JUMPS:
                t, lv = target(i)
                if t is None:
                    # jump to a label of an enclosing construct (loop start/end): leaves this skeleton
                    if n in ('Jump', 'Loop'):
                        break
                    i_next, d_next = i + 1, d + effs[i]
                    i, d = i_next, d_next
                    continue
                if n == 'Jump' or n == 'Loop':
                    i = t
                    continue
                if n in ('And', 'Or'):
                    work.append((t, d))               # short circuit keeps the operand
                elif n == 'PushHandler':
                    pass                               # the catch entry depth is set by the unwinder (C04.K1/K2)
                else:
                    work.append((t, d + effs[i]))      # JumpIfFalse / CheckHandler pop on both edges
                d += effs[i]
                i += 1
                continue
            if n in ('Return', 'Raise', 'ContinueUnwind'):
                break
            d += effs[i]
            if d < 0 and False:
                ok = False
            i += 1
    if len(exits) > 1:
        ok = False
        why.append(f'construct can finish with different depths {sorted(exits)}')
    if exits and expect_net is not None and any(x != expect_net for x in exits):
        ok = False
        why.append(f'net effect {sorted(exits)} instead of {expect_net}')
    return dict(ok=ok, why=why, linear=linear, paths=sorted(exits), depth_at=depth_at, effs=effs, labels=labels)


def simulate(e, P, emitted, names, nested, base_label, start_depth=0):
    """run the repository's apply_stack_effects (from MIR) on a stand-in program for the skeleton: opaque chunks are
    replaced by that many `Nil` pushes, labels are renumbered from 0.  -> depth before each skeleton instruction,
    relative to the depth at the construct's entry"""
    ed = P.enum_def(INS_TY)
    f = P.lookup('compiler::peephole::apply_stack_effects')
    prog = []
    owner = []          # skeleton index of each stand-in instruction
    for i, (ins, n) in enumerate(zip(emitted, names)):
        if isinstance(ins, tuple):
            kind = ins[1]
            k = 1 if kind in ('expr', 'getvar') else nested[ins[2]].get('locals_declared', 0) if kind in ('block', 'decl', 'stmt') else 0
            for _ in range(k):
                prog.append(EnumV(INS_TY, ed.vindex['Nil'], None, None, ed))
                owner.append(i)
            if k == 0:
                prog.append(EnumV(INS_TY, ed.vindex['ArgumentDelimiter'], None, None, ed))
                owner.append(i)
        else:
            c = e.copy_value(ins)
            if n in JUMPS or n == 'Label':
                _renumber(e, c, n, base_label)
            prog.append(c)
            owner.append(i)
    seq = ConcSeq(INS_TY, [Cell(x) for x in prog])
    fb = e.fresh('laythe_core::object::FunBuilder', e.fresh_name('fb'))
    sd = P.struct_def('laythe_core::object::FunBuilder')
    ar = fb.field(e, sd.index_of('arity'), sd.fields[sd.index_of('arity')][1]).get(e)
    ar.tag = ar.edef.vindex['Fixed']
    ar.payload = {'Fixed': {0: Cell(bv(0, 8))}}
    trace = []
    e.path_state['max_slots_updates'] = trace
    saved_bound = e.loop_bound
    e.loop_bound = len(prog) + 4
    try:
        e.call(f, [Ref(Cell(fb)), SliceRef(seq, bv(0, 64), bv(len(prog), 64))])
    except PathEnd as pe:
        if pe.kind == 'unwind':
            raise Unsupported('loop bound reached inside the simulation run')
        raise
    finally:
        e.loop_bound = saved_bound
    after = []
    for t in trace:
        c = e.unique_value(t)
        if c is None:
            raise Unsupported('simulated depth not determined')
        after.append((c - (1 << 32) if c >= (1 << 31) else c) - 1)      # the simulation starts at 1 (callee slot)
    feff = P.lookup('byte_code::SymbolicByteCode::stack_effect')
    depth_before = {}
    for j, (own, a) in enumerate(zip(owner, after)):
        eff = conc(z3.simplify(e.call(feff, [Ref(Cell(prog[j]))])))
        eff = eff - (1 << 32) if eff >= (1 << 31) else eff
        if own not in depth_before:
            depth_before[own] = a - eff
    if after:
        depth_before[len(names)] = after[-1]
    return dict(depth_before=depth_before)


def _renumber(e, ins, n, base):
    """rewrite the label operand to (label - base) so that labels are 0..k-1"""
    if n == 'PushHandler':
        tup = ins.field(e, n, 0, '(u16, byte_code::Label)').get(e)
        lab = tup.field(e, 1, 'byte_code::Label').get(e)
    else:
        lab = ins.field(e, n, 0, 'byte_code::Label').get(e)
    c = lab.field(e, 0, 'u32')
    v = conc(z3.simplify(c.get(e) - base))
    if v is None:
        raise Unsupported('label not determined relative to the label counter')
    c.set(e, bv(v, 32))


INS_TY = 'byte_code::SymbolicByteCode'


def _run(res, fname, ast_ty, expect_net, setup=None, key_known=None, replay=None, argmaker=None, extra=None):
    P = get_program('vm')
    e = Engine(P, loop_bound=6, timeout_s=180, max_depth=60)
    CW = CompilerWorld(e, P)
    from .c04 import _fun_builder_models
    _fun_builder_models(e, P)
    if extra:
        extra(e, CW)
    f = P.lookup('compiler::Compiler::' + fname)

    # a recursive use of the construct itself (else-if chains, nested ternaries) is an opaque chunk: induction hypothesis
    def recursion_hook(eng, fn_, args):
        n = eng.path_state.get('self_calls', 0)
        eng.path_state['self_calls'] = n + 1
        if n == 0:
            return None
        mdl = eng.find_model('Compiler::stmt' if expect_net == 0 else 'Compiler::expr')
        from mirsym.engine import CallCtx
        return ('return', mdl[0](eng, [args[0], None], CallCtx('nested', 'nested', None, None)))
    e.call_hooks[f.key] = recursion_hook

    def path(e):
        c = CW.fresh_compiler(e)
        at0 = CW.attrs(e, c)
        e.assume(z3.And(z3.UGE(at0['depth'], 1), z3.ULT(at0['depth'], 1 << 16)))
        e.assume(CW.locals_seq(e, c).len == 0)
        e.assume(z3.ULT(CW.field(e, c, 'local_tables').len, 1 << 8))
        lbl0 = CW.field(e, c, 'label_emitter').field(e, 0, 'u32').get(e)
        e.assume(z3.ULT(lbl0, 1 << 20))
        node = e.fresh(ast_ty, 'node') if ast_ty else None
        if setup:
            setup(e, P, CW, c, node)
        args = argmaker(e, c, node) if argmaker else [Ref(Cell(c)), Ref(Cell(node))]
        e.call(f, args)
        names = emitted_names(e)
        r = stack_discipline(e, P, e.path_state['emitted'], names, e.path_state['nested'], lbl0, expect_net)
        e.check(r['ok'], f'{fname}: stack depth is the same on every path into each join and the construct has its declared net effect',
                {'emitted': names, 'why': r['why']})
        if r['ok'] and 'depth_at' in r:
            sim = simulate(e, P, e.path_state['emitted'], names, e.path_state['nested'], lbl0)
            bad = []
            for i, d in sim['depth_before'].items():
                real = r['depth_at'].get(i)
                if real is not None and real != d:
                    bad.append(f'instruction {i} ({names[i] if i < len(names) else "end"}): simulated depth {d}, depth on the control-flow paths {real}')
            e.check(not bad, f'{fname}: apply_stack_effects computes the real depth at every reachable instruction of the skeleton',
                    {'emitted': names, 'why': bad})
        at1 = CW.attrs(e, c)
        e.check(at1['depth'] == at0['depth'], f'{fname}: scope depth restored')
        e.check(CW.locals_seq(e, c).len == 0, f'{fname}: locals of inner scopes are gone')
        return {'fn': fname, 'emitted': names, 'linear': r.get('linear'), 'paths': r.get('paths')}
    results = e.explore(path)
    for r in results:
        for label, ok, info in list(r.checks):
            if not ok and key_known and 'path independent' in label and any('linear sum' in w for w in (info.get('detail') or {}).get('why', [])) \
                    and not any('join' in w or 'different depths' in w or 'net effect' in w for w in (info.get('detail') or {}).get('why', [])):
                res.fail(key_known, f'{fname}: the linear simulation counts both arms of a branch', info, replay=replay)
                r.checks.remove((label, ok, info))
        if r.kind in ('panic', 'oob', 'unreachable', 'ub', 'diverge', 'depth'):
            s = str(r.info)
            if 'overflow' in s:
                continue      # label / scope counters at their numeric limit: C06.K3
            res.fail(f'C06.C1:{fname}:{r.kind}', f'{fname}: path ends in {r.kind}: {s[:200]}', {'path': s})
    summarize_paths(res, e, results, lambda r: r.info if isinstance(r.info, dict) else None, key_prefix=f'C06.C1:{fname}:', unwind_ok=False)


@obligation('C06.C1.ternary', 'C06', programs=('vm',))
def c1_ternary(res, tier):
    """Compiler::ternary: one value on every path; the linear simulation must agree"""
    res.bounds = {'sub-expressions': 'opaque chunks pushing one value (induction hypothesis)'}
    _run(res, 'ternary', 'compiler::ir::ast::Ternary', 1,
         key_known='C06.C1:ternary: linear simulation double counts the two arms',
         replay=dict(kind='lay', source=F6_TERNARY, expect_stdout='boom\n'))


@obligation('C06.C1.if_while', 'C06', programs=('vm',))
def c1_if_while(res, tier):
    """Compiler::if_ (no else / else block / else if, nested up to the unwinding bound) and while_: net effect 0 on every path"""
    res.bounds = {'else-if chain': '<= 3 links', 'locals declared per block': '0..2'}

    def if_setup(e, P, CW, c, node):
        pass
    _run(res, 'if_', 'compiler::ir::ast::If', 0)
    _run(res, 'while_', 'compiler::ir::ast::While', 0)


@obligation('C06.C1.binary_unary', 'C06', programs=('vm',))
def c1_binary(res, tier):
    """Compiler::binary (all operators incl. short-circuit and/or) and unary: one value on every path"""
    res.bounds = {'operator': 'every BinaryOp / UnaryOp'}
    _run(res, 'binary', 'compiler::ir::ast::Binary', 1)
    _run(res, 'unary', 'compiler::ir::ast::Unary', 1)


def _bounded_vecs(maxn=3, at_least=None):
    """setup: every vector field of the AST node has a concrete length 0..maxn (explored case by case)"""
    at_least = at_least or {}

    def setup(e, P, CW, c, node):
        sd = P.struct_def(node.ty)
        for i, (nm, fty) in enumerate(sd.fields):
            if re.match(r'^(\w+::)*Vec<', norm_ty(fty)):
                v = node.field(e, i, fty).get(e)
                lo = at_least.get(nm, 0)
                e.add_constraint(z3.And(z3.UGE(v.len, lo), z3.ULE(v.len, maxn)))
                n = e.concretize(v.len, list(range(lo, maxn + 1)))
                v.len = bv(n, 64)
    return setup


def _havoc_constants(e, CW):
    # constant-pool indices are not the subject (C06.K3): any index
    e.allow_havoc(r'^(compiler::)?Compiler::(identifier_constant|make_constant|string_constant)$', r'^(laythe_core::)?(allocator::)?Allocator::manage_str$')


def _mk_more(fname, ast_ty, net, doc, setup=None, extra=None):
    @obligation('C06.C1.' + fname.rstrip('_'), 'C06', programs=('vm',))
    def ob(res, tier):
        res.bounds = {'sub-constructs': 'opaque chunks (an expression pushes one value, a statement / block nets 0)', 'collections / argument lists / catch clauses': '0..3 items'}
        _run(res, fname, ast_ty, net, setup=setup, extra=extra)
    ob.__doc__ = doc
    from vfw.core import REGISTRY
    for o in REGISTRY.get('C06', []):
        if o.id == 'C06.C1.' + fname.rstrip('_'):
            o.doc = doc
    return ob


for _fname, _ty, _net, _doc, _setup, _extra in [
    ('raise', 'compiler::ir::ast::Raise', 0, 'Compiler::raise: the raised value is consumed, net effect 0', None, None),
    ('call', 'compiler::ir::ast::Call', 0, 'Compiler::call (a call trailer): the arguments are consumed, the callee slot becomes the result, net effect 0 on top of the callee', _bounded_vecs(), None),
    ('index', 'compiler::ir::ast::Index', 0, 'Compiler::index (an index trailer): index consumed, receiver slot becomes the element', None, _havoc_constants),
    ('channel', 'compiler::ir::ast::Channel', 1, 'Compiler::channel: one value (the channel) on every path', None, None),
    ('list', 'compiler::ir::ast::Collection', 1, 'Compiler::list: the items are consumed into one value', _bounded_vecs(), None),
    ('tuple', 'compiler::ir::ast::Collection', 1, 'Compiler::tuple: the items are consumed into one value', _bounded_vecs(), None),
    ('map', 'compiler::ir::ast::Map', 1, 'Compiler::map: keys and values are consumed into one value', _bounded_vecs(), None),
    ('interpolation', 'compiler::ir::ast::Interpolation', 1, 'Compiler::interpolation: the segments are consumed into one string', _bounded_vecs(), _havoc_constants),
]:
    _mk_more(_fname, _ty, _net, _doc, _setup, _extra)


# ---------------------------------------------------------------------------------------------- each operand is evaluated once
F55_SRC = 'let a = [1, 2, 3];\nlet n = 0;\nfn idx() { n = n + 1; return 0; }\na[idx()] += 10;\nprint(n);\nprint(a[0]);\n'
F55_REPLAY = dict(kind='lay', source=F55_SRC, expect_stdout='1\n11\n')


def _once_obligation(res, fname, ast_ty):
    P = get_program('vm')
    e = Engine(P, loop_bound=6, timeout_s=180, max_depth=60)
    CW = CompilerWorld(e, P)
    _havoc_constants(e, CW)
    f = P.lookup('compiler::Compiler::' + fname)

    def m_expr(e_, a, c):
        node = a[1]
        cell = node.cell if isinstance(node, Ref) else node
        e_.path_state.setdefault('lowered', []).append(id(cell))
        e_.path_state.setdefault('keep', []).append(cell)
        e_.path_state['emitted'].append(('chunk', 'expr', len(e_.path_state['lowered'])))
        return UNIT
    e.model(r'^(compiler::)?Compiler::expr$', m_expr)
    e.allow_havoc(r'^(compiler::)?Compiler::(apply_atom|emit_known_invoke|property_get|property_set|record_field|variable_get|variable_set|instance_access_self)$',
                  r'^(compiler::ir::)?(ast::)?Primary::is_self$')

    def path(e):
        c = CW.fresh_compiler(e)
        node = e.fresh(ast_ty, 'node')
        sd = P.struct_def(ast_ty)
        lhs = node.field(e, sd.index_of('lhs'), sd.fields[sd.index_of('lhs')][1]).get(e)
        asd = P.struct_def('compiler::ir::ast::Atom')
        trailers = lhs.field(e, asd.index_of('trailers'), asd.fields[asd.index_of('trailers')][1]).get(e)
        e.assume(z3.ULE(trailers.len, 2))
        e.call(f, [Ref(Cell(c)), Ref(Cell(node))])
        low = e.path_state.get('lowered', [])
        twice = sorted({x for x in low if low.count(x) > 1})
        e.check(not twice, f'{fname}: every operand expression (index, right-hand side) is lowered exactly once, so its side effects happen once',
                {'expressions lowered': len(low), 'lowered twice': len(twice)})
        return {'fn': fname, 'lowered': len(low)}
    results = e.explore(path)
    for r in results:
        for lab, ok, info in list(r.checks):
            if not ok and fname == 'assign_binary':
                res.fail('C01.C2:assign_binary: the index expression of a compound assignment is evaluated twice',
                         'assign_binary lowers index.index once for the read and once for the write of `a[i] op= v` (only Dup is available to keep the receiver): '
                         'an index expression with side effects runs twice', info, replay=F55_REPLAY)
                r.checks.remove((lab, ok, info))
        if r.kind in ('panic', 'oob', 'unreachable', 'ub', 'diverge', 'depth'):
            s = str(r.info)
            if 'unreachable' in s.lower() or 'Unexpected expression' in s or 'panic_fmt' in s:
                continue
            res.fail(f'C01.C2:{fname}:{r.kind}', f'{fname}: path ends in {r.kind}: {s[:200]}', {'path': s})
    summarize_paths(res, e, results, lambda r: r.info if isinstance(r.info, dict) else None, key_prefix=f'C01.C2:{fname}:', unwind_ok=True)


@obligation('C01.C2.operands_evaluated_once', 'C01', programs=('vm',))
def c2_once(res, tier):
    """Compiler::assign / assign_binary / send with opaque operand expressions: each operand expression of the statement is lowered
    exactly once (assignment as an expression behaves as written: the side effects of an index or right-hand side happen once)"""
    res.bounds = {'trailers on the left-hand side': '<= 2, every variant', 'operands': 'opaque expressions'}
    for fname, ty in (('assign', 'compiler::ir::ast::Assign'), ('assign_binary', 'compiler::ir::ast::AssignBinary'), ('send', 'compiler::ir::ast::Send')):
        _once_obligation(res, fname, ty)
