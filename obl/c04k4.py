"""C04.K4 — an error raised inside a callback that native code invoked is delivered, not dropped.

Natives call back into the program through hooks.call / call_method and through the `next` of inner iterators.  Each of those
returns `Call` (a Result); the error travels outwards only if the native hands it on.  Every native and every `Enumerate::next` of
the standard library whose body makes such a call runs from MIR with the callbacks summarised by "returns any value or raises a
fresh error"; on every solver-feasible path on which a callback raised, the native itself must end in `Call::Err`."""
import os
import re
import z3
from vfw.core import obligation
from mirsym.values import *
from mirsym.tys import *
from .vmabs import AbsObj, AbsArr, object_of
from .c16natives import NativeCastWorld, native_table, _call_fn, RECEIVER, _arg_shapes
from .c05k3 import _enumerate_impls
from .c01 import VALUE

CALLBACK_RX = re.compile(r'hooks\s*\.\s*(call|call_method)\s*\(|\.next\(hooks\)|\.next\(&mut hooks\)')

F32_SRC = ('fn bad(a, b) { raise Error("boom"); }\ntry {\n  [3, 1, 2].sort(bad);\n  print("not raised");\n} catch e: Error {\n  print("caught");\n}\n')
F43_SRC = 'class A { str() { return 5; } }\ntry {\n  print(%s.str());\n} catch e: Error {\n  print("caught");\n}\n'
REPLAYS = {'ListSort': dict(kind='lay', source=F32_SRC, expect_stdout='caught\n'),
           'ListStr:returned': dict(kind='lay', source=F43_SRC % '[A(), 1]', expect_stdout='caught\n'),
           'TupleStr:returned': dict(kind='lay', source=F43_SRC % '(A(), 1)', expect_stdout='caught\n'),
           'MapStr:returned': dict(kind='lay', source=F43_SRC % '{1: A()}', expect_stdout='caught\n')}


def _world():
    W = NativeCastWorld()
    e, P = W.e, W.P
    m = e.model
    RES = P.enum_def('Result')
    le = P.enum_def('laythe_core::LyError') or P.enum_def('LyError')

    def callback(e_, a, c):
        k = len(e_.path_state.setdefault('callbacks', []))
        raises = e_.fork_bool(z3.Bool(f'callback_raises_{k}'))
        e_.path_state['callbacks'].append((c.norm, raises))
        e_.path_state['events'].append(('hook',))
        if not raises and c.norm.endswith('::call'):
            # remember what was called: a class handed to the native as its error class produces an error INSTANCE, not a raise
            val = e_.fresh(VALUE, e_.fresh_name('callback_value'))
            e_.path_state.setdefault('call_results', []).append((a[1], val))
            return EnumV('Result<Value, LyError>', 0, {'Ok': {0: Cell(val)}}, None, RES)
        if raises:
            er = EnumV('LyError', le.vindex['Err'], {'Err': {0: Cell(Opaque('Instance', f'raised{k}'))}}, None, le)
            return EnumV('Result<Value, LyError>', 1, {'Err': {0: Cell(er)}}, None, RES)
        return EnumV('Result<Value, LyError>', 0, {'Ok': {0: Cell(e_.fresh(VALUE, e_.fresh_name('callback_value')))}}, None, RES)
    m(r'^(laythe_core::)?(hooks::)?(Hooks|ValueHooks)::(call|call_method)$', callback)
    m(r'^(laythe_core::)?(object::)?(\w+::)*Enumerator::next$', callback)

    # the private copy ListSort sorts: a raw shared vector addressed by identity
    def m_raw_deref(e_, a, c):
        o = a[0]
        while isinstance(o, Ref):
            o = o.cell.get(e_)
        if hasattr(o, 'id'):
            row = AbsArr(o.id, VALUE).seq(e_)
        else:
            key = ('rawvec', id(o))
            row = e_.memo.get(key)
            if row is None:
                n = z3.BitVec(e_.fresh_name('rawvec_len'), 64)
                e_.add_constraint(z3.ULT(n, 1 << 32))
                row = e_.memo[key] = e_.fresh_seq(VALUE, NameBacking(e_.fresh_name('rawvec')), n)
                e_.memo[('keep', id(o))] = o
        return SliceRef(row, bv(0, 64), row.len)
    m(r'^<(laythe_core::)?(collections::)?(\w+::)*RawSharedVector as (std::ops::|core::ops::)?Deref(Mut)?>::deref(_mut)?$', m_raw_deref)

    def m_sort_by(e_, a, c):
        s_, f = a
        while isinstance(s_, Ref):
            s_ = s_.cell.get(e_)
        ln = e_.slice_len(s_)
        # the comparator runs at least once on any slice with two or more elements; two calls are unrolled
        if e_.fork_bool(z3.UGE(ln, 2)):
            for k in range(2):
                x = Ref(e_.seq_cell(s_.seq, z3.simplify(s_.start + 0)))
                y = Ref(e_.seq_cell(s_.seq, z3.simplify(s_.start + 1)))
                e_.call_value(c.frame, f, [x, y])
        return UNIT
    m(r'^((core|alloc|std)::)?slice::<impl \[.*\]>::sort_by$', m_sort_by)

    # the list natives' own merge sort: summarised the same way (the comparator runs at least once on two or more elements)
    def m_merge_sort(e_, a, c):
        f = a[1]
        while isinstance(f, Ref) and isinstance(f.cell.get(e_), Ref):
            f = f.cell.get(e_)
        return m_sort_by(e_, [a[0], f], c)
    m(r'^(laythe_lib::)?(\w+::)*merge_sort$', m_merge_sort)
    return W


def _result_is_err(e, r):
    if not isinstance(r, EnumV):
        return None
    if isinstance(r.tag, int):
        return r.tag == 1
    return e.is_valid(r.tag == 1)


@obligation('C04.K4.callback_errors_propagate', 'C04', programs=('vm',), also=('C11',))
def k4_callback_errors(res, tier):
    """every native and every `Enumerate::next` of the standard library that calls back into the program (hooks.call / call_method,
    the next of an inner iterator): on every path on which such a callback raised, the native ends in Call::Err — an error raised
    inside a callback invoked by native code reaches the enclosing handler instead of being dropped"""
    NW = NativeCastWorld()
    P = NW.P
    extra = 1
    decided, outside = [], []
    res.bounds = {'variadic arguments': f'0..{extra}', 'callbacks per activation': 'loops unrolled 4 times; sort_by: 2 comparisons', 'paths per native': '<= 400'}
    res.assumptions = ['a callback returns any value or raises', 'arguments constrained by the signature only (C16.K1)']
    only = os.environ.get('VERIF_NATIVE')
    units = []
    for ent in native_table(P):
        if ent['meta'] is None:
            continue
        src = P.items.files[ent['file']]
        mm = re.search(r'^impl LyNative for ' + ent['struct'] + r'\b.*?^\}', src, re.M | re.S)
        if not mm or not (CALLBACK_RX.search(mm.group(0)) or 'hooks.call(' in mm.group(0).replace('\n', ' ').replace('  ', '')):
            continue
        f = _call_fn(P, ent['file'], ent['struct'])
        if f is not None:
            units.append(('native', ent, f))
    for rel, struct, f in _enumerate_impls(P):
        src = P.items.files[rel]
        mm = re.search(r'^impl Enumerate for ' + struct + r'\b.*?^\}', src, re.M | re.S)
        if f is not None and mm and CALLBACK_RX.search(mm.group(0)):
            units.append(('iterator', dict(file=rel, struct=struct), f))
    for kind, ent, f in units:
        label = ent['struct']
        if only and only not in label:
            continue
        W = _world()
        e = W.e
        if kind == 'native':
            recv = None
            for k, v in RECEIVER.items():
                if ent['file'].endswith(k):
                    recv = v
            meta = ent['meta']
            shapes = _arg_shapes(meta, extra)
        sds = [d for d in P.items.structs.get(label, []) if d.file == ent['file']]

        def path(e, kind=kind, ent=ent, f=f):
            W.W.fresh_state(e)
            e.path_state['casts'] = []
            me = Struct(label, None, NameBacking('native_self')) if sds and sds[0].fields else Struct(label, {}, None)
            hooks = Ref(Cell(Opaque('Hooks', 'hooks')))
            if kind == 'native':
                if len(shapes) > 1:
                    sv = z3.BitVec('shape', 64)
                    e.add_constraint(z3.ULT(sv, len(shapes)))
                    si = e.concretize(sv, list(range(len(shapes))))
                else:
                    si = 0
                kinds = list(shapes[si])
                vals = []
                if meta['is_method']:
                    v = e.fresh(VALUE, 'receiver')
                    W.constrain(e, v, recv or 'Object')
                    vals.append(v)
                for j, k in enumerate(kinds):
                    v = e.fresh(VALUE, f'arg{j}')
                    W.constrain(e, v, k)
                    vals.append(v)
                args = ConcSeq('Value', [Cell(v) for v in vals])
                r = e.call(f, [Ref(Cell(me)), hooks, SliceRef(args, bv(0, 64), bv(len(vals), 64))])
            else:
                r = e.call(f, [Ref(Cell(me)), hooks])
            cbs = e.path_state.get('callbacks', [])
            # an error object the native built by calling its own error class must be raised, not returned as the result
            if kind == 'native' and isinstance(r, EnumV) and _result_is_err(e, r) is False and sds and any(n == 'error' for n, _ in sds[0].fields):
                from .c07 import _flat
                ei = [i for i, (n, _) in enumerate(sds[0].fields) if n == 'error'][0]
                err_cls = _flat(e, me.field(e, ei, sds[0].fields[ei][1]).get(e))
                out = _flat(e, e.payload0(r, 'Ok'))
                for callee, val in e.path_state.get('call_results', []):
                    same_callee = e.is_valid(z3.And(*[x == y for x, y in zip(_flat(e, callee), err_cls)]))
                    same_val = e.is_valid(z3.And(*[x == y for x, y in zip(_flat(e, val), out)]))
                    if same_callee:
                        e.check(not same_val, f'{label}: the error object built from the native\'s error class is raised, not handed back as the result')
            raised = [n for n, rz in cbs if rz]
            if raised:
                e.check(_result_is_err(e, r) is True, f'{label}: an error raised by a callback ({raised[0].split("::")[-1]}) ends the native with that error',
                        {'callbacks': [(n.split('::')[-1], rz) for n, rz in cbs]})
            return {'unit': label, 'callbacks': len(cbs), 'raised': len(raised)}
        try:
            results = e.explore(path)
        except Unsupported as ex:
            outside.append(f'{label}: {str(ex)[:140]}')
            continue
        unsup = [r for r in results if r.kind in ('unsupported', 'budget')]
        seen = set()
        for r in results:
            for lab, okc, info in r.checks:
                res.checks += 1
                if not okc and lab not in seen:
                    seen.add(lab)
                    if 'handed back as the result' in lab:
                        res.fail(f'C04.K4:{label}: error object returned instead of raised', lab + ' fails', info, replay=REPLAYS.get(label + ':returned'))
                    else:
                        res.fail(f'C04.K4:{label}: callback error dropped', lab + ' fails: the native returns Ok although a callback raised', info, replay=REPLAYS.get(label))
        res.absorb(e)
        res.paths += len(results)
        oks = [r for r in results if r.kind == 'ok' and isinstance(r.info, dict)]
        if any(r.info.get('raised') for r in oks):
            res.nontrivial += 1
            decided.append(label + (' (some paths not encoded)' if unsup else ''))
        elif unsup:
            outside.append(f'{label}: {str(unsup[0].info)[:160]}')
        else:
            outside.append(f'{label}: no path on which a callback raises was reached')
    res.bounds['units decided'] = decided
    res.outside = (res.outside or []) + ['not encoded: ' + x for x in outside]
