"""Byte-addressed blocks for the layout obligations (C20.K1, C10/C11 list kernels).

alloc(layout) returns a pointer to a fresh Block that remembers the layout it was obtained with.  Pointers into a block carry a
symbolic byte offset and the pointee type; every access is bounds checked against the block size (PathEnd('oob') otherwise).
usize words live in a z3 array indexed by byte offset (so a length written through one path is read back through another);
values of other types (headers, items) are kept per (offset, type).  dealloc records the layout it was called with.
"""
import z3
from mirsym.values import *
from mirsym.tys import *

BV64 = z3.BitVecSort(64)


class LayoutV:
    __slots__ = ('size', 'align')
    rust_ty = 'Layout'

    def __init__(self, size, align):
        self.size, self.align = size, align

    def copy_value(self, eng):
        return self

    def __repr__(self):
        return f'Layout({self.size},{self.align})'


class Block:
    def __init__(self, name, size, align):
        self.name, self.size, self.align = name, size, align
        self.words = z3.K(BV64, z3.BitVecVal(0, 64))
        self.words_written = []
        self.objs = {}
        self.elems = {}       # element type name -> z3 array byte offset -> E_<type> (contents of Value slots)
        self.freed = None

    def __repr__(self):
        return f'block {self.name}'


ELEM_HEADS = ('Value',)


def is_elem_ty(ty):
    return ty_kind(ty) == 'adt' and ty_head(ty) in ELEM_HEADS


def elem_sort(ty):
    return z3.DeclareSort('E_' + sort_name(ty))


def elems_of(blk, ty):
    tn = sort_name(ty)
    a = blk.elems.get(tn)
    if a is None:
        a = z3.Const(f'{blk.name}.init_{tn}', z3.ArraySort(BV64, elem_sort(ty)))
        blk.elems[tn] = a
    return a


def _inner_ptr(eng, v):
    """the raw pointer inside pointer-sized wrappers (NonNull / RawSharedVector / List ...): newtypes whose other fields are
    zero sized"""
    seen = 0
    while seen < 6:
        seen += 1
        if isinstance(v, BlockPtr):
            return v
        if isinstance(v, Struct):
            vals = []
            for k in sorted(v.f):
                x = v.f[k].get(eng)
                if x is UNIT or isinstance(x, FnItem) or (isinstance(x, Struct) and not x.f and (x.backing is None or 'PhantomData' in str(x.ty))):
                    continue      # PhantomData
                vals.append(x)
            if len(vals) == 1:
                v = vals[0]
                continue
        return None
    return None


class BlockPtr:
    """*mut T into a block at a symbolic byte offset"""
    __slots__ = ('blk', 'off', 'ty')

    def __init__(self, blk, off, ty):
        self.blk, self.off, self.ty = blk, off, ty

    def copy_value(self, eng):
        return self

    def retype(self, eng, to):
        t = norm_ty(to)
        return BlockPtr(self.blk, self.off, pointee_ty(t) if ty_kind(t) in ('ref', 'ptr') else t)

    def offset(self, eng, n):
        sz = eng.size_of(self.ty) if self.ty not in ('u8', 'i8') else 1
        return BlockPtr(self.blk, z3.simplify(self.off + n * sz), self.ty)

    def offset_from(self, eng, other):
        if not isinstance(other, BlockPtr) or other.blk is not self.blk:
            raise PathEnd('ub', 'offset_from between different allocations')
        sz = eng.size_of(self.ty) if self.ty not in ('u8', 'i8') else 1
        return z3.simplify((self.off - other.off) / sz)

    def deref_cell(self, eng):
        return BlockCell(self)

    def from_raw_parts(self, eng, n):
        sz = eng.size_of(self.ty)
        end = z3.ZeroExt(64, self.off) + z3.ZeroExt(64, n) * sz
        ok = eng.fork_bool(z3.ULE(end, z3.ZeroExt(64, self.blk.size)))
        if not ok:
            raise PathEnd('oob', (f'slice of {self.ty} outside the allocation', str(self.off), str(n)))
        if self.blk.freed is not None:
            raise PathEnd('ub', 'slice into a released block')
        return BlockSlice(self, n)

    def ptr_binop(self, eng, op, a, b):
        if isinstance(b, BlockPtr):
            if op == 'Eq':
                return a.blk is b.blk and as_bool(z3.simplify(a.off == b.off))
            if op == 'Ne':
                return not (a.blk is b.blk) or as_bool(z3.simplify(a.off != b.off))
        raise Unsupported('pointer comparison ' + op)

    def __repr__(self):
        return f'{self.blk.name}+{self.off} as *{self.ty}'


class BlockSlice:
    __slots__ = ('ptr', 'len')

    def __init__(self, ptr, n):
        self.ptr, self.len = ptr, n

    def copy_value(self, eng):
        return self

    def slice_len(self, eng):
        return self.len

    def ptr_metadata(self, eng):
        return self.len

    def deref_cell(self, eng):
        return Cell(self)      # [T] is unsized: only ever seen behind the reference

    def index_with(self, eng, i, ctx):
        """slice[i] / slice[a..b] with Rust's bounds checks"""
        sz = eng.size_of(self.ptr.ty)
        if isinstance(i, z3.BitVecRef):
            return Ref(self.index_cell(eng, i, ('index',)))
        if isinstance(i, Struct):
            h = ty_head(i.ty)
            if h == 'Range':
                lo, hi = i.f[0].get(eng), i.f[1].get(eng)
            elif h == 'RangeFrom':
                lo, hi = i.f[0].get(eng), self.len
            elif h == 'RangeTo':
                lo, hi = bv(0, 64), i.f[0].get(eng)
            elif h == 'RangeFull':
                lo, hi = bv(0, 64), self.len
            else:
                raise Unsupported('slice index by ' + h)
            if not eng.fork_bool(z3.ULE(lo, hi)):
                raise PathEnd('panic', ('slice index starts after its end', str(lo), str(hi)))
            if not eng.fork_bool(z3.ULE(hi, self.len)):
                raise PathEnd('panic', ('range end index out of range for slice', str(hi), str(self.len)))
            return BlockSlice(BlockPtr(self.ptr.blk, z3.simplify(self.ptr.off + lo * sz), self.ptr.ty), z3.simplify(hi - lo))
        raise Unsupported('slice index by ' + type(i).__name__)

    def index_cell(self, eng, idx, p):
        if p[0] == 'cindex':
            idx = (self.len - p[1]) if p[3] else bv(p[1], 64)
        if not eng.fork_bool(z3.ULT(idx, self.len)):
            raise PathEnd('panic', 'index out of bounds of a slice')
        sz = eng.size_of(self.ptr.ty)
        return BlockCell(BlockPtr(self.ptr.blk, z3.simplify(self.ptr.off + idx * sz), self.ptr.ty))


class BlockCell:
    """the place *p"""
    __slots__ = ('p',)

    def __init__(self, p):
        self.p = p

    def _check(self, eng, what):
        p = self.p
        if p.blk.freed is not None:
            raise PathEnd('ub', f'{what} of a released block {p.blk.name}')
        sz = eng.size_of(p.ty)
        end = z3.ZeroExt(64, p.off) + sz
        ok = eng.fork_bool(z3.ULE(end, z3.ZeroExt(64, p.blk.size)))
        if not ok:
            raise PathEnd('oob', (f'{what} of {p.ty} outside the allocation {p.blk.name}', str(p.off)))
        eng.path_state.setdefault('mem_access', []).append((what, p.blk.name, p.off, p.ty))

    def get(self, eng):
        p = self.p
        self._check(eng, 'read')
        if p.ty in ('usize', 'u64', 'isize', 'i64') or ty_kind(p.ty) in ('ptr', 'ref'):
            w = z3.simplify(z3.Select(p.blk.words, p.off))
            pt = eng.path_state.get('word_ptrs', {}).get((p.blk.name, str(z3.simplify(p.off))))
            if pt is not None and ty_kind(p.ty) in ('ptr', 'ref'):
                return pt
            return w
        if is_elem_ty(p.ty):
            t = z3.Select(elems_of(p.blk, p.ty), p.off)
            return eng.materialise(norm_ty(ty_head(p.ty)), TermBacking(z3.simplify(t), sort_name(p.ty)))
        k = (str(z3.simplify(p.off)), p.ty)
        v = p.blk.objs.get(k)
        if v is None:
            v = _punned(eng, p, k)
        if v is None:
            v = eng.fresh(p.ty, eng.fresh_name(f'{p.blk.name}@{k[0]}'))
            p.blk.objs[k] = v
        return v

    def set(self, eng, v):
        p = self.p
        self._check(eng, 'write')
        if isinstance(v, z3.ExprRef) and z3.is_bv(v) and v.size() == 64:
            p.blk.words = z3.Store(p.blk.words, p.off, v)
            p.blk.words_written.append(p.off)
            eng.path_state.get('word_ptrs', {}).pop((p.blk.name, str(z3.simplify(p.off))), None)
            return
        if is_elem_ty(p.ty):
            t = eng.elem_term(v, elem_sort(p.ty), sort_name(p.ty))
            p.blk.elems[sort_name(p.ty)] = z3.Store(elems_of(p.blk, p.ty), p.off, t)
            return
        ip = _inner_ptr(eng, v)
        if ip is not None:
            v = ip
        if isinstance(v, (BlockPtr,)):
            # a pointer stored in a word (forwarding pointer): remember the pointer, and a tagged address for word reads
            eng.path_state.setdefault('word_ptrs', {})[(p.blk.name, str(z3.simplify(p.off)))] = v
            p.blk.words = z3.Store(p.blk.words, p.off, z3.BitVec(f'addr!{v.blk.name}', 64) + v.off)
            return
        p.blk.objs[(str(z3.simplify(p.off)), p.ty)] = v

    def sub(self, eng, p, variant):
        return None


def _repr_c(P, sd):
    src = P.items.files.get(sd.file)
    if src is None:
        return False
    lines = src.split('\n')
    i = sd.line - 2
    while i >= 0 and (lines[i].strip().startswith(('#[', '///', '//')) or not lines[i].strip()):
        if 'repr(C' in lines[i]:
            return True
        i -= 1
    return 'repr(C' in lines[sd.line - 1]


def _punned(eng, p, k):
    """read of a #[repr(C)] struct at an offset where a different #[repr(C)] struct was written: the common prefix of
    identically typed fields has the same layout in both, so the view shares those cells; anything else is not modelled"""
    P = eng.P
    want = P.struct_def(p.ty)
    if want is None:
        return None
    for (off, ty2), v2 in p.blk.objs.items():
        if off != k[0] or ty2 == p.ty or not isinstance(v2, Struct):
            continue
        have = P.struct_def(ty2)
        if have is None or not (_repr_c(P, want) and _repr_c(P, have)):
            raise Unsupported(f'type-punned read of {p.ty} over {ty2} without #[repr(C)] on both')
        if len(want.fields) > len(have.fields) or any(norm_ty(a[1]) != norm_ty(b[1]) for a, b in zip(want.fields, have.fields)):
            raise Unsupported(f'type-punned read of {p.ty} over {ty2}: not a common prefix')
        view = Struct(norm_ty(p.ty), {}, None)
        for i in range(len(want.fields)):
            c = v2.f.get(i)
            if c is None:
                c = v2.field(eng, i, have.fields[i][1])
            view.f[i] = c
        p.blk.objs[k] = view
        return view
    return None


def install(eng, P):
    m = eng.model
    st = eng.path_state

    def lay(e, v):
        while isinstance(v, Ref):
            v = v.cell.get(e)
        if not isinstance(v, LayoutV):
            raise Unsupported('expected a Layout, got ' + type(v).__name__)
        return v

    def m_from_size_align(e, a, c):
        size, align = a
        ca = conc(align)
        if ca is None:
            ca = e.concretize(align, [1, 2, 4, 8, 16, 32, 64])
        pow2 = ca != 0 and (ca & (ca - 1)) == 0
        ed = P.enum_def('Result')
        ok = pow2 and e.fork_bool(z3.ULE(size, (1 << 63) - ca))
        if ok:
            return EnumV('Result<Layout, LayoutError>', 0, {'Ok': {0: Cell(LayoutV(size, bv(ca, 64)))}}, None, ed)
        return EnumV('Result<Layout, LayoutError>', 1, {'Err': {0: Cell(Opaque('LayoutError', 'layout_error'))}}, None, ed)
    m(r'^(std::alloc::|core::alloc::|alloc::alloc::)?(layout::)?Layout::from_size_align$', m_from_size_align)
    m(r'^(std::alloc::|core::alloc::|alloc::alloc::)?(layout::)?Layout::size$', lambda e, a, c: lay(e, a[0]).size)
    m(r'^(std::alloc::|core::alloc::|alloc::alloc::)?(layout::)?Layout::align$', lambda e, a, c: lay(e, a[0]).align)

    def m_alloc(e, a, c):
        l = lay(e, a[0])
        blocks = e.path_state.setdefault('blocks', [])
        b = Block(f'blk{len(blocks)}', l.size, l.align)
        blocks.append(b)
        e.path_state.setdefault('mem_events', []).append(('alloc', b, l.size, l.align))
        return BlockPtr(b, bv(0, 64), 'u8')
    m(r'^(std::alloc::|alloc::alloc::)(alloc|alloc_zeroed)$', m_alloc)

    def m_dealloc(e, a, c):
        p, l = a[0], lay(e, a[1])
        while isinstance(p, Ref):
            p = p.cell.get(e)
        if not isinstance(p, BlockPtr):
            raise Unsupported('dealloc of ' + type(p).__name__)
        e.path_state.setdefault('mem_events', []).append(('dealloc', p.blk, l.size, l.align, p.off, p.blk.freed is not None))
        p.blk.freed = (l.size, l.align)
        return UNIT
    m(r'^(std::alloc::|alloc::alloc::)dealloc$', m_dealloc)
    m(r'^(std::alloc::|alloc::alloc::)handle_alloc_error$', lambda e, a, c: (_ for _ in ()).throw(PathEnd('diverge', 'handle_alloc_error')))

    def m_copy(e, a, c):
        src, dst, n = a
        if isinstance(src, BlockPtr) and isinstance(dst, BlockPtr) and is_elem_ty(dst.ty):
            if conc(n) != 0:
                src.from_raw_parts(e, n)
                dst.from_raw_parts(e, n)
            sz = e.size_of(dst.ty)
            e.fresh_n += 1
            o = z3.BitVec(f'o!{e.fresh_n}', 64)
            old_s, old_d = elems_of(src.blk, src.ty), elems_of(dst.blk, dst.ty)
            inreg = z3.And(z3.ULE(dst.off, o), z3.ULT(o, dst.off + n * sz))
            dst.blk.elems[sort_name(dst.ty)] = z3.Lambda([o], z3.If(inreg, z3.Select(old_s, o - dst.off + src.off), z3.Select(old_d, o)))
            e.path_state.setdefault('mem_access', []).append(('copy', src.blk.name, src.off, dst.blk.name, dst.off, n))
            return UNIT
        for p, what in ((src, 'read'), (dst, 'write')):
            while isinstance(p, Ref) and not isinstance(p.cell, BlockCell):
                break
            if isinstance(p, BlockPtr):
                if conc(n) == 0:
                    continue
                p.from_raw_parts(e, n)
                e.path_state.setdefault('mem_access', []).append((what + '_n', p.blk.name, p.off, p.ty, n))
        return UNIT
    m(r'^(std|core)::(ptr|intrinsics)::(copy|copy_nonoverlapping)$', m_copy)
    m(r'^(std|core)::ptr::(mut_ptr|const_ptr)::<impl \*(mut|const) .*>::(copy_to|copy_from)(_nonoverlapping)?$', m_copy)

    def m_copy_from_slice(e, a, c):
        dst, src = a
        while isinstance(dst, Ref):
            dst = dst.cell.get(e)
        if isinstance(dst, BlockSlice):
            while isinstance(src, Ref):
                src = src.cell.get(e)
            n2 = e.slice_len(src) if not isinstance(src, BlockSlice) else src.len
            if not e.fork_bool(dst.len == n2):
                raise PathEnd('panic', 'copy_from_slice: length mismatch')
            dp = dst.ptr
            if is_elem_ty(dp.ty):
                sz = e.size_of(dp.ty)
                e.fresh_n += 1
                o = z3.BitVec(f'o!{e.fresh_n}', 64)
                old_d = elems_of(dp.blk, dp.ty)
                inreg = z3.And(z3.ULE(dp.off, o), z3.ULT(o, dp.off + n2 * sz))
                if isinstance(src, BlockSlice):
                    val = z3.Select(elems_of(src.ptr.blk, src.ptr.ty), o - dp.off + src.ptr.off)
                elif isinstance(src, SliceRef) and isinstance(src.seq, SymSeq) and src.seq.arr.sort().range() == elem_sort(dp.ty):
                    val = z3.Select(src.seq.arr, src.start + z3.UDiv(o - dp.off, bv(sz, 64)))
                else:
                    val = None
                if val is not None:
                    dp.blk.elems[sort_name(dp.ty)] = z3.Lambda([o], z3.If(inreg, val, z3.Select(old_d, o)))
            return UNIT
        return NotImplemented
    m(r'^core::slice::<impl \[.*\]>::copy_from_slice$', m_copy_from_slice)
