"""C06 — emitted bytecode respects the stack contract the unchecked VM relies on."""
import re
import z3
from vfw.core import obligation, get_program, summarize_paths
from mirsym.engine import Engine
from mirsym.mir import parsed_block
from mirsym.values import *
from mirsym.tys import *
from .vmabs import VmWorld, AbsObj
from .common import decode_enum

INS_TY = 'byte_code::SymbolicByteCode'
END_KINDS = ('vm_error', 'vm_exit', 'internal_error')

# instructions that have no opcode of their own (operand-only or empty encodings)
PSEUDO = ('Label', 'ArgumentDelimiter', 'PropertySlot', 'InvokeSlot', 'CaptureIndex')
# real instructions that are followed by operand-only pseudo instructions the op also consumes
TRAILING = {'GetPropByName': 4, 'SetPropByName': 4, 'Invoke': 4, 'SuperInvoke': 4}
FORWARD_JUMPS = ('And', 'Or', 'JumpIfFalse', 'Jump', 'PushHandler', 'CheckHandler')
JUMPS = FORWARD_JUMPS + ('Loop',)


def _find_block(f, pred):
    out = []
    for bb in f.blocks:
        st, term, _ = parsed_block(f, bb)
        if pred(st, term):
            out.append(bb)
    return out


def _encode_fn(P):
    f = P.lookup('byte_code::ByteCodeEncoder::encode')
    heads = _find_block(f, lambda st, t: t[0] == 'call' and 'Zip<' in t[2] and t[2].rstrip().endswith('::next'))
    if len(heads) != 1:
        raise Unsupported(f'ByteCodeEncoder::encode: loop head not identified ({heads})')
    return f, heads[0]


def _execute_fn(P):
    f = P.lookup('vm::Vm::execute')
    heads = _find_block(f, lambda st, t: t[0] == 'call' and t[2].endswith('read_byte'))
    # the loop head is the read_byte call that feeds from_byte_unchecked
    if len(heads) != 1:
        raise Unsupported(f'Vm::execute: loop head not identified ({heads})')
    # join block: common return target of the op_* calls
    joins = set()
    for bb in f.blocks:
        st, t, _ = parsed_block(f, bb)
        if t[0] == 'call' and re.search(r'::op_\w+$', t[2]):
            joins.add(t[4])
    if len(joins) != 1:
        raise Unsupported(f'Vm::execute: op join block not identified ({joins})')
    return f, heads[0], joins.pop()


def _local_of(f, name):
    v = f.debug.get(name)
    if v is None or not re.match(r'^_\d+$', v):
        raise Unsupported(f'{f.name}: local for `{name}` not found ({v})')
    return v


def _variants(P):
    return [v[0] for v in P.enum_def(INS_TY).variants]


def _groups(n=10):
    # fixed grouping by index so that obligation ids are stable
    return [f'g{i}' for i in range(n)]


def _run_variant(e, P, W, vname, enc, exe):
    """one symbolic instruction of variant `vname`: encoder step at an arbitrary offset, then the VM step on the bytes"""
    fenc, enc_head = enc
    fexe, exe_head, exe_join = exe
    ed = P.enum_def(INS_TY)
    vi = ed.vindex[vname]

    def path(e):
        n = z3.BitVec('n', 64)
        k = z3.BitVec('k', 64)
        e.assume(z3.And(z3.ULT(k, n), z3.ULT(n, 1 << 32)))
        prog = e.fresh_seq(INS_TY, NameBacking('prog'), n)
        plines = e.fresh_seq('u16', NameBacking('plines'), n)
        ins = prog.load(e, k)
        e.assume(ins.tag == vi)
        L0 = z3.BitVec('L0', 64)
        e.assume(z3.ULT(L0, 1 << 32))
        code = e.fresh_seq('u8', NameBacking('ecode'), L0)
        elines = e.fresh_seq('u16', NameBacking('elines'), L0)
        nerr = z3.BitVec('nerr', 64)
        e.assume(z3.ULT(nerr, 1 << 16))
        errors = e.fresh_seq('codespan_reporting::diagnostic::Diagnostic<source::files::VmFileId>', NameBacking('errs'), nerr)
        emitter = e.materialise('std::rc::Rc<std::cell::RefCell<cache::CacheIdEmitter>>', NameBacking('emitter'))
        encoder = Struct('byte_code::ByteCodeEncoder', [elines, code, errors, emitter])
        NL = z3.BitVec('NL', 64)
        e.assume(z3.ULT(NL, 1 << 32))
        labels = e.fresh_seq('usize', NameBacking('labels'), NL)
        offset = L0          # invariant of the encoder loop: offset == encoded_code.len() == encoded_lines.len()
        # decode operands of the instruction (variant is fixed, operands symbolic)
        ins.tag = vi
        _, ops = decode_enum(e, ins)
        # preconditions on jump targets (established by the lowering, C06.C1): label declared, direction right
        ins_len = {'PushHandler': 5}.get(vname, 3)
        if vname in JUMPS:
            tgt = z3.ZeroExt(32, ops[-1])
            e.assume(z3.ULT(tgt, NL))
            lo = z3.Select(labels.arr, tgt)
            e.assume(z3.ULT(lo, 1 << 32))
            if vname == 'Loop':
                e.assume(z3.ULE(lo, offset))
            else:
                e.assume(z3.UGE(lo, offset + ins_len))
        it = e.ZipIter(e.SliceIter(SliceRef(prog, bv(0, 64), None), k), e.SliceIter(SliceRef(plines, bv(0, 64), None), k))

        def stop(eng, fr):
            if fr.visits[enc_head] >= 2:
                raise PathEnd('stop', fr)
        e.bb_hooks[(fenc.key, enc_head)] = stop
        preset = {_local_of(fenc, 'self'): encoder, _local_of(fenc, 'offset'): offset, _local_of(fenc, 'iter'): it,
                  _local_of(fenc, 'symbolic_code'): SliceRef(prog, bv(0, 64), None),
                  _local_of(fenc, 'symbolic_lines'): SliceRef(plines, bv(0, 64), None),
                  _local_of(fenc, 'label_offsets'): SliceRef(labels, bv(0, 64), None)}
        try:
            e.exec_fn(fenc, [None] * len(fenc.args), 0, None, start_bb=enc_head, preset=preset)
        except PathEnd as pe:
            if pe.kind != 'stop':
                raise
            fr = pe.info
        else:
            raise Unsupported('encoder loop exited while an instruction was pending')
        finally:
            e.bb_hooks.pop((fenc.key, enc_head), None)
        offset2 = fr.locals[_local_of(fenc, 'offset')].get(e)
        L1 = code.len
        nb = conc(z3.simplify(L1 - L0))
        if nb is None:
            raise Unsupported('encoded length not concrete on a path')
        desc = {'instruction': vname, 'encoded_bytes': nb}
        # C06.K1 / C01.K3: table len() == bytes written; loop invariant preserved
        flen = P.lookup('byte_code::SymbolicByteCode::len')
        feff = P.lookup('byte_code::SymbolicByteCode::stack_effect')
        ins_ref = Ref(Cell(ins))
        tlen = e.call(flen, [ins_ref])
        teff = e.call(feff, [ins_ref])
        e.check(tlen == nb, f'{vname}: len() equals the number of bytes the encoder writes', desc)
        e.check(z3.And(offset2 == offset + tlen, offset2 == L1), f'{vname}: encoder offset stays equal to the encoded length', desc)
        # C18.K1: one line entry per byte, all equal to the instruction's line
        e.check(elines.len == L1, f'{vname}: line table has one entry per code byte', desc)
        ln = z3.Select(plines.arr, k)
        for i in range(nb):
            e.check(z3.Select(elines.arr, L0 + i) == ln, f'{vname}: every byte of the instruction carries its line', desc)
        if vname in PSEUDO:
            e.check(teff == 0, f'{vname}: pseudo instruction has no stack effect', desc)
            return desc
        # ------------------------------------------------------------------ the VM executes the encoded bytes
        nerr2 = errors.len
        too_far = z3.BoolVal(False)
        if vname in JUMPS:
            dist = (offset - lo + 3) if vname == 'Loop' else (lo - offset - ins_len)
            too_far = z3.UGT(dist, 65535)
            e.check(z3.Implies(too_far, nerr2 == nerr + 1), f'{vname}: a distance over 16 bits is reported, never truncated silently', desc)
            e.check(z3.Implies(z3.Not(too_far), nerr2 == nerr), f'{vname}: no diagnostic for a representable distance', desc)
            if not e.fork_bool(z3.Not(too_far)):
                desc['case'] = 'jump too far (diagnostic)'
                return desc
        st = W.fresh_state(e, code=code, ip=L0)
        if vname in ('GetLocal', 'SetLocal', 'GetBox', 'SetBox', 'Box'):
            # a local slot index addresses a live slot of the current frame (declare_local_variable / resolver, C06.K3)
            e.assume(z3.ULT(z3.ZeroExt(56, ops[0]), st.sp - st.fb))
        code.len = z3.simplify(L1 + 64)          # further instructions follow

        def stop2(eng, fr):
            raise PathEnd('stop', fr)
        e.bb_hooks[(fexe.key, exe_join)] = stop2
        sig = None
        outcome = 'ok'
        try:
            mode = e.fresh('vm::ExecutionMode', 'mode')
            e.exec_fn(fexe, [Ref(st.vm_cell), mode], 0, None, start_bb=exe_head)
        except PathEnd as pe:
            if pe.kind == 'stop':
                fr2 = pe.info
                # the signal is the destination of the op call
                sig = [c for kk, c in fr2.locals.items() if fr2.fn.locals.get(kk, '').endswith('ExecutionSignal')]
                sig = sig[0].get(e) if sig else None
            elif pe.kind in END_KINDS:
                outcome = pe.kind
            else:
                raise
        finally:
            e.bb_hooks.pop((fexe.key, exe_join), None)
        sp2, ip2 = W.sp(e), W.ip(e)
        desc['outcome'] = outcome if outcome != 'ok' else (sig.variant_name() if isinstance(sig, EnumV) else str(sig))
        retry = [ev for ev in e.path_state['events'] if ev[0] == 'retry']
        signame = sig.variant_name() if isinstance(sig, EnumV) else None
        # bytes consumed
        consumed = ip2 - L0
        extra = TRAILING.get(vname, 0)
        if vname == 'Closure':
            ncap = e.path_state.get('capture_count')
            extra = 2 * ncap if ncap is not None else 0
        if outcome == 'ok' and signame in ('Ok', 'OkReturn'):
            if vname in JUMPS:
                if vname in ('Jump', 'Loop'):
                    e.check(ip2 == lo, f'{vname}: lands exactly on the label offset', desc)
                elif vname in ('And', 'Or', 'JumpIfFalse', 'CheckHandler'):
                    e.check(z3.Or(ip2 == lo, ip2 == L0 + tlen), f'{vname}: falls through or lands exactly on the label offset', desc)
                elif vname == 'PushHandler':
                    ev = [x for x in e.path_state['events'] if x[0] == 'push_handler']
                    e.check(len(ev) == 1, 'PushHandler: registers exactly one handler', desc)
                    if ev:
                        e.check(ev[0][1] == lo, 'PushHandler: handler offset is the catch label offset', desc)
                        e.check(ev[0][2] == z3.ZeroExt(48, ops[0]), 'PushHandler: handler slot depth is the operand the optimiser wrote', desc)
                    e.check(ip2 == L0 + tlen, 'PushHandler: continues with the next instruction', desc)
            elif vname == 'Return':
                pass     # ip is reloaded from the caller's frame
            elif not ('switched_frame' in [x[0] for x in e.path_state['events']]):
                e.check(consumed == tlen + extra, f'{vname}: the op consumes exactly len() bytes (plus its slot/capture operands)', desc)
            # stack effect
            if vname == 'Return':
                pass     # C01.K5
            elif vname in ('And', 'Or'):
                e.check(z3.Or(z3.And(ip2 == L0 + tlen, sp2 - st.sp == z3.SignExt(32, teff)), z3.And(ip2 == lo, sp2 == st.sp)),
                        f'{vname}: fall-through effect equals the table, jump keeps the operand', desc)
            else:
                e.check(sp2 - st.sp == z3.SignExt(32, teff), f'{vname}: net stack effect equals stack_effect()', desc)
        elif outcome == 'ok' and signame == 'ContextSwitch' and vname != 'Return':
            e.check(z3.Or(z3.And(ip2 == L0, sp2 == st.sp),
                          z3.And(consumed == tlen + extra, sp2 - st.sp == z3.SignExt(32, teff))),
                    f'{vname}: on a context switch the op is either fully undone (retry) or fully done', desc)
        return desc
    return path


def _make_group(gi, ngroups):
    @obligation(f'C06.K1.g{gi}', 'C06', programs=('vm',))
    def ob(res, tier, gi=gi):
        """encode one symbolic instruction at an arbitrary offset, then let the interpreter execute those bytes:
        len() == bytes written == bytes consumed, stack_effect() == net depth change, jumps land on label offsets,
        line table gets one entry per byte"""
        P = get_program('vm')
        names = _variants(P)
        mine = [v for i, v in enumerate(names) if i % ngroups == gi]
        enc = _encode_fn(P)
        exe = _execute_fn(P)
        res.bounds = {'instruction': 'every operand value', 'position': 'any offset / program / label table', 'closure_captures': '<= 3'}
        res.assumptions = ['jump targets are declared labels in the right direction (C06.C1)',
                           'calls are summarised at resolve_call: pops argc+1, pushes the result (C01.K5 decides resolve_call itself)',
                           'object tables, caches, channels behind managed references are havoc (they cannot touch the fiber stack)',
                           'enum layout of CaptureIndex: tag byte then payload byte']
        for vname in mine:
            e = Engine(P, loop_bound=5, timeout_s=120, max_depth=60, max_paths=600)
            W = VmWorld(e, P)
            W.havoc_objects(e)
            W.summarise_calls(e)
            try:
                results = e.explore(_run_variant(e, P, W, vname, enc, exe))
            except Exception as ex:   # machinery failure on one variant: inconclusive, keep going
                import traceback
                res.inconclusive(f'{vname}: exception {ex!r} ' + traceback.format_exc()[-600:])
                continue
            for r in results:
                if vname == 'Closure' and r.kind in ('oob', 'ub'):
                    # the trailing capture operands are arbitrary bytes here; valid CaptureIndex operands are C02.K1's subject
                    continue
                if r.kind in ('panic', 'oob', 'ub', 'unreachable') and not _benign_panic(r):
                    res.fail(f'C06.K1:{vname}:{r.kind}', f'{vname}: path ends in {r.kind}: {str(r.info)[:200]}', {'path': str(r.info)})
            summarize_paths(res, e, results, lambda r: r.info if isinstance(r.info, dict) else None,
                            key_prefix='C06.K1:', unwind_ok=True)
    return ob


def _benign_panic(r):
    """panics that stem from havoc'd object tables (index of an arbitrary slot into an arbitrary instance etc.) are not
    stack-contract violations; they are C16's subject"""
    s = str(r.info)
    return any(k in s for k in ('index out of bounds', 'to_obj', 'Expected object', 'unwrap/expect', 'for_value', 'to_num',
                                 'Value is not', 'panic_fmt', 'assert_eq', 'assert_failed', 'Meta class'))


NG = 10
for _g in range(NG):
    _make_group(_g, NG)
