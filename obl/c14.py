"""C14 — both value representations implement the same language."""
import z3
from vfw.core import obligation, get_program, summarize_paths
from mirsym.engine import Engine
from mirsym.values import *
from mirsym.tys import *
from .vmabs import VmWorld, AbsObj, kind_of

VALUE = 'laythe_core::value::Value'
QNAN = 0x7ffc_0000_0000_0000
TAG_OBJ = 0xc000_0000_0000_0000 | QNAN
TAG_NIL, TAG_FALSE, TAG_TRUE, TAG_UNDEF = QNAN | 1, QNAN | 2, QNAN | 3, QNAN | 4


class NanView:
    """reference decoding of a NaN-boxed value (from the documented bit layout, not from Value's methods)"""

    def __init__(self, bits):
        self.bits = bits
        self.is_num = (bits & QNAN) != QNAN
        self.is_nil = bits == TAG_NIL
        self.is_bool = z3.Or(bits == TAG_FALSE, bits == TAG_TRUE)
        self.boolean = bits == TAG_TRUE
        self.is_undef = bits == TAG_UNDEF
        self.is_obj = (bits & TAG_OBJ) == TAG_OBJ
        self.num = z3.fpBVToFP(bits, F64)
        self.obj_id = bits & ~z3.BitVecVal(TAG_OBJ, 64)

    def well_formed(self):
        return z3.Or(self.is_num, self.is_nil, self.is_bool, self.is_undef, self.is_obj)


class EnumView:
    def __init__(self, e, P, v):
        vd = P.enum_def(VALUE)
        ix = vd.vindex
        t = v.tag if not isinstance(v.tag, int) else bv(v.tag, 64)
        self.v, self._e = v, e
        self.is_num, self.is_bool, self.is_nil = t == ix['Number'], t == ix['Bool'], t == ix['Nil']
        self.is_undef, self.is_obj = t == ix['Undefined'], t == ix['Obj']

    @property
    def num(self):
        return self.v.field(self._e, 'Number', 0, 'f64').get(self._e)

    @property
    def boolean(self):
        return to_z3_bool(self.v.field(self._e, 'Bool', 0, 'bool').get(self._e))

    @property
    def obj_id(self):
        return self.v.field(self._e, 'Obj', 0, 'laythe_core::ObjectRef').get(self._e).id


def _install_obj_models(e, P, nan):
    """object references as identities; in the NaN-boxed build pointer<->integer conversions carry the identity"""
    W = VmWorld(e, P)      # installs the object-reference abstraction (no Vm state is used here)
    if nan:
        class AddrPtr:
            def __init__(self, a):
                self.a = a

            def copy_value(self, eng):
                return self

        def ptr_from_addr(a, to):
            return AddrPtr(a)
        e.ptr_from_addr = ptr_from_addr
        e.model(r'^(std::ptr::|core::ptr::)?NonNull::new_unchecked$', lambda e_, a, c: a[0])
        e.model(r'^(laythe_core::)?(reference::)?(obj_reference::)?ObjectRef::new$',
                lambda e_, a, c: AbsObj(a[0].a, 'ObjectRef') if isinstance(a[0], AddrPtr) else AbsObj(a[0].id, 'ObjectRef'))

        def to_usize(e_, a, c):
            v = a[0]
            while isinstance(v, Ref):
                v = v.cell.get(e_)
            return v.id
        e.model(r'^(laythe_core::)?(\w+::)*(ObjRef|ObjectRef|LyStr|List|Tuple|Instance|Ref)::to_usize$', to_usize)
    return W


def _view(e, P, v, nan):
    if nan:
        return NanView(v.field(e, 0, 'u64').get(e))
    return EnumView(e, P, v)


def _lang_equal(a, b):
    return z3.Or(z3.And(a.is_num, b.is_num, z3.fpEQ(a.num, b.num)),
                 z3.And(a.is_bool, b.is_bool, a.boolean == b.boolean),
                 z3.And(a.is_nil, b.is_nil),
                 z3.And(a.is_undef, b.is_undef),
                 z3.And(a.is_obj, b.is_obj, a.obj_id == b.obj_id))


def _fresh_value(e, P, nan, name):
    v = e.fresh(VALUE, name)
    vw = _view(e, P, v, nan)
    if nan:
        e.assume(vw.well_formed())
        # object payloads are 48-bit, 8-aligned, non-null addresses
        e.assume(z3.Implies(vw.is_obj, z3.And(vw.obj_id != 0, (vw.obj_id & 7) == 0)))
        # numbers the runtime can produce: every non-NaN pattern and NaNs that do not collide with the tag space
    return v, vw


def _mk_kernels(prog, nan):
    suffix = 'boxed' if nan else 'enum'

    @obligation(f'C14.D1.{suffix}.predicates', 'C14', programs=(prog,))
    def predicates(res, tier):
        """is_nil/is_bool/is_num/is_obj/is_undefined/is_false and kind(), to_num/to_bool/to_obj agree with the reference
        decoding for every well-formed value"""
        P = get_program(prog)
        res.bounds = {'values': 'every well-formed Value bit pattern / variant'}
        res.assumptions = ['NaN-boxed numbers exclude the patterns with all QNAN tag bits set (they are the tag space by design)'] if nan else []
        tests = [('is_nil', 'is_nil'), ('is_bool', 'is_bool'), ('is_num', 'is_num'), ('is_obj', 'is_obj'), ('is_undefined', 'is_undef')]
        for meth, attr in tests:
            e = Engine(P, timeout_s=60)
            _install_obj_models(e, P, nan)
            f = P.lookup('Value::' + meth)

            def path(e, f=f, attr=attr, meth=meth):
                v, vw = _fresh_value(e, P, nan, 'v')
                r = e.call(f, [Ref(Cell(v))])
                e.check(to_z3_bool(r) == getattr(vw, attr), f'{suffix}: {meth} agrees with the reference decoding')
                return {'fn': meth}
            rs = e.explore(path)
            _panic_fail(res, rs, f'C14.D1.{suffix}:{meth}')
            summarize_paths(res, e, rs, lambda r: r.info if isinstance(r.info, dict) else None, key_prefix=f'C14.D1.{suffix}:', unwind_ok=False)
        # is_false, kind, accessors
        e = Engine(P, timeout_s=60)
        _install_obj_models(e, P, nan)
        fs = {n: P.lookup('Value::' + n) for n in ('is_false', 'kind', 'to_num', 'to_bool', 'to_obj')}
        vk = P.enum_def('laythe_core::value::ValueKind')

        def path2(e):
            v, vw = _fresh_value(e, P, nan, 'v')
            r = e.call(fs['is_false'], [Ref(Cell(v))])
            e.check(to_z3_bool(r) == z3.And(vw.is_bool, z3.Not(vw.boolean)), f'{suffix}: is_false only for the boolean false')
            k = e.call(fs['kind'], [Ref(Cell(e.copy_value(v)))])
            kt = k.tag if not isinstance(k.tag, int) else bv(k.tag, 64)
            want = z3.If(vw.is_num, bv(vk.vindex['Number'], 64), z3.If(vw.is_bool, bv(vk.vindex['Bool'], 64),
                   z3.If(vw.is_nil, bv(vk.vindex['Nil'], 64), z3.If(vw.is_undef, bv(vk.vindex['Undefined'], 64), bv(vk.vindex['Obj'], 64)))))
            e.check(kt == want, f'{suffix}: kind() names the variant', {'got': str(kt)})
            which = e.concretize(z3.BitVec('which', 64), [0, 1, 2]) if False else None
            if e.fork_bool(vw.is_num):
                x = e.call(fs['to_num'], [e.copy_value(v)])
                e.check(z3.fpToIEEEBV(x) == z3.fpToIEEEBV(vw.num) if nan else x == vw.num, f'{suffix}: to_num returns the stored number bit for bit')
            elif e.fork_bool(vw.is_bool):
                b = e.call(fs['to_bool'], [e.copy_value(v)])
                e.check(to_z3_bool(b) == vw.boolean, f'{suffix}: to_bool returns the stored boolean')
            elif e.fork_bool(vw.is_obj):
                o = e.call(fs['to_obj'], [e.copy_value(v)])
                e.check(o.id == vw.obj_id, f'{suffix}: to_obj returns the stored reference')
            return {'fn': 'is_false/kind/accessors'}
        rs = e.explore(path2)
        _panic_fail(res, rs, f'C14.D1.{suffix}:accessors')
        summarize_paths(res, e, rs, lambda r: r.info if isinstance(r.info, dict) else None, key_prefix=f'C14.D1.{suffix}:', unwind_ok=False)

    @obligation(f'C14.D1.{suffix}.roundtrip', 'C14', programs=(prog,))
    def roundtrip(res, tier):
        """From<f64>/From<bool>/From<Nil>: every number (bit for bit, including -0 and NaNs outside the tag space), boolean and
        nil round-trips through a Value and is classified correctly"""
        P = get_program(prog)
        res.bounds = {'f64': 'all 2^64 bit patterns (boxed: minus the tag space)'}
        e = Engine(P, timeout_s=60)
        _install_obj_models(e, P, nan)
        ffrom = {t: P.lookup(f'<Value as From<{t}>>::from') for t in ('f64', 'bool')}
        fnum, fbool = P.lookup('Value::to_num'), P.lookup('Value::to_bool')

        def path(e):
            bits = z3.BitVec('xbits', 64)
            x = z3.fpBVToFP(bits, F64)
            if nan:
                e.assume((bits & QNAN) != QNAN)
            v = e.call(ffrom['f64'], [x])
            vw = _view(e, P, v, nan)
            e.check(vw.is_num, f'{suffix}: a number is classified as a number')
            y = e.call(fnum, [e.copy_value(v)])
            if nan:
                e.check(z3.fpToIEEEBV(y) == bits if False else _bits_of(e, v) == bits, f'{suffix}: number round-trips bit for bit (sign of zero, NaN payload)')
            else:
                e.check(y == x, f'{suffix}: number round-trips')
            b = z3.Bool('b')
            vb = e.call(ffrom['bool'], [b])
            vbw = _view(e, P, vb, nan)
            e.check(z3.And(vbw.is_bool, vbw.boolean == b), f'{suffix}: boolean round-trips')
            e.check(to_z3_bool(e.call(fbool, [e.copy_value(vb)])) == b, f'{suffix}: to_bool(from(b)) == b')
            return {'fn': 'roundtrip'}
        rs = e.explore(path)
        _panic_fail(res, rs, f'C14.D1.{suffix}:roundtrip')
        summarize_paths(res, e, rs, lambda r: r.info if isinstance(r.info, dict) else None, key_prefix=f'C14.D1.{suffix}:', unwind_ok=False)

    @obligation(f'C14.D1.{suffix}.eq_hash', 'C14', programs=(prog,))
    def eq_hash(res, tier):
        """Value == Value is the language equality (IEEE on numbers: 0 == -0, NaN != NaN) and Hash is consistent with it
        (equal values feed identical data to the hasher)"""
        P = get_program(prog)
        res.bounds = {'values': 'every pair of well-formed values'}
        e = Engine(P, timeout_s=120)
        _install_obj_models(e, P, nan)
        feq = P.lookup('<Value as PartialEq>::eq')
        fhash = P.lookup('<Value as Hash>::hash')
        _hasher_models(e)

        def path(e):
            a, aw = _fresh_value(e, P, nan, 'a')
            b, bw = _fresh_value(e, P, nan, 'b')
            r = to_z3_bool(e.call(feq, [Ref(Cell(a)), Ref(Cell(b))]))
            want = _lang_equal(aw, bw)
            both_num = z3.And(aw.is_num, bw.is_num)
            zeros = z3.And(both_num, z3.fpIsZero(aw.num), z3.fpIsZero(bw.num), z3.fpIsNegative(aw.num) != z3.fpIsNegative(bw.num))
            nans = z3.And(both_num, z3.fpIsNaN(aw.num), z3.fpIsNaN(bw.num))
            cats = [('0 and -0', zeros), ('NaN with NaN', nans), ('other numbers', z3.And(both_num, z3.Not(zeros), z3.Not(nans))),
                    ('non-numbers', z3.Not(both_num))]
            for cname, cc in cats:
                e.check(z3.Implies(cc, r == want), f'{suffix}: == is the language equality [{cname}]',
                        {'note': '0 == -0 must be true and NaN == NaN false in both representations'})
            ha, hb = [], []
            e.call(fhash, [Ref(Cell(e.copy_value(a))), Ref(Cell(HasherV(ha)))])
            e.call(fhash, [Ref(Cell(e.copy_value(b))), Ref(Cell(HasherV(hb)))])
            same = z3.And(*[x == y for x, y in zip(ha, hb)]) if len(ha) == len(hb) and all(x.sort() == y.sort() for x, y in zip(ha, hb)) else z3.BoolVal(False)
            for cname, cc in cats:
                e.check(z3.Implies(z3.And(cc, want), same), f'{suffix}: equal values hash identically [{cname}]',
                        {'note': 'e.g. 0 and -0 must land in the same bucket'})
            return {'fn': 'eq/hash', 'hash_words': len(ha)}
        rs = e.explore(path)
        _panic_fail(res, rs, f'C14.D1.{suffix}:eq_hash')
        summarize_paths(res, e, rs, lambda r: r.info if isinstance(r.info, dict) else None, key_prefix=f'C14.D1.{suffix}:', unwind_ok=False)


def _bits_of(e, v):
    return v.field(e, 0, 'u64').get(e)


class HasherV:
    """records what is fed to a Hasher"""

    def __init__(self, sink):
        self.sink = sink

    def copy_value(self, eng):
        return self


def _hasher_models(e):
    import re

    def sink_of(e_, v):
        while isinstance(v, Ref):
            v = v.cell.get(e_)
        if not isinstance(v, HasherV):
            raise Unsupported('expected a hasher, got ' + type(v).__name__)
        return v.sink

    def h_scalar(e_, a, c):
        x = a[0]
        while isinstance(x, Ref):
            x = x.cell.get(e_)
        if isinstance(x, bool):
            x = z3.BoolVal(x)
        if isinstance(x, EnumV):
            x = e_.discriminant(x, 64)
        if z3.is_bool(x):
            x = z3.If(x, bv(1, 8), bv(0, 8))
        if isinstance(x, AbsObj):
            x = x.id
        sink_of(e_, a[1]).append(x)
        return UNIT
    e.model(r'^<(&)?([iu]\d+|[iu]size|bool|char) as (std::hash::|core::hash::)?Hash>::hash$', h_scalar)
    e.model(r'^core::hash::impls::<impl (std::hash::|core::hash::)?Hash for ([iu]\d+|[iu]size|bool|char)>::hash$', h_scalar)
    e.model(r'^<(std::mem::|core::mem::)?Discriminant as (std::hash::|core::hash::)?Hash>::hash$', h_scalar)
    e.model(r'^<(laythe_core::)?(\w+::)*(ObjectRef|ObjRef|LyStr|List|Tuple|Instance) as (std::hash::|core::hash::)?Hash>::hash$', h_scalar)
    e.model(r'^(std::mem::|core::mem::)?discriminant$', lambda e_, a, c: e_.discriminant(a[0].cell.get(e_), 64))
    e.model(r'^(std::intrinsics::|core::intrinsics::)?discriminant_value$', lambda e_, a, c: e_.discriminant(a[0].cell.get(e_), 64))


def _panic_fail(res, results, key):
    for r in results:
        if r.kind in ('panic', 'oob', 'unreachable', 'ub', 'diverge', 'depth'):
            s = str(r.info)
            res.fail(f'{key}:{r.kind}', f'path ends in {r.kind}: {s[:200]}', {'path': s})


_mk_kernels('core', False)
_mk_kernels('core-nan', True)
