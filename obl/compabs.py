"""Abstraction for executing the compiler's lowering functions from MIR with opaque sub-constructs.

`emit_byte` records the instruction; recursive calls into sub-expressions / sub-statements are replaced by opaque chunks
that (a) record the compiler state the nested code would see (try / loop attributes, scope depth) and (b) obey the
induction hypothesis of the construct kind (an expression pushes one value; a block may declare locals in its scope)."""
import z3
from mirsym.values import *
from mirsym.tys import *
from mirsym.engine import Engine

COMPILER = 'compiler::Compiler'
INS = 'byte_code::SymbolicByteCode'


class CompilerWorld:
    def __init__(self, eng, P, block_locals=2):
        self.e = eng
        self.P = P
        self.block_locals = block_locals
        sd = P.struct_def(COMPILER)
        self.ix = {n: i for i, (n, _) in enumerate(sd.fields)}
        self.fty = {n: t for n, t in sd.fields}
        self.install(eng)

    # ------------------------------------------------------------------ per path
    def fresh_compiler(self, e, name='c'):
        c = e.fresh(COMPILER, name)
        e.path_state['emitted'] = []
        e.path_state['nested'] = []
        e.path_state['compiler'] = c
        # locals: bumpalo vector of Local { symbol, depth }
        return c

    def field(self, e, c, name):
        return c.field(e, self.ix[name], self.fty[name]).get(e)

    def field_cell(self, e, c, name):
        return c.field(e, self.ix[name], self.fty[name])

    def opt_some(self, e, optv):
        """(is_some z3 bool, payload accessor)"""
        t = optv.tag if not isinstance(optv.tag, int) else bv(optv.tag, 64)
        return t == 1

    def attrs(self, e, c):
        """current (try_attributes, loop_attributes, scope_depth) as z3-friendly records"""
        ta = self.field(e, c, 'try_attributes')
        la = self.field(e, c, 'loop_attributes')
        sdp = self.field(e, c, 'scope_depth')
        t_some = self.opt_some(e, ta)
        l_some = self.opt_some(e, la)
        trec = ta.field(e, 'Some', 0, 'compiler::TryAttributes').get(e)
        tsd = self.P.struct_def('compiler::TryAttributes')
        t_sd = trec.field(e, tsd.index_of('scope_depth'), 'usize').get(e)
        tnames = [n for n, _ in tsd.fields]
        t_open = trec.field(e, tsd.index_of('open'), 'usize').get(e) if 'open' in tnames else None
        lrec = la.field(e, 'Some', 0, 'compiler::LoopAttributes').get(e)
        lsd = self.P.struct_def('compiler::LoopAttributes')
        lnames = [n for n, _ in lsd.fields]
        l_open = lrec.field(e, lsd.index_of('open_tries'), 'usize').get(e) if 'open_tries' in lnames else None
        l_sd = lrec.field(e, lsd.index_of('scope_depth'), 'usize').get(e)
        l_start = lrec.field(e, lsd.index_of('start'), 'byte_code::Label').get(e).field(e, 0, 'u32').get(e)
        l_end = lrec.field(e, lsd.index_of('end'), 'byte_code::Label').get(e).field(e, 0, 'u32').get(e)
        if t_open is not None:
            e.add_constraint(z3.ULT(t_open, 1 << 32))
        if l_open is not None:
            e.add_constraint(z3.ULT(l_open, 1 << 32))
        return dict(t_some=t_some, t_sd=t_sd, l_some=l_some, l_sd=l_sd, l_start=l_start, l_end=l_end, depth=sdp,
                    t_open=t_open, l_open=l_open)

    def locals_seq(self, e, c):
        return self.field(e, c, 'locals')

    # ------------------------------------------------------------------ models
    def install(self, eng):
        m = eng.model
        P = self.P

        def comp_of(e, v):
            while isinstance(v, Ref):
                v = v.cell.get(e)
            return v

        def m_emit(e, a, c):
            ins = e.copy_value(a[1])
            e.path_state['emitted'].append(ins)
            return UNIT
        m(r'^(compiler::)?Compiler::emit_byte$', m_emit)
        m(r'^(compiler::)?Compiler::write_instruction$', m_emit)

        def nested(kind):
            def mdl(e, a, c):
                comp = comp_of(e, a[0])
                at = self.attrs(e, comp)
                n = len(e.path_state['nested'])
                e.path_state['nested'].append(dict(kind=kind, at=at, pos=len(e.path_state['emitted'])))
                e.path_state['emitted'].append(('chunk', kind, n))
                if kind in ('block', 'decl'):
                    # a block may declare locals in the current scope (symbolic count, bounded)
                    k = e.concretize(z3.BitVec(e.fresh_name('nlocals'), 64), None) if False else None
                    nl = z3.BitVec(e.fresh_name('nlocals'), 64)
                    e.add_constraint(z3.ULE(nl, self.block_locals))
                    kk = e.concretize(nl)
                    locs = self.locals_seq(e, comp)
                    for _ in range(kk):
                        loc = e.fresh('compiler::Local', e.fresh_name('local'))
                        lsd = P.struct_def('compiler::Local')
                        loc.field(e, lsd.index_of('depth'), 'usize').set(e, at['depth'])
                        locs.store(e, locs.len, loc)
                        locs.len = z3.simplify(locs.len + 1)
                    e.path_state['nested'][-1]['locals_declared'] = kk
                return UNIT
            return mdl
        m(r'^(compiler::)?Compiler::expr$', nested('expr'))
        m(r'^(compiler::)?Compiler::block$', nested('block'))
        m(r'^(compiler::)?Compiler::decl$', nested('decl'))
        m(r'^(compiler::)?Compiler::stmt$', nested('stmt'))

        # bumpalo vectors behave like Vec
        def mat_bvec(e, ty, backing):
            a = ty_args(norm_ty(ty))
            ln = backing.child('len').leaf(e, z3.BitVecSort(64))
            e.add_constraint(z3.ULT(ln, 1 << 16))
            return e.fresh_seq(a[-1], backing.child('buf'), ln)
        eng.materialiser(r'^(\w+::)*Vec<.*>$', mat_bvec)

        # line numbers are not the subject here
        eng.allow_havoc(r'^(compiler::)?(ir::)?(token::)?Token::(str|kind|new)$', r'^(compiler::)?(ir::)?(ast::|token::)?\w+::(start|end|span)$', r'^<.* as (compiler::)?(ir::)?(ast::)?Spanned>::(start|end|span)$',
                        r'^(source::)?(files::)?LineOffsets::\w+$', r'^(std|alloc|core)::fmt::', r'^format$', r'^must_use$', r'Arguments::',
                        r'^(compiler::)?(ir::)?(ast::)?InstanceAccess::property$')


def variant_name(e, ins):
    """variant of an emitted instruction (python str); forks if symbolic"""
    if isinstance(ins, tuple):
        return ins[0] + ':' + ins[1]
    t = ins.tag
    if not isinstance(t, int):
        t = e.concretize(t)
    return ins.edef.variants[t][0]


def emitted_names(e):
    return [variant_name(e, x) for x in e.path_state['emitted']]
