"""C16.K6 — interpreter ops decode their operands only as far as the compiler guarantees.

Every `op_*` of the interpreter runs from MIR on an arbitrary frame (arbitrary stack values, constants, operands).  Each unchecked
decoding of a value (Value::to_obj / to_num / to_bool, ObjectRef::to_str / to_class / ...) met on a path must be implied by a test the
op made itself, or be one of the operand kinds the compiler establishes for that instruction (ALLOW, each with its reason).  What is
left is an operand whose kind the running program controls."""
import re
import z3
from vfw.core import obligation, get_program, summarize_paths
from mirsym.engine import Engine
from mirsym.values import *
from mirsym.tys import *
from .vmabs import VmWorld
from .c01 import END_KINDS, ValView

# (op, decoding) -> why the compiler / VM guarantees the kind
ALLOW = {
    ('op_import', 'to_list'): 'the operand indexes a constant the compiler built itself: the list of path segments of the import statement',
    ('op_import_symbol', 'to_list'): 'as op_import',
    ('op_closure', 'to_fun'): 'the operand indexes a constant the compiler built itself: the function of the closure expression',
    ('op_closure', 'to_box'): 'a capture of a local reads a slot the resolver marked captured, which the function prologue boxed (C02.K2, C02.K1 boxes)',
    ('op_get_box', 'to_box'): 'emitted only for locals the resolver marked captured; their slot is boxed when they are declared (C02.K2)',
    ('op_set_box', 'to_box'): 'as op_get_box',
    ('op_fill_box', 'to_box'): 'follows the EmptyBox the compiler emitted for the same declaration',
    ('op_inherit', 'to_class'): 'the subclass operand is the class op_class pushed just before; the superclass operand is tested by the op (C16.K3)',
    ('op_get_super', 'to_class'): 'the `super` slot is bound to the operand op_inherit accepted, a class (C16.K3)',
    ('op_super_invoke', 'to_class'): 'as op_get_super',
}

F38_SRC = 'class A { str() { return 5; } }\ntry {\n  print("value: ${A()}");\n} catch e: Error {\n  print("caught");\n}\nprint("after");\n'
REPLAYS = {'op_interpolate': dict(kind='lay', source=F38_SRC, bad_re='panicked', expect_stdout='caught\nafter\n')}


def _ops(P):
    src = P.items.files['laythe_vm/src/vm/ops.rs']
    return sorted(set(re.findall(r'pub\(super\) unsafe fn (op_\w+)\(&mut self\)', src)))


def _decode_failures(r):
    """(kind, text) when the path ended in a failed value decoding"""
    if r.kind != 'panic':
        return None
    s = str(r.info)
    for k in ('Value is not', 'Expected object', 'Expected number', 'Expected bool', 'Expected'):
        if k in s:
            return s
    return None


def _sweep(res, tier, shard, nshards):
    P = get_program('vm')
    names = _ops(P)
    decided, outside = [], []
    res.bounds = {'frame': 'arbitrary stack values (well formed), constants, operands', 'loops': 'unrolled 4 times'}
    res.assumptions = [f'{op}/{cast}: {why}' for (op, cast), why in sorted(ALLOW.items())] + ['calls are summarised at resolve_call', 'object tables behind managed references are havoc']
    for i, opname in enumerate(names):
        if i % nshards != shard:
            continue
        f = P.lookup('vm::Vm::' + opname)
        if f is None:
            outside.append(opname + ': not located')
            continue
        e = Engine(P, loop_bound=4, timeout_s=60, max_depth=60, max_paths=300)
        W = VmWorld(e, P)
        W.havoc_objects(e)
        W.summarise_calls(e)

        def path(e, f=f):
            st = W.fresh_state(e)
            e.path_state['casts'] = []
            try:
                e.call(f, [Ref(st.vm_cell)])
            except PathEnd as pe:
                if pe.kind not in END_KINDS:
                    raise
            bad = [(n, w) for n, o, est, w in e.path_state['casts'] if not est]
            return {'op': f.name.split('::')[-1], 'unjustified': bad[:3], 'casts': len(e.path_state['casts'])}
        try:
            results = e.explore(path)
        except Exception as ex:
            outside.append(f'{opname}: {str(ex)[:140]}')
            continue
        seen = set()
        for r in results:
            items = []
            if r.kind == 'ok' and isinstance(r.info, dict):
                items = [(n, str(w)) for n, w in r.info.get('unjustified', [])]
            df = _decode_failures(r)
            if df:
                m_ = re.search(r'(to_obj|to_num|to_bool|to_\w+)', df)
                items.append((m_.group(1) if m_ else 'value decoding', df))
            for cast, where in items:
                if (opname, cast) in ALLOW or (opname, '*') in ALLOW:
                    continue
                key = f'C16.K6:{opname}: {cast} on an operand of unchecked kind'
                if key in seen:
                    continue
                seen.add(key)
                res.fail(key, f'{opname}: {cast} is applied to a value whose kind neither the op nor the compiler establishes', {'where': str(where)[-200:]}, replay=REPLAYS.get(opname))
        res.absorb(e)
        res.paths += len(results)
        res.checks += sum(1 for r in results if r.kind == 'ok')
        unsup = [r for r in results if r.kind in ('unsupported', 'budget')]
        if any(r.kind == 'ok' for r in results):
            res.nontrivial += 1
            decided.append(opname + (' (some paths not encoded)' if unsup else ''))
        elif unsup:
            outside.append(f'{opname}: {str(unsup[0].info)[:140]}')
        else:
            decided.append(opname)
    res.bounds['ops decided'] = decided
    res.outside = (res.outside or []) + ['not encoded: ' + x for x in outside]


NSH = 8
for _sh in range(NSH):
    def _mk(sh=_sh):
        @obligation(f'C16.K6.op_operand_casts.{sh}', 'C16', programs=('vm',))
        def ob(res, tier):
            _sweep(res, tier, sh, NSH)
        ob.__doc__ = ("""every interpreter op (shard %d of %d) from an arbitrary frame: each unchecked decoding of a value is implied by a test the op made
        or by an operand kind the compiler establishes for that instruction (listed with its reason)""" % (sh, NSH))
        from vfw.core import REGISTRY
        for o in REGISTRY.get('C16', []):
            if o.id == f'C16.K6.op_operand_casts.{sh}':
                o.doc = ob.__doc__
    _mk()
