"""C04.C1 — try lowering and exits: every path that leaves n enclosing try blocks deactivates exactly n handlers.

Ghost state: H = the scope depths of the try blocks of the current function that are open at a program point (innermost
last).  The compiler itself remembers only the innermost one (`try_attributes`); the obligations quantify over every H
(|H| <= 3) that is consistent with the compiler state."""
import z3
from vfw.core import obligation, get_program, summarize_paths
from mirsym.engine import Engine
from mirsym.values import *
from mirsym.tys import *
from .compabs import CompilerWorld, emitted_names, variant_name, COMPILER

F5_BREAK = """fn f() {
  while true {
    try {
      try {
        break;
      } catch e: Error {}
    } catch e: Error {}
  }
  return 2;
}
print(f());
raise Error("later");
"""

F5_RETURN = """fn f() {
  try {
    try {
      return 1;
    } catch e: Error {}
  } catch e: Error {}
}
fn g() {
  f();
  raise Error("after");
}
try {
  g();
} catch e: Error {
  print("outer " + e.message);
}
"""


def _ghost_handlers(e, CW, c, at, max_n=3):
    """symbolic list of open try depths consistent with the compiler's try_attributes"""
    nt = z3.BitVec('n_open_tries', 64)
    e.assume(z3.ULE(nt, max_n))
    n = e.concretize(nt)
    hs = [z3.BitVec(f'try_depth_{i}', 64) for i in range(n)]
    for i, h in enumerate(hs):
        e.assume(z3.And(z3.UGE(h, 1), z3.ULE(h, at['depth'])))
        if i:
            e.assume(z3.ULT(hs[i - 1], h))
    if n == 0:
        e.assume(z3.Not(at['t_some']))
    else:
        e.assume(at['t_some'])
        e.assume(at['t_sd'] == hs[-1])
        if at.get('t_open') is not None:
            # bookkeeping established by try_ (checked in C04.C1.scopes): the innermost try knows how many are open
            e.assume(at['t_open'] == n)
    if at.get('l_open') is not None:
        # established by loop_scope (checked in C04.C1.scopes): the loop knows how many try blocks enclose it
        e.assume(z3.Implies(at['l_some'], at['l_open'] == sum([z3.If(z3.ULE(h, at['l_sd']), z3.BitVecVal(1, 64), z3.BitVecVal(0, 64)) for h in hs]) if hs else at['l_open'] == 0))
    return hs


def _setup_locals(e, CW, c, at, maxl=3):
    """locals vector: entries ordered by scope depth (invariant of declare/end_scope)"""
    locs = CW.locals_seq(e, c)
    e.assume(z3.ULE(locs.len, maxl))
    n = e.concretize(locs.len)
    lsd = CW.P.struct_def('compiler::Local')
    depths = []
    for i in range(n):
        el = locs.load(e, bv(i, 64))
        d = el.field(e, lsd.index_of('depth'), 'usize').get(e)
        e.assume(z3.And(z3.UGE(d, 1), z3.ULE(d, at['depth'])))
        if depths:
            e.assume(z3.ULE(depths[-1], d))
        depths.append(d)
    return depths


def _count(names, what):
    return sum(1 for x in names if x == what)


def _exit_obligation(res, fname, kind):
    P = get_program('vm')
    e = Engine(P, loop_bound=6, timeout_s=180, max_depth=60)
    CW = CompilerWorld(e, P)
    f = P.lookup('compiler::Compiler::' + fname)
    # the lookup of `self` made by an initialiser's implicit return is summarised by an arbitrary answer (C02.K2.resolve_local
    # decides the lookup, C02.K2.initializer_returns_self what is emitted from it)
    sed_ = P.enum_def('compiler::ir::symbol_table::SymbolState')
    ed_opt_ = P.enum_def('Option')

    def m_resolve_local(e_, a, c):
        if not e_.fork_bool(z3.Bool(e_.fresh_name('self_found'))):
            return EnumV('Option<(u8, SymbolState)>', 0, None, None, ed_opt_)
        stv = z3.BitVec(e_.fresh_name('self_state'), 64)
        e_.add_constraint(z3.ULT(stv, len(sed_.variants)))
        k = e_.concretize(stv, list(range(len(sed_.variants))))
        tup = Struct('()', {0: Cell(z3.BitVec(e_.fresh_name('self_slot'), 8)), 1: Cell(EnumV('compiler::ir::symbol_table::SymbolState', k, None, None, sed_))}, None)
        return EnumV('Option<(u8, SymbolState)>', 1, {'Some': {0: Cell(tup)}}, None, ed_opt_)
    e.model(r'^(compiler::)?Compiler::resolve_local$', m_resolve_local)

    def path(e):
        c = CW.fresh_compiler(e)
        at = CW.attrs(e, c)
        e.assume(z3.And(z3.UGE(at['depth'], 1), z3.ULT(at['depth'], 1 << 16)))
        if kind in ('break', 'continue'):
            e.assume(at['l_some'])      # the parser rejects break/continue outside a loop
            e.assume(z3.ULT(at['l_sd'], at['depth']))
        hs = _ghost_handlers(e, CW, c, at)
        depths = _setup_locals(e, CW, c, at)
        if kind in ('break', 'continue'):
            tok = e.fresh('compiler::ir::token::Token', 'tok')
            e.call(f, [Ref(Cell(c)), Ref(Cell(tok))])
        elif kind == 'return_value':
            r = e.fresh('compiler::ir::ast::Return', 'ret')
            rsd = P.struct_def('compiler::ir::ast::Return')
            val = r.field(e, rsd.index_of('value'), rsd.fields[rsd.index_of('value')][1]).get(e)
            e.assume(val.tag == 1)
            e.call(f, [Ref(Cell(c)), Ref(Cell(r))])
        else:
            e.call(f, [Ref(Cell(c)), z3.BitVec('line', 32)])
        names = emitted_names(e)
        pops = _count(names, 'PopHandler')
        if kind in ('break', 'continue'):
            required = sum([z3.If(z3.UGT(h, at['l_sd']), 1, 0) for h in hs]) if hs else z3.IntVal(0)
            what = 'every try block that lies inside the loop being left is deactivated'
        else:
            required = z3.IntVal(len(hs))
            what = 'every open try block of the function is deactivated before returning'
        e.check(pops == required, f'{fname}: {what} (handlers popped == try blocks left)',
                {'emitted': names, 'open_tries': len(hs)})
        # transfer instruction and local drops
        if kind in ('break', 'continue'):
            last = e.path_state['emitted'][-1]
            ln = names[-1]
            e.check(ln == ('Jump' if kind == 'break' else 'Loop'), f'{fname}: ends with the loop transfer')
            lab = last.field(e, ln, 0, 'byte_code::Label').get(e).field(e, 0, 'u32').get(e)
            e.check(lab == (at['l_end'] if kind == 'break' else at['l_start']), f'{fname}: targets the loop {"end" if kind == "break" else "start"} label')
            want_drops = sum([z3.If(z3.UGT(d, at['l_sd']), 1, 0) for d in depths]) if depths else z3.IntVal(0)
            e.check(_count(names, 'Drop') == want_drops, f'{fname}: drops exactly the locals declared inside the loop')
            first_transfer = names.index(ln)
            e.check(all(x in ('Drop', 'PopHandler') for x in names[:first_transfer]), f'{fname}: nothing else is emitted')
        else:
            e.check(names[-1] == 'Return', f'{fname}: ends with Return')
        return {'fn': fname, 'open_tries': len(hs), 'emitted': names}
    results = e.explore(path)
    replay = None
    for r in results:
        for label, ok, info in r.checks:
            if not ok and 'handlers popped' in label:
                n_open = (info.get('detail') or {}).get('open_tries')
                key = f'C04.C1:{fname}: only the innermost try is deactivated' if n_open and n_open >= 2 else f'C04.C1:{fname}: handler pops wrong'
                res.fail(key, f'{fname}: with {n_open} nested open try blocks only {_count((info.get("detail") or {}).get("emitted", []), "PopHandler")} handler is popped',
                         info, replay=dict(kind='lay', source=F5_BREAK if kind in ('break', 'continue') else F5_RETURN,
                                           bad_re='non existing stack frame|panicked|outer after|Attempted to pop', bad_exit=[101, 134, 139]))
    for r in results:
        r.checks[:] = [(l, ok, i) for (l, ok, i) in r.checks if not (not ok and 'handlers popped' in l)]
        if r.kind in ('panic', 'oob', 'unreachable', 'ub', 'diverge', 'depth'):
            res.fail(f'C04.C1:{fname}:{r.kind}', f'{fname}: path ends in {r.kind}: {str(r.info)[:200]}', {'path': str(r.info)})
    summarize_paths(res, e, results, lambda r: r.info if isinstance(r.info, dict) else None, key_prefix=f'C04.C1:{fname}:', unwind_ok=True)


@obligation('C04.C1.break', 'C04', programs=('vm',))
def c1_break(res, tier):
    """Compiler::break_ with symbolic loop / try attributes and any list of open try blocks: pops one handler per try block
    that lies inside the loop, drops the loop's locals, jumps to the loop end"""
    res.bounds = {'open_try_blocks': '0..3', 'locals': '0..3', 'scope depths': 'symbolic'}
    _exit_obligation(res, 'break_', 'break')


@obligation('C04.C1.continue', 'C04', programs=('vm',))
def c1_continue(res, tier):
    """Compiler::continue_: same discipline as break, transfer to the loop start"""
    res.bounds = {'open_try_blocks': '0..3', 'locals': '0..3', 'scope depths': 'symbolic'}
    _exit_obligation(res, 'continue_', 'continue')


@obligation('C04.C1.return', 'C04', programs=('vm',))
def c1_return(res, tier):
    """Compiler::return_ / emit_return: every open try block of the function is deactivated before Return"""
    res.bounds = {'open_try_blocks': '0..3'}
    _exit_obligation(res, 'return_', 'return_value')
    _exit_obligation(res, 'emit_return', 'emit_return')


@obligation('C04.C1.scopes', 'C04', programs=('vm',))
def c1_scopes(res, tier):
    """try_ / loop_scope / child: code nested in a try block is compiled with that try as the innermost one and the previous one
    restored afterwards (before the catch clauses); loops leave the try attributes alone; a nested function starts with no
    open try and no loop; the emitted try skeleton registers and deactivates its handler exactly once on every path"""
    P = get_program('vm')
    res.bounds = {'catch_clauses': '1..2', 'locals declared by the nested block': '0..2'}
    # ---- child compiler
    e = Engine(P, loop_bound=4, timeout_s=120)
    CW = CompilerWorld(e, P)
    fchild = P.lookup('compiler::Compiler::child')
    e.allow_havoc(r'^(laythe_core::)?(object::)?(fun::)?FunBuilder::new$', r'^<.* as (std::default::|core::default::)?Default>::default$',
                  r'^(bumpalo::collections::)?Vec::new_in$', r'^(std::vec::|alloc::vec::)?Vec::new$', r'^(std::ptr::|core::ptr::)?NonNull::from$',
                  r'^<.*NonNull.* as .*From.*>::from$', r'^(std::rc::|alloc::rc::)?Rc::clone$', r'^<.*Rc.* as .*Clone>::clone$')

    def child_path(e):
        enc = CW.fresh_compiler(e, 'enclosing')
        name = e.fresh('laythe_core::object::LyStr', 'name') if False else Opaque('LyStr', 'name')
        arity = e.fresh('laythe_core::signature::Arity', 'arity')
        kind = e.fresh('compiler::FunKind', 'kind')
        c = e.call(fchild, [name, arity, kind, Ref(Cell(enc))])
        ta = c.f[CW.ix['try_attributes']].get(e)
        la = c.f[CW.ix['loop_attributes']].get(e)
        e.check(isinstance(ta.tag, int) and ta.tag == 0 or (not isinstance(ta.tag, int) and not e.sat(ta.tag != 0)),
                'child: a nested function starts with no open try block (its returns must not pop the caller\'s handlers)')
        e.check(isinstance(la.tag, int) and la.tag == 0 or (not isinstance(la.tag, int) and not e.sat(la.tag != 0)),
                'child: a nested function starts outside any loop')
        return {'fn': 'child'}
    rs = e.explore(child_path)
    _finish(res, e, rs, 'child')

    # ---- loop_scope
    e = Engine(P, loop_bound=5, timeout_s=120)
    CW = CompilerWorld(e, P)
    floop = P.lookup('compiler::Compiler::loop_scope')

    def loop_path(e):
        c = CW.fresh_compiler(e)
        at0 = CW.attrs(e, c)
        e.assume(z3.And(z3.UGE(at0['depth'], 1), z3.ULT(at0['depth'], 1 << 16)))
        e.assume(CW.locals_seq(e, c).len == 0)
        e.assume(z3.ULT(CW.field(e, c, 'local_tables').len, 1 << 8))
        start = z3.BitVec('start', 32)
        end = z3.BitVec('end', 32)
        lab = lambda x: Struct('byte_code::Label', [x])
        cb = ClosureBlock()
        tbl = Ref(Cell(Opaque('SymbolTable', 'tbl')))
        e.call(floop, [Ref(Cell(c)), z3.BitVec('end_line', 32), lab(start), lab(end), tbl, cb])
        inner = [n for n in e.path_state['nested'] if n['kind'] == 'block']
        e.check(len(inner) == 1, 'loop_scope: the body is compiled once')
        if inner:
            a = inner[0]['at']
            e.check(z3.And(a['l_some'], a['l_sd'] == at0['depth'], a['l_start'] == start, a['l_end'] == end),
                    'loop_scope: the body sees this loop (depth of the enclosing scope, its start and end labels)')
            e.check(z3.And(a['t_some'] == at0['t_some'], z3.Implies(a['t_some'], a['t_sd'] == at0['t_sd'])), 'loop_scope: open try blocks are unaffected by entering a loop')
            e.check(a['depth'] == at0['depth'] + 1, 'loop_scope: the body is one scope deeper')
            if a.get('l_open') is not None:
                e.check(a['l_open'] == z3.If(at0['t_some'], at0['t_open'], z3.BitVecVal(0, 64)), 'loop_scope: the loop records how many try blocks enclose it')
        at1 = CW.attrs(e, c)
        e.check(z3.And(at1['l_some'] == at0['l_some'], z3.Implies(at0['l_some'], z3.And(at1['l_sd'] == at0['l_sd'], at1['l_start'] == at0['l_start'], at1['l_end'] == at0['l_end']))),
                'loop_scope: the enclosing loop is restored afterwards')
        e.check(at1['depth'] == at0['depth'], 'loop_scope: scope depth restored')
        names = emitted_names(e)
        nl = inner[0].get('locals_declared', 0) if inner else 0
        e.check(names == ['chunk:block'] + ['Drop'] * nl + ['Loop', 'Label'], 'loop_scope: body, drops of the body locals, back edge, end label', {'emitted': names})
        return {'fn': 'loop_scope', 'emitted': names}
    rs = e.explore(loop_path)
    _finish(res, e, rs, 'loop_scope')

    # ---- try_
    e = Engine(P, loop_bound=6, timeout_s=180)
    CW = CompilerWorld(e, P)
    ftry = P.lookup('compiler::Compiler::try_')
    e.model(r'^(compiler::)?Compiler::variable_get$', lambda e_, a, c: (e_.path_state['emitted'].append(('chunk', 'getvar', 0)), UNIT)[1])
    e.model(r'^(compiler::)?Compiler::declare_variable$', lambda e_, a, c: Struct('()', [Cell(e_.fresh('compiler::ir::symbol_table::SymbolState', e_.fresh_name('vs'))), Cell(UNIT)]))
    e.model(r'^(compiler::)?Compiler::define_variable$', lambda e_, a, c: _define_catch_var(e_, CW, a))
    e.allow_havoc(r'^(compiler::)?(ir::)?(token::)?Token::new$', r'^(compiler::)?(ir::)?(ast::)?\w+::(start|end|span)$', r'^<.* as (compiler::)?(ir::)?(ast::)?Spanned>::(start|end|span)$')

    def try_path(e):
        c = CW.fresh_compiler(e)
        at0 = CW.attrs(e, c)
        e.assume(z3.And(z3.UGE(at0['depth'], 1), z3.ULT(at0['depth'], 1 << 16)))
        e.assume(CW.locals_seq(e, c).len == 0)
        e.assume(z3.ULT(CW.field(e, c, 'local_tables').len, 1 << 8))
        lbl0 = CW.field(e, c, 'label_emitter').field(e, 0, 'u32').get(e)
        e.assume(z3.ULT(lbl0, 1 << 20))
        t = e.fresh('compiler::ir::ast::Try', 'try')
        tsd = P.struct_def('compiler::ir::ast::Try')
        catches = t.field(e, tsd.index_of('catches'), tsd.fields[tsd.index_of('catches')][1]).get(e)
        e.assume(z3.And(z3.UGE(catches.len, 1), z3.ULE(catches.len, 2)))
        ncatch = e.concretize(catches.len)
        e.call(ftry, [Ref(Cell(c)), Ref(Cell(t))])
        blocks = [n for n in e.path_state['nested'] if n['kind'] == 'block']
        e.check(len(blocks) == 1 + ncatch, 'try_: the try block and every catch block are compiled once')
        a = blocks[0]['at']
        e.check(z3.And(a['t_some'], a['t_sd'] == at0['depth']), 'try_: the try block is compiled with this try as the innermost open one')
        if a.get('t_open') is not None:
            e.check(a['t_open'] == z3.If(at0['t_some'], at0['t_open'], z3.BitVecVal(0, 64)) + 1, 'try_: the try records one more open try block than its surroundings')
        for b in blocks[1:]:
            ab = b['at']
            e.check(z3.And(ab['t_some'] == at0['t_some'], z3.Implies(at0['t_some'], ab['t_sd'] == at0['t_sd'])),
                    'try_: catch blocks are compiled with the enclosing try restored (the handler is already deactivated there)')
        at1 = CW.attrs(e, c)
        e.check(z3.And(at1['t_some'] == at0['t_some'], z3.Implies(at0['t_some'], at1['t_sd'] == at0['t_sd']), at1['depth'] == at0['depth']),
                'try_: try attributes and scope depth restored afterwards')
        names = emitted_names(e)
        bal = _handler_balance(e, e.path_state['emitted'], names, lbl0)
        e.check(bal['ok'], 'try_: on every path through the emitted skeleton the handler is registered once and deactivated exactly once',
                {'emitted': names, 'why': bal['why']})
        return {'fn': 'try_', 'catches': ncatch, 'emitted': names}
    rs = e.explore(try_path)
    _finish(res, e, rs, 'try_')


def _define_catch_var(e, CW, a):
    """define_variable for the catch variable: the error value pushed by GetError becomes a local of the current scope"""
    comp = a[0]
    while isinstance(comp, Ref):
        comp = comp.cell.get(e)
    at = CW.attrs(e, comp)
    locs = CW.locals_seq(e, comp)
    loc = e.fresh('compiler::Local', e.fresh_name('catchvar'))
    lsd = CW.P.struct_def('compiler::Local')
    loc.field(e, lsd.index_of('depth'), 'usize').set(e, at['depth'])
    locs.store(e, locs.len, loc)
    locs.len = z3.simplify(locs.len + 1)
    return UNIT


class ClosureBlock:
    """stand-in for the `|self_| self_.block(..)` callbacks: calls the (opaque) Compiler::block on the compiler it is given"""

    def call(self, eng, args):
        mdl = eng.find_model('Compiler::block')
        from mirsym.engine import CallCtx
        return mdl[0](eng, [args[0], None], CallCtx('Compiler::block', 'Compiler::block', None, None))


def _label_of(e, ins, vname):
    """label operand of a jump-like instruction or a Label"""
    if vname == 'PushHandler':
        tup = ins.field(e, vname, 0, '(u16, byte_code::Label)').get(e)
        return tup.field(e, 1, 'byte_code::Label').get(e).field(e, 0, 'u32').get(e)
    return ins.field(e, vname, 0, 'byte_code::Label').get(e).field(e, 0, 'u32').get(e)


def _handler_balance(e, emitted, names, base=None):
    """explore every control path of the emitted skeleton; handler count relative to entry must be 0 at the normal exit and at
    every rethrow (ContinueUnwind), and the catch label is entered with the handler still registered (+1)"""
    labels = {}
    for i, (ins, n) in enumerate(zip(emitted, names)):
        if n == 'Label':
            lv = _label_of(e, ins, 'Label')
            v = conc(z3.simplify(lv - base)) if base is not None else conc(z3.simplify(lv))
            if v is None:
                raise Unsupported('label value not determined relative to the label counter')
            labels[v] = i

    def target(i):
        v = _label_of(e, emitted[i], names[i])
        c = conc(z3.simplify(v - base)) if base is not None else conc(z3.simplify(v))
        if c is None:
            raise Unsupported('label value not determined relative to the label counter')
        return labels.get(c)
    # find the catch entry: the label PushHandler names
    why = []
    starts = [(0, 0)]
    push_idx = [i for i, n in enumerate(names) if n == 'PushHandler']
    if len(push_idx) != 1:
        return dict(ok=False, why=f'{len(push_idx)} PushHandler instructions')
    ct = target(push_idx[0])
    if ct is None:
        return dict(ok=False, why='catch label not emitted')
    starts.append((ct, 1))
    ok = True
    seen = set()
    work = list(starts)
    steps = 0
    while work:
        i, h = work.pop()
        while True:
            steps += 1
            if steps > 2000:
                return dict(ok=False, why='path explosion')
            if (i, h) in seen:
                break
            seen.add((i, h))
            if i >= len(names):
                if h != 0:
                    ok = False
                    why.append(f'normal exit with handler balance {h}')
                break
            n = names[i]
            if n == 'PushHandler':
                h += 1
            elif n == 'PopHandler':
                h -= 1
                if h < 0:
                    ok = False
                    why.append(f'handler popped that this try never registered (at {i})')
                    break
            elif n == 'ContinueUnwind':
                h -= 1
                if h != 0:
                    ok = False
                    why.append(f'rethrow with handler balance {h}')
                break
            elif n == 'Jump':
                t = target(i)
                if t is None:
                    ok = False
                    why.append('jump to undeclared label')
                    break
                i = t
                continue
            elif n in ('CheckHandler', 'JumpIfFalse'):
                t = target(i)
                if t is None:
                    ok = False
                    why.append('jump to undeclared label')
                    break
                work.append((t, h))
            elif n in ('Return', 'Raise', 'Loop'):
                break
            i += 1
    return dict(ok=ok, why=why)


def _finish(res, e, rs, what):
    for r in rs:
        if r.kind in ('panic', 'oob', 'unreachable', 'ub', 'diverge', 'depth'):
            s = str(r.info)
            if 'overflow' in s and 'label' in s.lower():
                continue
            res.fail(f'C04.C1:{what}:{r.kind}', f'{what}: path ends in {r.kind}: {s[:200]}', {'path': s})
    summarize_paths(res, e, rs, lambda r: r.info if isinstance(r.info, dict) else None, key_prefix=f'C04.C1:{what}:', unwind_ok=True)
