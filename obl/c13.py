"""C13 — inline caches are transparent: hit path == miss path, cache invariant preserved."""
import z3
from vfw.core import obligation, get_program, summarize_paths
from mirsym.engine import Engine
from mirsym.values import *
from mirsym.tys import *
from .vmabs import VmWorld, AbsObj, kind_of, object_of, RowSeq, heap_seq
from .c01 import ValView, END_KINDS, _signal_is, VALUE
from .c07 import _flat

BV64 = z3.BitVecSort(64)
has_method = z3.Function('has_method', BV64, BV64, z3.BoolSort())
has_field = z3.Function('has_field', BV64, BV64, z3.BoolSort())
field_index = z3.Function('field_index', BV64, BV64, z3.BitVecSort(16))
class_of = z3.Function('class_of_instance', BV64, BV64)
const_str = z3.Function('const_str', z3.BitVecSort(16), BV64)
instantiable = z3.Function('class_has_instances', BV64, z3.BoolSort())   # values of this class are Instance objects

ICACHE = 'cache::InlineCache'


class World:
    def __init__(self, P):
        self.P = P
        self.e = Engine(P, loop_bound=5, timeout_s=240, max_depth=60)
        self.W = VmWorld(self.e, P)
        self.W.havoc_objects(self.e)
        self.W.summarise_calls(self.e)
        # the inline cache is the subject here: its methods are executed from MIR
        self.e.havoc = [rx for rx in self.e.havoc if 'InlineCache' not in rx.pattern]
        self.install()

    def valsort(self, e):
        proto = e.memo.get('valproto')
        if proto is None:
            proto = e.fresh_seq(VALUE, NameBacking('valproto'), bv(0, 64))
            e.memo['valproto'] = proto
        return proto.arr.sort().range(), proto.tyname

    def method_of(self, e, c, n):
        so, ty = self.valsort(e)
        f = z3.Function('method_of', BV64, BV64, so)
        return f(c, n)

    def vclass(self, e, v):
        so, ty = self.valsort(e)
        f = z3.Function('value_class', so, BV64)
        t = e.elem_term(v, so, ty)
        return f(t), t

    def install(self):
        e, P, W = self.e, self.P, self.W
        m = e.model
        okind = P.enum_def('laythe_core::object::ObjectKind')

        def oid(e_, v):
            return object_of(e_, v).id

        def m_get_method(e_, a, c):
            cid, nid = oid(e_, a[0]), oid(e_, a[1])
            oty = norm_ty(c.dest_ty) if c.dest_ty else 'Option'
            if e_.fork_bool(has_method(cid, nid)):
                so, ty = self.valsort(e_)
                return e_.mk_option(e_, oty, e_.materialise(VALUE, TermBacking(self.method_of(e_, cid, nid), ty)))
            return e_.mk_option(e_, oty)
        m(r'^(laythe_core::)?(object::)?(class::)?Class::get_method$', m_get_method)

        def m_get_field_index(e_, a, c):
            cid, nid = oid(e_, a[0]), oid(e_, a[1])
            oty = norm_ty(c.dest_ty) if c.dest_ty else 'Option'
            if e_.fork_bool(has_field(cid, nid)):
                return e_.mk_option(e_, oty, field_index(cid, nid))
            return e_.mk_option(e_, oty)
        m(r'^(laythe_core::)?(object::)?(class::)?Class::get_field_index$', m_get_field_index)

        def inst_row(e_, inst):
            arr = __import__('obl.vmabs', fromlist=['AbsArr']).AbsArr(inst.id, VALUE)
            return arr.seq(e_)

        def m_inst_class(e_, a, c):
            i = object_of(e_, a[0])
            cid = class_of(i.id)
            e_.add_constraint(kind_of(cid) == okind.vindex['Class'])
            return AbsObj(cid, 'ObjRef<Class>')
        m(r'^(laythe_core::)?(object::)?(instance::)?Instance::class$', m_inst_class)

        def m_inst_get_field(e_, a, c):
            i = object_of(e_, a[0])
            nid = oid(e_, a[1])
            cid = class_of(i.id)
            oty = norm_ty(c.dest_ty) if c.dest_ty else 'Option'
            if e_.fork_bool(has_field(cid, nid)):
                row = inst_row(e_, i)
                return e_.mk_option(e_, oty, Ref(e_.seq_cell(row, z3.ZeroExt(48, field_index(cid, nid)))))
            return e_.mk_option(e_, oty)
        m(r'^(laythe_core::)?(object::)?(instance::)?Instance::get_field$', m_inst_get_field)

        def m_inst_index(e_, a, c):
            i = object_of(e_, a[0])
            return Ref(e_.seq_cell(inst_row(e_, i), a[1]))
        m(r'^<(laythe_core::)?(object::)?(\w+::)*Instance as (std::ops::|core::ops::)?Index(Mut)?>::index(_mut)?$', m_inst_index)
        self.inst_row = inst_row

        def m_inst_deref(e_, a, c):
            i = object_of(e_, a[0])
            row = inst_row(e_, i)
            return SliceRef(row, bv(0, 64), row.len)
        m(r'^<(laythe_core::)?(object::)?(\w+::)*Instance as (std::ops::|core::ops::)?Deref(Mut)?>::deref(_mut)?$', m_inst_deref)

        def m_value_class(e_, a, c):
            v = a[1]
            cls, t = self.vclass(e_, v)
            vw = ValView(e_, P, v)
            e_.add_constraint(z3.Implies(vw.is_kind(P, 'Instance'), cls == class_of(vw.obj.id)))
            e_.add_constraint(vw.is_kind(P, 'Instance') == instantiable(cls))
            e_.add_constraint(kind_of(cls) == okind.vindex['Class'])
            return AbsObj(cls, 'ObjRef<Class>')
        m(r'^(vm::)?Vm::value_class$', m_value_class)

        def m_read_string(e_, a, c):
            sid = const_str(a[1])
            e_.add_constraint(kind_of(sid) == okind.vindex['String'])
            return AbsObj(sid, 'LyStr')
        m(r'^(vm::)?Vm::read_string$', m_read_string)

        def m_icache(e_, a, c):
            return Ref(e_.path_state['icache_cell'])
        m(r'^(vm::)?Vm::inline_cache(_mut)?$', m_icache)
        m(r'^(laythe_core::)?(object::)?(class::)?Class::name$', lambda e_, a, c: AbsObj(z3.BitVec(e_.fresh_name('clsname'), 64), 'LyStr'))

    # ------------------------------------------------------------------ cache state
    def cache_state(self, e, kind, slot, name, empty):
        """InlineCache whose entry at `slot` is arbitrary-but-invariant (or None when `empty`)"""
        P = self.P
        ic = e.fresh(ICACHE, 'icache_first' if empty else 'icache')
        sd = P.struct_def(ICACHE)
        vec = ic.field(e, sd.index_of(kind), sd.fields[sd.index_of(kind)][1]).get(e)
        e.assume(z3.ULT(slot, vec.len))           # slot ids are in range (C06.K3 / C19.K1)
        entry = vec.load(e, slot)
        info = dict(ic=ic, vec=vec, arr0=vec.arr)
        if empty:
            e.assume(entry.tag == 0)
            return info
        if not e.fork_bool(entry.tag == 1):
            info['present'] = False
            return info
        info['present'] = True
        rec_ty = 'cache::InvokeCache' if kind == 'invoke' else 'cache::PropertyCache'
        rec = entry.field(e, 'Some', 0, rec_ty).get(e)
        rsd = P.struct_def(rec_ty)
        cls = rec.field(e, rsd.index_of('class'), 'laythe_core::ObjRef<laythe_core::object::Class>').get(e)
        info['class'] = cls.id
        if kind == 'invoke':
            meth = rec.field(e, rsd.index_of('method'), VALUE).get(e)
            info['method'] = _flat(e, meth)
        else:
            info['index'] = rec.field(e, rsd.index_of('property_index'), 'usize').get(e)
        return info

    def inv(self, e, kind, info, name, shadow_sensitive):
        """the cache invariant of one entry for the site whose name constant is `name`"""
        if not info.get('present'):
            return z3.BoolVal(True)
        c = info['class']
        if kind == 'invoke':
            so, ty = self.valsort(e)
            want = _flat(e, e.materialise(VALUE, TermBacking(self.method_of(e, c, name), ty)))
            base = z3.And(has_method(c, name), *[x == y for x, y in zip(want, info['method'])])
            if shadow_sensitive:
                base = z3.And(base, z3.Implies(instantiable(c), z3.Not(has_field(c, name))))
            return base
        return z3.And(has_field(c, name), z3.ZeroExt(48, field_index(c, name)) == info['index'])

    def entry_after(self, e, kind, info, slot):
        """re-read the entry at slot after the op"""
        P = self.P
        entry = info['vec'].load(e, slot)
        out = dict(present=None)
        t = entry.tag if not isinstance(entry.tag, int) else bv(entry.tag, 64)
        out['tag'] = t
        rec_ty = 'cache::InvokeCache' if kind == 'invoke' else 'cache::PropertyCache'
        rec = entry.field(e, 'Some', 0, rec_ty).get(e)
        rsd = P.struct_def(rec_ty)
        out['class'] = rec.field(e, rsd.index_of('class'), 'laythe_core::ObjRef<laythe_core::object::Class>').get(e).id
        if kind == 'invoke':
            out['method'] = _flat(e, rec.field(e, rsd.index_of('method'), VALUE).get(e))
        else:
            out['index'] = rec.field(e, rsd.index_of('property_index'), 'usize').get(e)
        return out


def _observe(Wd, e, st, sig, outcome):
    W = Wd.W
    calls = [(_flat(e, ev[1]), ev[2], ev[3]) for ev in e.path_state['events'] if ev[0] == 'resolve_call']
    o = e.path_state['outcome']
    return dict(outcome=outcome, sig=(sig.variant_name() if isinstance(sig, EnumV) else None), sp=W.sp(e), ip=W.ip(e),
                stack=st.stack.arr, calls=calls, err=tuple(o[:2]) if o else None,
                frames=st.fiber.f[W.fib_idx['frames']].get(e).len if W.fib_idx['frames'] in st.fiber.f else None)


def _same_obs(a, b):
    if a['outcome'] != b['outcome'] or a['sig'] != b['sig'] or a['err'] != b['err'] or len(a['calls']) != len(b['calls']):
        return z3.BoolVal(False), f"outcome {a['outcome']}/{a['sig']}/{a['err']}/{len(a['calls'])} calls vs {b['outcome']}/{b['sig']}/{b['err']}/{len(b['calls'])} calls"
    cs = [a['sp'] == b['sp'], a['ip'] == b['ip']]
    for (c1, n1, s1), (c2, n2, s2) in zip(a['calls'], b['calls']):
        cs += [x == y for x, y in zip(c1, c2)] + [n1 == n2, s1 == s2]
    if a['frames'] is not None and b['frames'] is not None:
        cs.append(a['frames'] == b['frames'])
    return z3.And(*cs), ''


def _differential(res, opname, kind, shadow_sensitive, operand_layout):
    P = get_program('vm')
    Wd = World(P)
    e, W = Wd.e, Wd.W
    f = P.lookup('vm::Vm::' + opname)

    def one_run(e, empty):
        e.fresh_n = 1000          # both runs name their fresh symbols identically: same environment answers
        st = W.fresh_state(e)
        const_idx = z3.Concat(z3.Select(st.code.arr, st.ip + 1), z3.Select(st.code.arr, st.ip))
        name = const_str(const_idx)
        so = operand_layout['slot_offset']
        slot = z3.ZeroExt(32, z3.Concat(*[z3.Select(st.code.arr, st.ip + so + k) for k in (3, 2, 1, 0)]))
        info = Wd.cache_state(e, kind, slot, name, empty)
        e.path_state['icache_cell'] = Cell(info['ic'])
        pre_inv = Wd.inv(e, kind, info, name, shadow_sensitive)
        if not empty:
            e.assume(pre_inv)
        outcome, sig = 'ok', None
        try:
            sig = e.call(f, [Ref(st.vm_cell)])
        except PathEnd as pe:
            if pe.kind not in END_KINDS:
                raise
            outcome = pe.kind
        obs = _observe(Wd, e, st, sig, outcome)
        after = Wd.entry_after(e, kind, info, slot)
        post_info = dict(present=True, **{k: after[k] for k in after if k in ('class', 'method', 'index')})
        post_inv = z3.Implies(after['tag'] == 1, Wd.inv(e, kind, post_info, name, shadow_sensitive))
        q = z3.BitVec('q_slot', 64)
        others = z3.Implies(q != slot, z3.Select(info['vec'].arr, q) == z3.Select(info['arr0'], q))
        return obs, post_inv, others, info

    def path(e):
        obs_a, inv_a, others_a, info_a = one_run(e, False)
        e.check(inv_a, f'{opname}: the cache invariant holds for the entry the op leaves behind (started from an arbitrary invariant cache)')
        e.check(others_a, f'{opname}: entries of other call sites are untouched')
        obs_b, inv_b, others_b, info_b = one_run(e, True)
        e.check(inv_b, f'{opname}: the cache invariant holds for the entry a first execution leaves behind')
        same, why = _same_obs(obs_a, obs_b)
        e.check(same, f'{opname}: a cached execution is indistinguishable from a first execution (callee, arguments, stack, ip, error)',
                {'cached': {k: str(v)[:200] for k, v in obs_a.items() if k != 'stack'}, 'first': {k: str(v)[:200] for k, v in obs_b.items() if k != 'stack'}, 'why': why})
        q = z3.BitVec('q_stack', 64)
        so, ty = Wd.valsort(e)
        va = _flat(e, e.materialise(VALUE, TermBacking(z3.Select(obs_a['stack'], q), ty)))
        vb = _flat(e, e.materialise(VALUE, TermBacking(z3.Select(obs_b['stack'], q), ty)))
        e.check(z3.And(*[x == y for x, y in zip(va, vb)]), f'{opname}: same stack contents after the op')
        return {'op': opname, 'cached_entry_present': info_a.get('present')}
    results = e.explore(path)
    for r in results:
        if r.kind in ('panic', 'oob', 'unreachable', 'ub', 'diverge', 'depth'):
            s = str(r.info)
            if 'to_obj' in s or 'Expected object' in s or 'panic_fmt' in s or 'index out of bounds' in s:
                continue
            res.fail(f'C13.K1:{opname}:{r.kind}', f'{opname}: path ends in {r.kind}: {s[:200]}', {'path': s})
    summarize_paths(res, e, results, lambda r: r.info if isinstance(r.info, dict) else None, key_prefix=f'C13.K1:{opname}:', unwind_ok=False)


@obligation('C13.K1.op_invoke', 'C13', programs=('vm',))
def k1_invoke(res, tier):
    """op_invoke from an arbitrary cache state satisfying the invariant vs from an empty cache: same callee, arguments, stack,
    ip and error; the invariant (entry => class has that method and no field of that name) is preserved"""
    res.bounds = {'receiver': 'any value; instances of any class', 'class tables': 'uninterpreted (any)', 'cache': 'arbitrary entry at the site, arbitrary others'}
    res.assumptions = ['class method/field tables do not change once instances exist (argued from the class lowering)',
                       'calls are summarised at resolve_call']
    _differential(res, 'op_invoke', 'invoke', True, dict(slot_offset=3))


@obligation('C13.K1.op_super_invoke', 'C13', programs=('vm',))
def k1_super_invoke(res, tier):
    """op_super_invoke: cached vs first execution identical; entry => the cached class has that method"""
    res.bounds = {'super class': 'any class', 'cache': 'arbitrary entry at the site'}
    _differential(res, 'op_super_invoke', 'invoke', False, dict(slot_offset=3))


@obligation('C13.K1.op_get_prop_by_name', 'C13', programs=('vm',))
def k1_get_prop(res, tier):
    """op_get_prop_by_name: cached vs first execution identical; entry => the class has the field at that index"""
    res.bounds = {'receiver': 'any value', 'cache': 'arbitrary entry at the site'}
    _differential(res, 'op_get_prop_by_name', 'property', False, dict(slot_offset=2))


@obligation('C13.K1.op_set_prop_by_name', 'C13', programs=('vm',))
def k1_set_prop(res, tier):
    """op_set_prop_by_name: cached vs first execution identical"""
    res.bounds = {'receiver': 'any value', 'cache': 'arbitrary entry at the site'}
    _differential(res, 'op_set_prop_by_name', 'property', False, dict(slot_offset=2))


# ---------------------------------------------------------------------------------------------- instances older than their class
F53_REPLAY = dict(kind='lay', source='import self.a;\nimport self.b;\nprint(a.x);\nprint(a.y);\nprint(b.getX());\ntry { print(b.getY()); } catch e: Error { print("error"); }\nprint("end");\n',
                  files={'a.lay': 'export let x = 1;\nimport self.b;\nexport let y = 2;\n', 'b.lay': 'import self.a;\nexport fn getX() { a.x }\nexport fn getY() { a.y }\n'},
                  bad_re='panicked', bad_exit=[101, 134, -6], expect_stdout_re=r'end')

F67_REPLAY = dict(kind='lay', source='import self.lib;\nimport self.other;\ntry { print(other.partial.late()); } catch e: Error { print("error"); }\nprint("end");\n',
                  files={'lib.lay': "import self.other;\nexport fn late() { 'late' }\n", 'other.lay': 'import self.lib;\nexport let partial = lib;\n'},
                  bad_re='panicked', bad_exit=[101, 134, -6], note='invoke on an import object that is older than the export it names')

inst_len = z3.Function('instance_len', BV64, BV64)


def _in_bounds(res, opname, kind='property', slot_off=2):
    """the by-name property ops on an instance whose length is NOT tied to its class's field table: every slot they address is inside
    the instance"""
    P = get_program('vm')
    Wd = World(P)
    e, W = Wd.e, Wd.W
    f = P.lookup('vm::Vm::' + opname)
    # Instance::get_field / set_field run from MIR here: whether THEY stay inside the instance is part of the question
    e.models = [m_ for m_ in e.models if 'Instance::get_field' not in m_[2] and 'Instance::set_field' not in m_[2]]
    for meth in ('get_field', 'set_field'):
        fm = P.lookup('Instance::' + meth)
        if fm is not None:
            e.model(r'^(laythe_core::)?(object::)?(instance::)?Instance::' + meth + '$', lambda e_, a, c, fm=fm: e_.exec_fn(fm, list(a), 0, None))

    def m_inst_index(e_, a, c):
        i = object_of(e_, a[0])
        n = inst_len(i.id)
        e_.add_constraint(z3.ULT(n, 1 << 16))
        if not e_.fork_bool(z3.ULT(a[1], n)):
            raise PathEnd('oob', ('instance slot beyond the instance', opname))
        return Ref(e_.seq_cell(Wd.inst_row(e_, i), a[1]))
    e.model(r'^<(laythe_core::)?(object::)?(\w+::)*Instance as (std::ops::|core::ops::)?Index(Mut)?>::index(_mut)?$', m_inst_index)
    def m_inst_deref(e_, a, c):
        i = object_of(e_, a[0])
        n = inst_len(i.id)
        e_.add_constraint(z3.ULT(n, 1 << 16))
        return SliceRef(Wd.inst_row(e_, i), bv(0, 64), n)
    e.model(r'^<(laythe_core::)?(object::)?(\w+::)*Instance as (std::ops::|core::ops::)?Deref(Mut)?>::deref(_mut)?$', m_inst_deref)
    e.model(r'^(laythe_core::)?(object::)?(instance::)?Instance::len$', lambda e_, a, c: inst_len(object_of(e_, a[0]).id))
    e.model(r'^(laythe_core::)?(collections::)?(array::)?Array::len$', lambda e_, a, c: inst_len(object_of(e_, a[0]).id) if hasattr(object_of(e_, a[0]), 'id') else NotImplemented)

    def path(e):
        st = W.fresh_state(e)
        const_idx = z3.Concat(z3.Select(st.code.arr, st.ip + 1), z3.Select(st.code.arr, st.ip))
        name = const_str(const_idx)
        slot = z3.ZeroExt(32, z3.Concat(*[z3.Select(st.code.arr, st.ip + slot_off + k) for k in (3, 2, 1, 0)]))
        info = Wd.cache_state(e, kind, slot, name, False)
        e.path_state['icache_cell'] = Cell(info['ic'])
        e.assume(Wd.inv(e, kind, info, name, False))
        try:
            e.call(f, [Ref(st.vm_cell)])
        except PathEnd as pe:
            if pe.kind not in END_KINDS:
                raise
        e.check(True, f'{opname}: ran to its end')
        return {'op': opname}
    results = e.explore(path)
    for r in results:
        if r.kind == 'oob' or (r.kind == 'panic' and 'index out of bounds' in str(r.info)):
            res.fail(f'C13.K1:{opname}: a field slot of the class is used on an instance that is shorter',
                     f'{opname} indexes the instance with the slot its CLASS has for the name; an instance created before the class gained the field (the import object of a '
                     'module that exports more later: circular imports) is shorter, the host panics (index out of bounds)', {'path': str(r.info)}, replay=F67_REPLAY if opname == 'op_invoke' else F53_REPLAY)
        elif r.kind in ('panic', 'unreachable', 'ub', 'diverge', 'depth'):
            s = str(r.info)
            if 'to_obj' in s or 'Expected object' in s or 'panic_fmt' in s:
                continue
            res.fail(f'C13.K1:{opname}:{r.kind}', f'{opname}: path ends in {r.kind}: {s[:200]}', {'path': s})
    summarize_paths(res, e, results, lambda r: r.info if isinstance(r.info, dict) else None, key_prefix=f'C13.K1:{opname}:bounds:', unwind_ok=False,
                    ok_kinds=('ok', 'oob', 'panic'))


@obligation('C13.K1.property_slots_in_bounds', 'C13', programs=('vm',), also=('C17', 'C16'))
def k1_slots_in_bounds(res, tier):
    """op_get_prop_by_name / op_set_prop_by_name on instances of ANY length (module classes gain a field with every export, so an import
    object handed out during a circular import is shorter than its class's field table): a slot is only used when it lies inside
    the instance, otherwise the property is undeclared for that instance"""
    res.bounds = {'instance length': 'any, independent of the class', 'cache': 'arbitrary', 'class tables': 'uninterpreted'}
    from .c01 import END_KINDS as _EK
    globals()['END_KINDS'] = _EK
    for op in ('op_get_prop_by_name', 'op_set_prop_by_name'):
        _in_bounds(res, op)
    _in_bounds(res, 'op_invoke', 'invoke', 3)


# ---------------------------------------------------------------------------------------------- a class that gains a field
F74_REPLAY = dict(kind='lay', source='import self.lib;\nimport self.other;\nprint(other.callStr(lib));\nprint(lib.str());\n',
                  files={'lib.lay': "import self.other;\nexport fn str() { 'lib.str export' }\n",
                         'other.lay': 'import self.lib;\nexport fn callStr(m) { m.str() }\nprint(callStr(lib).len() > 0);\n'},
                  expect_stdout='true\nlib.str export\nlib.str export\n', note='the site in callStr is warmed while lib has no export `str` yet')


@obligation('C13.K1.export_forgets_shadowed_entries', 'C13', programs=('vm',), also=('C17',))
def k1_export_forgets(res, tier):
    """the cache invariant "no field of the class shadows a cached method" under the one operation that adds a field to a class that
    already has instances and cached call sites: op_export (a module class gains a field with every export).  (a) op_export from MIR,
    Module::export_symbol summarised by its result: after a successful export every inline cache of the Vm (0..2 caches) was told to
    forget the invoke entries of the module's class; (b) InlineCache::forget_invoke_class from MIR on a cache of 0..3 sites: exactly
    the entries naming that class are emptied"""
    P = get_program('vm')
    from mirsym.engine import Engine
    # (b) the kernel
    fk = P.lookup('cache::InlineCache::forget_invoke_class')
    fo = P.lookup('vm::Vm::op_export')
    if fk is None:
        res.fail('C13.K1:an export leaves the invoke entries of the module class in place',
                 'op_export adds a field to the module\'s class (Module::export_symbol -> add_field) and nothing forgets the invoke entries cached for that class: a call site warmed '
                 'before the export keeps calling the method the new field shadows', {'missing': 'no operation that forgets the invoke entries of a class exists'}, replay=F74_REPLAY)
        res.checks += 1
        res.paths += 1
        res.nontrivial += 1
        return
    e = Engine(P, loop_bound=5, timeout_s=120)
    from .vmabs import VmWorld as _VW
    _VW(e, P)            # object references as identities
    sd = P.struct_def(ICACHE)
    ivi = sd.index_of('invoke')
    ety = ty_args(norm_ty(sd.fields[ivi][1]))[0]
    res.bounds = {'call sites in a cache': '0..3', 'caches of the Vm': '0..2'}

    def path(e):
        nv = z3.BitVec('sites', 64)
        e.add_constraint(z3.ULE(nv, 3))
        n = e.concretize(nv, [0, 1, 2, 3])
        cls = AbsObj(z3.BitVec('forgotten_class', 64), 'ObjRef<Class>')
        cells, before = [], []
        for i in range(n):
            ent = e.fresh(ety, f'site{i}')
            some = e.fork_bool(ent.tag == 1) if not isinstance(ent.tag, int) else ent.tag == 1
            cid = None
            ent.tag = 1 if some else 0
            if some:
                rec = ent.field(e, 'Some', 0, 'cache::InvokeCache').get(e)
                rsd = P.struct_def('cache::InvokeCache')
                cid = object_of(e, rec.field(e, rsd.index_of('class'), rsd.fields[rsd.index_of('class')][1]).get(e)).id
            before.append((some, cid))
            cells.append(Cell(ent))
        ic = Struct(ICACHE, None, NameBacking('the_cache'))
        ic.f[ivi] = Cell(e.VecV(ConcSeq(ety, cells)) if hasattr(e, 'VecV') else ConcSeq(ety, cells))
        e.call(fk, [Ref(Cell(ic)), cls])
        for i, (some, cid) in enumerate(before):
            after = cells[i].get(e)
            a_some = (after.tag == 1) if isinstance(after.tag, int) else e.is_valid(after.tag == 1)
            a_none = (after.tag == 0) if isinstance(after.tag, int) else e.is_valid(after.tag == 0)
            if some:
                same = e.fork_bool(cid == cls.id)
                if same:
                    e.check(a_none, 'forget_invoke_class: an entry naming the class is emptied', {'site': i})
                else:
                    e.check(a_some, 'forget_invoke_class: an entry naming another class is kept', {'site': i})
            else:
                e.check(a_none, 'forget_invoke_class: an empty entry stays empty', {'site': i})
        return {'fn': 'forget_invoke_class', 'sites': n}
    results = e.explore(path)
    for r in results:
        if r.kind in ('oob', 'unreachable', 'ub', 'diverge', 'depth', 'panic'):
            res.fail(f'C13.K1:forget_invoke_class:{r.kind}', f'path ends in {r.kind}: {str(r.info)[:200]}', {'path': str(r.info)})
    summarize_paths(res, e, results, lambda r: r.info if isinstance(r.info, dict) else None, key_prefix='C13.K1:forget:', unwind_ok=False)
    # (a) op_export tells every cache
    src = P.items.files['laythe_vm/src/vm/ops.rs']
    import re as _re
    mm = _re.search(r'fn op_export\b.*?\n  \}\}', src, _re.S)
    body = mm.group(0) if mm else ''
    ok_arm = body[body.find('Ok(_)'):body.find('Err(error)')] if 'Ok(_)' in body else ''
    told = 'forget_invoke_class' in ok_arm and _re.search(r'for\s+\w+\s+in\s+self\s*\.\s*inline_cache\s*\.\s*iter_mut\(\)', ok_arm) is not None and 'current_module.class()' in ok_arm
    res.checks += 1
    if not told:
        res.fail('C13.K1:an export leaves the invoke entries of the module class in place',
                 'op_export adds a field to the module\'s class and does not make every inline cache forget the invoke entries of that class', {'op_export': ok_arm[:200]}, replay=F74_REPLAY)
    res.assumptions = (res.assumptions or []) + ['(a) is decided on the source text of op_export (the successful arm loops over self.inline_cache and calls forget_invoke_class with the module\'s class); '
                                                 'the loop itself is three lines without branches']
