"""List kernels on the block memory model: push / insert / remove / pop are the finite-sequence operations, stay inside their
allocation for every length / capacity / index, and growth by forwarding keeps every alias on the same elements (C11.K1, C10.K1),
and leaves the forwarded block releasable with its own layout (C20.K1)."""
import z3
from vfw.core import obligation, get_program, summarize_paths
from mirsym.engine import Engine
from mirsym.values import *
from mirsym.tys import *
from . import memabs
from .memabs import BlockPtr, elems_of, elem_sort

MSB = 1 << 63


class ListWorld:
    def __init__(self, prog, loop_bound=6):
        self.P = P = get_program(prog)
        self.e = e = Engine(P, loop_bound=loop_bound, timeout_s=600, max_depth=60, max_paths=4000)
        memabs.install(e, P)
        e.allow_havoc(r'^(std|alloc|core)::fmt::', r'^format$', r'Arguments::', r'^(std|core)::panicking::')
        f = [x for x in P.fns if 'list' in x.name and x.name.endswith('::alloc')]
        assert len(f) == 1, [x.name for x in f]
        self.alloc_fn = f[0]
        sd = P.struct_def('laythe_core::managed::allocate::AllocObjResult')
        self.rix = {n: i for i, (n, _) in enumerate(sd.fields)}
        sd = P.struct_def('VecBuilder')
        self.vix = {nm: i for i, (nm, _) in enumerate(sd.fields)}
        self.vsz = P.layout('Value')[0]
        self.hsz = P.layout('object::header::Header')[0]
        self.len_off = 8 if self.hsz <= 8 else None
        W = self

        def m_manage_obj(e_, a, c):
            r = e_.exec_fn(W.alloc_fn, [a[1]], c.frame.depth + 1 if c.frame else 0, None)
            e_.path_state.setdefault('gc_allocs', []).append(r)
            return r.f[W.rix['reference']].get(e_)
        e.model(r'^(laythe_core::)?(hooks::)?GcHooks::manage_obj$', m_manage_obj)
        # temporary roots do not change what the list operations compute (their discipline is C05.K3 / list_growth_protects)
        e.model(r'^(laythe_core::)?(hooks::)?GcHooks::(push_root|pop_roots)$', lambda e_, a, c: UNIT)
        # offsets from the real code
        self.len_off = conc(e.call(P.lookup('get_vector_len_offset'), [], None)) if False else None

    # ---------------------------------------------------------------------------------------------
    def offsets(self, e):
        if getattr(self, '_offs', None) is None:
            fr_subst = {'H': 'object::header::Header', 'T': 'Value'}
            lo = e.exec_fn(self.P.lookup('get_vector_len_offset'), [], 0, fr_subst)
            co = e.exec_fn(self.P.lookup('get_vector_cap_offset'), [], 0, fr_subst)
            do = e.exec_fn(self.P.lookup('get_vector_offset'), [], 0, fr_subst)
            self._offs = (conc(lo), conc(co), conc(do))
        return self._offs

    def new_list(self, e, name='l0', max_len=None):
        """a list built by the real allocation path from an arbitrary slice and capacity"""
        n = z3.BitVec(name + '_len', 64)
        cap = z3.BitVec(name + '_cap', 64)
        e.add_constraint(z3.ULE(n, cap))
        e.add_constraint(z3.ULT(cap, 1 << 40))      # the allocation would fail long before
        if max_len is not None:
            e.add_constraint(z3.ULE(cap, max_len))
        seq = e.fresh_seq('Value', NameBacking(name + '_items'), n)
        vb = Struct('VecBuilder<Value>', {}, None)
        vb.f[self.vix['slice']] = Cell(SliceRef(seq, bv(0, 64), n))
        vb.f[self.vix['cap']] = Cell(cap)
        r = e.exec_fn(self.alloc_fn, [vb], 0, None)
        raw = r.f[self.rix['reference']].get(e)       # RawSharedVector
        lst = Struct('List', {0: Cell(raw)}, None)
        blk = e.path_state['blocks'][-1]
        return lst, blk, seq, n, cap

    def grow_once(self, e, lst, n, cap, name='grown_cap'):
        """forward the list once through the real List::grow with an arbitrary larger capacity"""
        g = self.P.lookup('List::grow')
        ncap = z3.BitVec(name, 64)
        e.add_constraint(z3.ULE(n, ncap))
        e.add_constraint(z3.ULT(ncap, 1 << 40))
        new = e.exec_fn(g, [Ref(Cell(lst)), cap, ncap, Ref(Cell(Opaque('GcHooks', 'hooks')))], 0, None)
        return new, e.path_state['blocks'][-1], ncap

    def final_block(self, e, blk):
        wp = e.path_state.get('word_ptrs', {})
        lo, co, do = self.offsets(e)
        seen = 0
        while seen < 8:
            seen += 1
            nxt = wp.get((blk.name, str(lo)))
            if nxt is None:
                return blk
            blk = nxt.blk
        raise Unsupported('forwarding chain too long')

    def view(self, e, blk):
        lo, co, do = self.offsets(e)
        ln = z3.simplify(z3.Select(blk.words, bv(lo, 64)))
        cp = z3.simplify(z3.Select(blk.words, bv(co, 64)))
        el = elems_of(blk, 'Value')
        sz = self.vsz
        return ln, cp, (lambda i: z3.Select(el, bv(do, 64) + i * sz))

    def val(self, e, name):
        t = z3.Const(name, elem_sort('Value'))
        return e.materialise('Value', TermBacking(t, sort_name('Value'))), t

    def term_of(self, e, v):
        while isinstance(v, Ref):
            v = v.cell.get(e)
        return e.elem_term(v, elem_sort('Value'), sort_name('Value'))

    def common_post(self, e, blk0, cap0, fin, what):
        """representation invariant of the final block and of a block that was forwarded during the operation"""
        lo, co, do = self.offsets(e)
        ln, cp, _ = self.view(e, fin)
        e.check(z3.ULE(ln, cp), f'{what}: length <= capacity afterwards')
        e.check(z3.ULT(cp, MSB), f'{what}: the live vector is not flagged as moved')
        e.check(fin.size == bv(do, 64) + cp * self.vsz, f'{what}: the capacity word of the live vector describes its allocation')
        if fin is not blk0:
            c0 = z3.simplify(z3.Select(blk0.words, bv(co, 64)))
            e.check(z3.UGE(c0, MSB), f'{what}: a forwarded vector is flagged as moved')
            e.check((c0 & (MSB - 1)) == cap0, f'{what}: a forwarded vector keeps its own capacity (it is released with the layout it was obtained with)')

    def alias_sees(self, e, lst0, fin, what):
        """every alias of the original address reaches the live vector: real len() and item_ptr() through the old reference"""
        lo, co, do = self.offsets(e)
        ln, cp, el = self.view(e, fin)
        raw = lst0.f[0].get(e)
        sub = {'T': 'Value', 'H': 'object::header::Header'}
        l2 = e.exec_fn(self.P.lookup('RawSharedVector::len'), [Ref(Cell(raw))], 0, sub)
        e.check(l2 == ln, f'{what}: an alias of the old address sees the new length')
        i = z3.BitVec('alias_i', 64)
        e.add_constraint(z3.ULT(i, 1 << 40))
        p = e.exec_fn(self.P.lookup('RawSharedVector::item_ptr'), [Ref(Cell(raw)), i], 0, sub)
        e.check(isinstance(p, BlockPtr) and p.blk is fin and z3.simplify(p.off) .eq(z3.simplify(bv(do, 64) + i * self.vsz)) or
                (isinstance(p, BlockPtr) and p.blk is fin and p.off == bv(do, 64) + i * self.vsz),
                f'{what}: an alias of the old address reads and writes the elements of the live vector')


def _finish(res, e, results, prefix):
    for r in results:
        if r.kind in ('oob', 'unreachable', 'ub', 'diverge', 'depth', 'panic'):
            res.fail(f'{prefix}{r.kind}', f'path ends in {r.kind}: {str(r.info)[:300]}', {'path': str(r.info)})
    summarize_paths(res, e, results, lambda r: r.info if isinstance(r.info, dict) else None, key_prefix=prefix, unwind_ok=False)


def _variants():
    for prog in ('core', 'core-nan'):
        for fwd in (0, 1, 2):
            yield prog, fwd


for _prog, _fwd in _variants():
    def _mk(prog=_prog, fwd=_fwd):
        sfx = ('' if prog == 'core' else '.nan') + ('', '.forwarded', '.forwarded2')[fwd]
        props = ('C11', 'C10', 'C20')
        bounds = {'length': 'any <= capacity', 'capacity': 'any < 2^40', 'index': 'any usize', 'start state': ('freshly allocated by the real alloc', 'forwarded once by the real grow', 'forwarded twice by the real grow (alias of the first address)')[fwd]}

        def setup(W, e):
            lst, blk0, seq, n, cap = W.new_list(e)
            cur_cap = cap
            if fwd >= 1:
                new1, blk1, ncap = W.grow_once(e, lst, n, cap)
                cur_cap = ncap
            if fwd >= 2:
                _, blk2, ncap2 = W.grow_once(e, new1, n, ncap, 'grown_cap2')
                cur_cap = ncap2
            old = lambda i: z3.Select(seq.arr, i)
            return lst, blk0, old, n, cap, cur_cap

        def skolem(e, name, bound):
            i = z3.BitVec(name, 64)
            return i

        @obligation('C11.K1.list_push' + sfx, 'C11', programs=(prog,), also=('C10', 'C20'))
        def k_push(res, tier):
            """List::push on any list: the result is the old sequence with the value appended, every access stays inside its block,
            growth forwards every alias to the new block"""
            res.bounds = bounds
            W = ListWorld(prog)
            e = W.e

            def path(e):
                lst, blk0, old, n, cap, cur_cap = setup(W, e)
                nblocks = len(e.path_state['blocks'])
                v, vt = W.val(e, 'pushed')
                e.call(W.P.lookup('List::push'), [Ref(Cell(lst)), v, Ref(Cell(Opaque('GcHooks', 'hooks')))])
                fin = W.final_block(e, blk0)
                ln, cp, el = W.view(e, fin)
                e.check(ln == n + 1, 'push: the length grows by one')
                i = skolem(e, 'i', n)
                e.check(z3.Implies(z3.ULT(i, n), el(i) == old(i)), 'push: the existing elements are unchanged, in order')
                e.check(el(n) == vt, 'push: the new last element is the pushed value')
                grew = len(e.path_state['blocks']) > nblocks
                e.check(z3.BoolVal(grew) == z3.UGE(n, cur_cap), 'push: a new block is obtained exactly when the list is full')
                W.common_post(e, blk0, cap, fin, 'push')
                W.alias_sees(e, lst, fin, 'push')
                return {'op': 'push', 'grew': grew, 'forwarded_start': fwd}
            _finish(res, e, e.explore(path), 'C11.K1:push:')

        @obligation('C11.K1.list_insert' + sfx, 'C11', programs=(prog,), also=('C10', 'C20'))
        def k_insert(res, tier):
            """List::insert at any index: sequence insertion, or OutOfBounds with the list unchanged"""
            res.bounds = bounds
            W = ListWorld(prog)
            e = W.e

            def path(e):
                lst, blk0, old, n, cap, cur_cap = setup(W, e)
                v, vt = W.val(e, 'inserted')
                idx = z3.BitVec('index', 64)
                r = e.call(W.P.lookup('List::insert'), [Ref(Cell(lst)), idx, v, Ref(Cell(Opaque('GcHooks', 'hooks')))])
                fin = W.final_block(e, blk0)
                ln, cp, el = W.view(e, fin)
                i = skolem(e, 'i', n)
                ok = isinstance(r, EnumV) and r.tag == 0
                e.check(z3.BoolVal(ok) == z3.ULE(idx, n), 'insert: succeeds exactly for 0 <= index <= len')
                if ok:
                    e.check(ln == n + 1, 'insert: the length grows by one')
                    e.check(z3.Implies(z3.ULT(i, idx), el(i) == old(i)), 'insert: elements before the index are unchanged')
                    e.check(el(idx) == vt, 'insert: the element at the index is the inserted value')
                    e.check(z3.Implies(z3.And(z3.ULE(idx, i), z3.ULT(i, n)), el(i + 1) == old(i)), 'insert: elements from the index on move up by one, in order')
                else:
                    e.check(ln == n, 'insert: out of bounds leaves the length unchanged')
                    e.check(z3.Implies(z3.ULT(i, n), el(i) == old(i)), 'insert: out of bounds leaves the elements unchanged')
                W.common_post(e, blk0, cap, fin, 'insert')
                W.alias_sees(e, lst, fin, 'insert')
                return {'op': 'insert', 'ok': ok, 'forwarded_start': fwd}
            _finish(res, e, e.explore(path), 'C11.K1:insert:')

        @obligation('C11.K1.list_remove' + sfx, 'C11', programs=(prog,), also=('C10', 'C20'))
        def k_remove(res, tier):
            """List::remove at any index: sequence removal returning the removed element, or OutOfBounds with the list unchanged"""
            res.bounds = bounds
            W = ListWorld(prog)
            e = W.e

            def path(e):
                lst, blk0, old, n, cap, cur_cap = setup(W, e)
                idx = z3.BitVec('index', 64)
                r = e.call(W.P.lookup('List::remove'), [Ref(Cell(lst)), idx])
                fin = W.final_block(e, blk0)
                ln, cp, el = W.view(e, fin)
                i = skolem(e, 'i', n)
                ok = isinstance(r, EnumV) and r.tag == 0
                e.check(z3.BoolVal(ok) == z3.ULT(idx, n), 'remove: succeeds exactly for 0 <= index < len')
                if ok:
                    got = W.term_of(e, e.payload0(r, 'Ok'))
                    e.check(got == old(idx), 'remove: returns the element that was at the index')
                    e.check(ln == n - 1, 'remove: the length shrinks by one')
                    e.check(z3.Implies(z3.ULT(i, idx), el(i) == old(i)), 'remove: elements before the index are unchanged')
                    e.check(z3.Implies(z3.And(z3.ULE(idx, i), z3.ULT(i, n - 1)), el(i) == old(i + 1)), 'remove: elements after the index move down by one, in order')
                else:
                    e.check(ln == n, 'remove: out of bounds leaves the length unchanged')
                    e.check(z3.Implies(z3.ULT(i, n), el(i) == old(i)), 'remove: out of bounds leaves the elements unchanged')
                W.common_post(e, blk0, cap, fin, 'remove')
                return {'op': 'remove', 'ok': ok, 'forwarded_start': fwd}
            _finish(res, e, e.explore(path), 'C11.K1:remove:')

        @obligation('C11.K1.list_pop' + sfx, 'C11', programs=(prog,), also=('C10', 'C20'))
        def k_pop(res, tier):
            """List::pop: None on the empty list, otherwise the last element and the list without it"""
            res.bounds = bounds
            W = ListWorld(prog)
            e = W.e

            def path(e):
                lst, blk0, old, n, cap, cur_cap = setup(W, e)
                r = e.call(W.P.lookup('List::pop'), [Ref(Cell(lst))])
                fin = W.final_block(e, blk0)
                ln, cp, el = W.view(e, fin)
                i = skolem(e, 'i', n)
                some = isinstance(r, EnumV) and r.tag == 1
                e.check(z3.BoolVal(some) == (n != 0), 'pop: returns an element exactly when the list is not empty')
                if some:
                    got = W.term_of(e, e.payload0(r, 'Some'))
                    e.check(got == old(n - 1), 'pop: returns the last element')
                    e.check(ln == n - 1, 'pop: the length shrinks by one')
                else:
                    e.check(ln == n, 'pop: the empty list stays empty')
                e.check(z3.Implies(z3.ULT(i, ln), el(i) == old(i)), 'pop: the remaining elements are unchanged')
                W.common_post(e, blk0, cap, fin, 'pop')
                return {'op': 'pop', 'some': some, 'forwarded_start': fwd}
            _finish(res, e, e.explore(path), 'C11.K1:pop:')
    _mk()


# ------------------------------------------------------------------------------------------------------------------
# the list natives (laythe_lib) on top of the kernels: argument decoding (numbers to indices), error cases, receiver unchanged
class NativeWorld(ListWorld):
    def __init__(self, prog='vm'):
        super().__init__(prog)
        e = self.e
        W = self
        ed = self.P.enum_def('Result')

        def m_call_error(e_, a, c):
            e_.path_state.setdefault('native_events', []).append(('error',))
            inst = Opaque('Instance', 'error_instance')
            le = EnumV('LyError', 0, {'Err': {0: Cell(inst)}}, None, W.P.enum_def('LyError'))
            return EnumV('Result<Value, LyError>', 1, {'Err': {0: Cell(le)}}, None, ed)
        e.model(r'^(laythe_lib::)?(\w+::)*\w+::call_error$', m_call_error)
        e.model(r'^must_use$', lambda e_, a, c: a[0])
        e.model(r'^<str as (std::string::|alloc::string::)?ToString>::to_string$', lambda e_, a, c: Opaque('String', 'message'))
        e.model(r'^(laythe_core::)?(hooks::)?Hooks::as_gc$', lambda e_, a, c: Opaque('GcHooks', 'gc_hooks'))

        def m_scan(e_, a, c):
            e_.path_state.setdefault('native_events', []).append(('scan_roots',))
            return UNIT
        e.model(r'^(laythe_core::)?(hooks::)?Hooks::scan_roots$', m_scan)

    def num(self, e, name):
        x = z3.FP(name, z3.Float64())
        f = self.P.lookup('<Value as From<f64>>::from')
        return e.exec_fn(f, [x], 0, None), x

    def list_value(self, e, lst):
        f = self.P.lookup('<Value as From<List>>::from')
        return e.exec_fn(f, [Struct('List', {0: Cell(e.copy_value(lst.f[0].get(e)))}, None)], 0, None)

    def call_native(self, e, name, args):
        f = self.P.lookup(f'<{name} as LyNative>::call')
        if f is None:
            raise Unsupported('no MIR for native ' + name)
        seq = ConcSeq('Value', [Cell(a) for a in args])
        me = e.fresh(name, 'native_self') if self.P.struct_def(name) is not None and self.P.struct_def(name).fields else Struct(name, {}, None)
        return e.exec_fn(f, [Ref(Cell(me)), Ref(Cell(Opaque('Hooks', 'hooks'))), SliceRef(seq, bv(0, 64), bv(len(args), 64))], 0, None)


def _integral(x):
    return z3.And(z3.Not(z3.fpIsNaN(x)), z3.Not(z3.fpIsInf(x)), z3.fpEQ(z3.fpRoundToIntegral(z3.RTZ(), x), x))


def _fp_of(n):
    return z3.fpUnsignedToFP(z3.RNE(), n, z3.Float64())


def _native_variants():
    for fwd in (0, 1):
        yield fwd


for _fwd in _native_variants():
    def _mkn(fwd=_fwd):
        sfx = ('', '.forwarded')[fwd]
        bounds = {'length': 'any <= capacity < 2^40', 'index argument': 'every f64 (NaN, infinities, fractions, negatives included)',
                  'start state': ('fresh', 'forwarded once')[fwd], 'representation': 'tagged enum'}

        def setup(W, e):
            lst, blk0, seq, n, cap = W.new_list(e)
            cur = cap
            if fwd:
                _, _, ncap = W.grow_once(e, lst, n, cap)
                cur = ncap
            return lst, blk0, (lambda i: z3.Select(seq.arr, i)), n, cap, cur

        def is_ok(r):
            return isinstance(r, EnumV) and r.tag == 0

        @obligation('C11.K2.native_remove' + sfx, 'C11', programs=('vm',))
        def n_remove(res, tier):
            """list.remove(x) for every number x: removes and returns element x exactly when x is an integer with 0 <= x < len,
            otherwise raises and leaves the list unchanged"""
            res.bounds = bounds
            W = NativeWorld()
            e = W.e

            def path(e):
                lst, blk0, old, n, cap, cur = setup(W, e)
                xv, x = W.num(e, 'x')
                r = W.call_native(e, 'ListRemove', [W.list_value(e, lst), xv])
                fin = W.final_block(e, blk0)
                ln, cp, el = W.view(e, fin)
                i = z3.BitVec('i', 64)
                valid = z3.And(_integral(x), z3.fpGEQ(x, z3.FPVal(0.0, z3.Float64())), z3.fpLT(x, _fp_of(n)))
                ok = is_ok(r)
                e.check(z3.BoolVal(ok) == valid, 'remove(x): succeeds exactly when x is an integer with 0 <= x < len', {'x': str(x)})
                if ok:
                    idx = z3.fpToUBV(z3.RTZ(), x, z3.BitVecSort(64))
                    got = W.term_of(e, e.payload0(r, 'Ok'))
                    e.check(z3.Implies(valid, got == old(idx)), 'remove(x): returns the element at x')
                    e.check(z3.Implies(valid, ln == n - 1), 'remove(x): the length shrinks by one')
                    e.check(z3.Implies(z3.And(valid, z3.ULT(i, idx)), el(i) == old(i)), 'remove(x): elements before x are unchanged')
                    e.check(z3.Implies(z3.And(valid, z3.ULE(idx, i), z3.ULT(i, n - 1)), el(i) == old(i + 1)), 'remove(x): elements after x move down')
                else:
                    e.check(ln == n, 'remove(x): an error leaves the length unchanged')
                    e.check(z3.Implies(z3.ULT(i, n), el(i) == old(i)), 'remove(x): an error leaves the elements unchanged')
                return {'native': 'ListRemove', 'ok': ok}
            _finish(res, e, e.explore(path), 'C11.K2:remove:')

        @obligation('C11.K2.native_insert' + sfx, 'C11', programs=('vm',))
        def n_insert(res, tier):
            """list.insert(x, v) for every number x: inserts v before element x exactly when x is an integer with 0 <= x <= len,
            otherwise raises and leaves the list unchanged"""
            res.bounds = bounds
            W = NativeWorld()
            e = W.e

            def path(e):
                lst, blk0, old, n, cap, cur = setup(W, e)
                xv, x = W.num(e, 'x')
                v, vt = W.val(e, 'inserted')
                r = W.call_native(e, 'ListInsert', [W.list_value(e, lst), xv, v])
                fin = W.final_block(e, blk0)
                ln, cp, el = W.view(e, fin)
                i = z3.BitVec('i', 64)
                valid = z3.And(_integral(x), z3.fpGEQ(x, z3.FPVal(0.0, z3.Float64())), z3.fpLEQ(x, _fp_of(n)))
                ok = is_ok(r)
                e.check(z3.BoolVal(ok) == valid, 'insert(x, v): succeeds exactly when x is an integer with 0 <= x <= len', {'x': str(x)})
                if ok:
                    idx = z3.fpToUBV(z3.RTZ(), x, z3.BitVecSort(64))
                    e.check(z3.Implies(valid, ln == n + 1), 'insert(x, v): the length grows by one')
                    e.check(z3.Implies(valid, el(idx) == vt), 'insert(x, v): element x is v')
                    e.check(z3.Implies(z3.And(valid, z3.ULT(i, idx)), el(i) == old(i)), 'insert(x, v): elements before x are unchanged')
                    e.check(z3.Implies(z3.And(valid, z3.ULE(idx, i), z3.ULT(i, n)), el(i + 1) == old(i)), 'insert(x, v): elements from x on move up')
                else:
                    e.check(ln == n, 'insert(x, v): an error leaves the length unchanged')
                    e.check(z3.Implies(z3.ULT(i, n), el(i) == old(i)), 'insert(x, v): an error leaves the elements unchanged')
                return {'native': 'ListInsert', 'ok': ok}
            _finish(res, e, e.explore(path), 'C11.K2:insert:')

        @obligation('C11.K2.native_index_get' + sfx, 'C11', programs=('vm',))
        def n_index_get(res, tier):
            """list[x] for every number x: element x, counting from the end for negative x, exactly when x is an integer with
            -len <= x < len; otherwise raises"""
            res.bounds = bounds
            W = NativeWorld()
            e = W.e

            def path(e):
                lst, blk0, old, n, cap, cur = setup(W, e)
                xv, x = W.num(e, 'x')
                r = W.call_native(e, 'ListIndexGet', [W.list_value(e, lst), xv])
                fin = W.final_block(e, blk0)
                ln, cp, el = W.view(e, fin)
                zero = z3.FPVal(0.0, z3.Float64())
                valid = z3.And(_integral(x), z3.fpGEQ(x, z3.fpNeg(_fp_of(n))), z3.fpLT(x, _fp_of(n)))
                ok = is_ok(r)
                e.check(z3.BoolVal(ok) == valid, 'list[x]: succeeds exactly when x is an integer with -len <= x < len', {'x': str(x)})
                if ok:
                    pos = z3.fpToUBV(z3.RTZ(), z3.fpAbs(x), z3.BitVecSort(64))
                    idx = z3.If(z3.fpLT(x, zero), n - pos, pos)
                    got = W.term_of(e, e.payload0(r, 'Ok'))
                    e.check(z3.Implies(valid, got == old(idx)), 'list[x]: is element x (negative x counts from the end)')
                e.check(ln == n, 'list[x]: the list is unchanged')
                return {'native': 'ListIndexGet', 'ok': ok}
            _finish(res, e, e.explore(path), 'C11.K2:index_get:')

        @obligation('C11.K2.native_index_set' + sfx, 'C11', programs=('vm',))
        def n_index_set(res, tier):
            """list[x] = v for every number x: replaces exactly element x (negative x from the end) when x is an integer with
            -len <= x < len; otherwise raises and leaves the list unchanged"""
            res.bounds = bounds
            W = NativeWorld()
            e = W.e

            def path(e):
                lst, blk0, old, n, cap, cur = setup(W, e)
                xv, x = W.num(e, 'x')
                v, vt = W.val(e, 'stored')
                r = W.call_native(e, 'ListIndexSet', [W.list_value(e, lst), v, xv])
                fin = W.final_block(e, blk0)
                ln, cp, el = W.view(e, fin)
                zero = z3.FPVal(0.0, z3.Float64())
                i = z3.BitVec('i', 64)
                valid = z3.And(_integral(x), z3.fpGEQ(x, z3.fpNeg(_fp_of(n))), z3.fpLT(x, _fp_of(n)))
                ok = is_ok(r)
                e.check(z3.BoolVal(ok) == valid, 'list[x] = v: succeeds exactly when x is an integer with -len <= x < len', {'x': str(x)})
                e.check(ln == n, 'list[x] = v: the length is unchanged')
                if ok:
                    pos = z3.fpToUBV(z3.RTZ(), z3.fpAbs(x), z3.BitVecSort(64))
                    idx = z3.If(z3.fpLT(x, zero), n - pos, pos)
                    e.check(z3.Implies(valid, el(idx) == vt), 'list[x] = v: element x is v afterwards')
                    e.check(z3.Implies(z3.And(valid, z3.ULT(i, n), i != idx), el(i) == old(i)), 'list[x] = v: every other element is unchanged')
                else:
                    e.check(z3.Implies(z3.ULT(i, n), el(i) == old(i)), 'list[x] = v: an error leaves the elements unchanged')
                return {'native': 'ListIndexSet', 'ok': ok}
            _finish(res, e, e.explore(path), 'C11.K2:index_set:')
    _mkn()


for _fwd in (0, 1, 2):
    def _mkc(fwd=_fwd):
        sfx = ('', '.forwarded', '.forwarded2')[fwd]

        @obligation('C11.K2.native_clear' + sfx, 'C11', programs=('vm',), also=('C10',))
        def n_clear(res, tier):
            """list.clear() on a list reached through an alias that is 0 / 1 / 2 forwarding hops behind the live vector: afterwards the
            list is empty for every alias, the capacity and the blocks are untouched"""
            res.bounds = {'length': '0..3 (the native pops element by element)', 'capacity': 'any', 'start state': ('fresh', 'forwarded once', 'forwarded twice')[fwd]}
            W = NativeWorld()
            e = W.e
            e.loop_bound = 8

            def path(e):
                lst, blk0, seq, n, cap = W.new_list(e, max_len=None)
                e.add_constraint(z3.ULE(n, 3))
                cur = cap
                if fwd >= 1:
                    new1, _, ncap = W.grow_once(e, lst, n, cap)
                    cur = ncap
                if fwd >= 2:
                    _, _, ncap2 = W.grow_once(e, new1, n, ncap, 'grown_cap2')
                    cur = ncap2
                nblocks = len(e.path_state['blocks'])
                r = W.call_native(e, 'ListClear', [W.list_value(e, lst)])
                fin = W.final_block(e, blk0)
                ln, cp, el = W.view(e, fin)
                e.check(isinstance(r, EnumV) and r.tag == 0, 'clear: succeeds')
                e.check(ln == 0, 'clear: the live vector is empty afterwards')
                e.check(cp == cur, 'clear: the capacity is unchanged')
                e.check(len(e.path_state['blocks']) == nblocks, 'clear: no block is obtained')
                W.alias_sees(e, lst, fin, 'clear')
                return {'native': 'ListClear', 'hops': fwd}
            _finish(res, e, e.explore(path), 'C11.K2:clear:')
    _mkc()


for _fwd in (0, 1):
    def _mks(fwd=_fwd):
        sfx = ('', '.forwarded')[fwd]

        @obligation('C11.K2.native_slice' + sfx, 'C11', programs=('vm',))
        def n_slice(res, tier):
            """list.slice(a, b) with the conversion of each argument to a position summarised (any usize, or an error): never panics,
            returns a NEW list holding exactly the elements of the clamped range [a, b), the empty list when the range is empty,
            propagates the conversion error; the receiver is unchanged.  The conversion itself is C11.K2.slice_index"""
            res.bounds = {'length': 'any <= capacity < 2^40', 'positions': 'any usize each (the conversion of the numbers is summarised)', 'start state': ('fresh', 'forwarded once')[fwd]}
            W = NativeWorld()
            e = W.e
            RES = W.P.enum_def('Result')

            def m_index(e_, a, c):
                k = len(e_.path_state.setdefault('positions', []))
                if e_.fork_bool(z3.Bool(f'position{k}_rejected')):
                    e_.path_state['positions'].append(None)
                    le = W.P.enum_def('laythe_core::LyError') or W.P.enum_def('LyError')
                    er = EnumV('LyError', le.vindex['Err'], {'Err': {0: Cell(Opaque('Instance', 'not_an_integer'))}}, None, le)
                    return EnumV('Result<usize, LyError>', 1, {'Err': {0: Cell(er)}}, None, RES)
                p = z3.BitVec(f'position{k}', 64)
                e_.path_state['positions'].append(p)
                return EnumV('Result<usize, LyError>', 0, {'Ok': {0: Cell(p)}}, None, RES)
            e.model(r'^(laythe_lib::)?(\w+::)*ListSlice::index$', m_index)

            def path(e):
                lst, blk0, seq, n, cap = W.new_list(e)
                if fwd:
                    W.grow_once(e, lst, n, cap)
                old = lambda i: z3.Select(seq.arr, i)
                av, a = W.num(e, 'a')
                bvv, b = W.num(e, 'b')
                nblocks = len(e.path_state['blocks'])
                r = W.call_native(e, 'ListSlice', [W.list_value(e, lst), av, bvv])
                fin = W.final_block(e, blk0)
                ln, cp, el = W.view(e, fin)
                e.check(ln == n, 'slice: the receiver keeps its length')
                ok = isinstance(r, EnumV) and r.tag == 0
                pos = e.path_state.get('positions', [])
                e.check(ok == (len(pos) == 2 and None not in pos), 'slice: succeeds exactly when both arguments convert to positions')
                if ok:
                    e.check(len(e.path_state['blocks']) == nblocks + 1, 'slice: the result is a new list')
                    nb = e.path_state['blocks'][-1]
                    ln2, cp2, el2 = W.view(e, nb)
                    s_ = pos[0]
                    t_ = z3.If(z3.UGT(pos[1], n), n, pos[1])
                    want_len = z3.If(z3.ULE(s_, t_), t_ - s_, bv(0, 64))
                    e.check(ln2 == want_len, 'slice: the new list has exactly the elements of the clamped range')
                    i = z3.BitVec('i', 64)
                    e.check(z3.Implies(z3.ULT(i, ln2), el2(i) == old(s_ + i)), 'slice: the new list holds the elements of the range, in order')
                    e.check(z3.ULE(ln2, cp2), 'slice: the new list is well formed')
                return {'native': 'ListSlice', 'ok': ok}
            _finish(res, e, e.explore(path), 'C11.K2:slice:')
    _mks()


@obligation('C11.K2.slice_index', 'C11', programs=('vm',))
def n_slice_index(res, tier):
    """ListSlice::index for every number x and any list length: integral x >= 0 is the position x (saturating), integral x < 0 counts
    from the end and stops at 0, anything else (fractions, NaN, infinities) raises"""
    res.bounds = {'length': 'any < 2^40', 'x': 'every f64'}
    W = NativeWorld()
    e = W.e
    P = W.P
    f = [x for x in P.fns if x.name.endswith('::index') and 'primitives/list.rs' in x.name and 'ListSlice' not in x.name]
    src = P.items.files['laythe_lib/src/global/primitives/list.rs']
    import re
    m = re.search(r'^impl ListSlice \{', src, re.M)
    line = src.count('\n', 0, m.start()) + 1
    f = [x for x in P.fns if x.name.endswith('::index') and f'<impl at laythe_lib/src/global/primitives/list.rs:{line}:' in x.name]
    assert len(f) == 1, [x.name for x in f]
    RES = P.enum_def('Result')
    e.model(r'^(std::result::|core::result::)?Result::expect_err$', lambda e_, a, c: e_.payload0(a[0], 'Err') if isinstance(a[0], EnumV) and a[0].tag == 1 else (_ for _ in ()).throw(PathEnd('panic', 'expect_err on Ok')))

    def path(e):
        n = z3.BitVec('len', 64)
        e.add_constraint(z3.ULT(n, 1 << 40))
        seq = e.fresh_seq('Value', NameBacking('items'), n)
        x = z3.FP('x', z3.Float64())
        me = e.fresh('ListSlice', 'native_self') if P.struct_def('ListSlice') else Struct('ListSlice', {}, None)
        r = e.call(f[0], [Ref(Cell(me)), Ref(Cell(Opaque('Hooks', 'hooks'))), SliceRef(seq, bv(0, 64), n), x])
        ok = isinstance(r, EnumV) and r.tag == 0
        e.check(z3.BoolVal(ok) == _integral(x), 'slice position: accepted exactly for integral numbers')
        if ok:
            p = e.payload0(r, 'Ok')
            zero = z3.FPVal(0.0, z3.Float64())
            mag = z3.fpToUBV(z3.RTZ(), z3.fpAbs(x), z3.BitVecSort(64))
            small = z3.fpLT(z3.fpAbs(x), _fp_of(bv(1 << 62, 64)))
            e.check(z3.Implies(z3.And(small, z3.fpGEQ(x, zero)), p == mag), 'slice position: a non-negative integer is that position')
            e.check(z3.Implies(z3.And(small, z3.fpLT(x, zero)), p == z3.If(z3.UGT(mag, n), bv(0, 64), n - mag)), 'slice position: a negative integer counts from the end and stops at the start')
            e.check(z3.Implies(z3.Not(small), z3.If(z3.fpGEQ(x, zero), z3.UGE(p, 1 << 62), p == 0)), 'slice position: huge magnitudes saturate')
        return {'ok': ok}
    _finish(res, e, e.explore(path), 'C11.K2:slice_index:')
