"""C11.K3 — iterator adaptors as lazy stream functions, one step at a time.

The wrapped enumerator is an abstract stream (position, length, elements as an uninterpreted function of the position, any step may
raise); callbacks are uninterpreted functions of their argument that may raise.  The real `next` / `current` of each adaptor runs on
an arbitrary adaptor state and must deliver exactly the element the stream function prescribes while pulling from the wrapped
streams exactly as often as that function needs (evaluated left to right, nothing consumed beyond what is delivered)."""
import z3
from vfw.core import obligation, get_program, summarize_paths
from mirsym.engine import Engine
from mirsym.values import *
from mirsym.tys import *
from .vmabs import VmWorld, AbsObj, object_of
from .c01 import ValView, VALUE
from .c07 import _flat

BV64 = z3.BitVecSort(64)
MAXLEN = 3      # remaining elements of a wrapped stream (5 in the thorough tier)


def _tier(tier):
    global MAXLEN
    MAXLEN = 3 if tier == 'quick' else 5


class StreamWorld:
    def __init__(self, prog='vm'):
        self.P = P = get_program(prog)
        self.e = e = Engine(P, loop_bound=MAXLEN + 3, timeout_s=240, max_depth=50, max_paths=6000)
        self.W = VmWorld(e, P)
        m = e.model
        RES = P.enum_def('Result')
        le = P.enum_def('laythe_core::LyError') or P.enum_def('LyError')
        Wd = self

        def valsort(e_):
            proto = e_.memo.get('valproto')
            if proto is None:
                proto = e_.fresh_seq(VALUE, NameBacking('valproto'), bv(0, 64))
                e_.memo['valproto'] = proto
            return proto.arr.sort().range(), proto.tyname
        self.valsort = valsort

        def elem(e_, sid, pos):
            so, ty = valsort(e_)
            f = z3.Function('stream_elem', BV64, BV64, so)
            return f(sid, pos)
        self.elem = elem

        def stream(e_, v):
            o = object_of(e_, v)
            key = o.id.sexpr()
            st = e_.path_state['streams'].get(key)
            if st is None:
                k = len(e_.path_state['streams'])
                st = dict(id=o.id, pos=z3.BitVec(f'pos{k}', 64), len=z3.BitVec(f'len{k}', 64), pulls=0, k=k, order=[])
                e_.add_constraint(z3.And(z3.ULE(st['pos'], st['len']), z3.ULE(st['len'], st['pos'] + MAXLEN), z3.ULT(st['len'], 1 << 32)))
                st['pos0'] = st['pos']
                e_.path_state['streams'][key] = st
            return st
        self.stream = stream

        def ok(v):
            return EnumV('Result<Value, LyError>', 0, {'Ok': {0: Cell(v)}}, None, RES)

        def err(tag):
            er = EnumV('LyError', le.vindex['Err'], {'Err': {0: Cell(Opaque('Instance', tag))}}, None, le)
            return EnumV('Result<Value, LyError>', 1, {'Err': {0: Cell(er)}}, None, RES)
        self.ok, self.err = ok, err

        def boolval(e_, b):
            f = P.lookup('<Value as From<bool>>::from')
            return e_.exec_fn(f, [b], 0, None)
        self.boolval = boolval

        def m_enum_next(e_, a, c):
            st = stream(e_, a[0])
            st['pulls'] += 1
            e_.path_state['order'].append(('pull', st['k']))
            if e_.fork_bool(z3.Bool(f'stream{st["k"]}_raises_{st["pulls"]}')):
                e_.path_state['raised'] = ('stream', st['k'])
                return err(f'stream{st["k"]}_error')
            if e_.fork_bool(z3.ULT(st['pos'], st['len'])):
                st['pos'] = z3.simplify(st['pos'] + 1)
                return ok(boolval(e_, True))
            return ok(boolval(e_, False))
        m(r'^(laythe_core::)?(object::)?(enumerator::)?Enumerator::next$', m_enum_next)

        def m_enum_current(e_, a, c):
            st = stream(e_, a[0])
            so, ty = valsort(e_)
            return e_.materialise(VALUE, TermBacking(elem(e_, st['id'], z3.simplify(st['pos'] - 1)), ty))
        m(r'^(laythe_core::)?(object::)?(enumerator::)?Enumerator::current$', m_enum_current)
        m(r'^<(laythe_core::)?(\w+::)*ObjRef as (std::ops::|core::ops::)?Deref(Mut)?>::deref(_mut)?$', lambda e_, a, c: a[0])

        def m_hooks_call(e_, a, c):
            args = a[2]
            n = conc(z3.simplify(e_.slice_len(args)))
            x = e_.seq_cell(args.seq, args.start).get(e_) if n else None
            k = len([o for o in e_.path_state['order'] if o[0] == 'call'])
            e_.path_state['order'].append(('call', k))
            so, ty = valsort(e_)
            xt = e_.elem_term(x, so, ty) if x is not None else None
            e_.path_state['calls'].append(xt)
            if e_.fork_bool(z3.Bool(f'callback_raises_{k}')):
                e_.path_state['raised'] = ('callback', k)
                return err(f'callback_error{k}')
            f = z3.Function('callback', so, so)
            return ok(e_.materialise(VALUE, TermBacking(f(xt), ty)))
        m(r'^(laythe_core::)?(hooks::)?Hooks::call$', m_hooks_call)
        e.allow_havoc(r'^(std|alloc|core)::fmt::', r'Arguments::', r'^format$')

    def start(self, e):
        e.path_state['streams'] = {}
        e.path_state['order'] = []
        e.path_state['calls'] = []
        e.path_state['raised'] = None
        e.path_state['events'] = []
        e.path_state['allocs'] = 0

    def term(self, e, v):
        so, ty = self.valsort(e)
        return e.elem_term(v, so, ty)

    def is_true(self, e, r):
        """Call result Ok(true)?  -> 'true' | 'false' | 'err'"""
        if not isinstance(r, EnumV):
            raise Unsupported('result of next is not a Call')
        if r.tag == 1:
            return 'err'
        v = ValView(e, self.P, e.payload0(r, 'Ok'))
        if not e.is_valid(v.is_bool):
            raise Unsupported('next did not answer with a boolean')
        return 'true' if e.fork_bool(v.boolean) else 'false'


def _adaptor_fn(P, ty, method):
    c = [f for f in P.fns if f.name.endswith('::' + method) and 'iter.rs' in f.name]
    want = P.items.structs.get(ty, [])
    want = [d for d in want if d.file.endswith('primitives/iter.rs')]
    if not want:
        raise Unsupported('struct ' + ty)
    sd = want[0]
    # the impl Enumerate block of this struct starts after the struct definition
    src = P.items.files[sd.file]
    import re
    m = re.search(r'^impl Enumerate for ' + ty + r'\b', src, re.M)
    line = src.count('\n', 0, m.start()) + 1
    cands = [f for f in c if f'<impl at {sd.file}:{line}:' in f.name]
    if len(cands) != 1:
        raise Unsupported(f'{ty}::{method}: {len(cands)} candidates')
    return cands[0], sd


def _finish(res, e, results, prefix):
    for r in results:
        if r.kind in ('oob', 'unreachable', 'ub', 'diverge', 'depth', 'panic'):
            res.fail(f'{prefix}{r.kind}', f'path ends in {r.kind}: {str(r.info)[:300]}', {'path': str(r.info)})
    summarize_paths(res, e, results, lambda r: r.info if isinstance(r.info, dict) else None, key_prefix=prefix, unwind_ok=False)


def _subject(W, e, ty, sd):
    modpath = sd.file.split('/src/')[1][:-3].replace('/', '::')
    return Struct(norm_ty(modpath + '::' + ty), None, NameBacking('adaptor'))


@obligation('C11.K3.take', 'C11', programs=('vm',))
def k3_take(res, tier):
    """TakeIterator::next / current on an arbitrary state: while fewer than take_count elements were delivered it pulls exactly one
    element from the wrapped stream and delivers it; once take_count were delivered it answers false WITHOUT touching the wrapped
    stream (nothing is consumed beyond what take hands out)"""
    _tier(tier)
    W = StreamWorld()
    e, P = W.e, W.P
    fnext, sd = _adaptor_fn(P, 'TakeIterator', 'next')
    fcur, _ = _adaptor_fn(P, 'TakeIterator', 'current')
    res.bounds = {'delivered so far / take_count': 'any usize', 'wrapped stream': f'any position, up to {MAXLEN} remaining elements, may raise'}
    ix = {n: i for i, (n, _) in enumerate(sd.fields)}

    def path(e):
        W.start(e)
        t = _subject(W, e, 'TakeIterator', sd)
        k0 = t.field(e, ix['current'], 'usize').get(e)
        n = t.field(e, ix['take_count'], 'usize').get(e)
        e.add_constraint(z3.ULT(k0, 1 << 40))
        inner = W.stream(e, t.field(e, ix['iter'], sd.fields[ix['iter']][1]).get(e))
        pos0 = inner['pos']
        r = e.call(fnext, [Ref(Cell(t)), Ref(Cell(Opaque('Hooks', 'hooks')))])
        out = W.is_true(e, r)
        k1 = t.f[ix['current']].get(e)
        exhausted = z3.UGE(k0, n)
        if inner['pulls'] == 0:
            e.check(exhausted, 'take: the wrapped stream is left alone only once take_count elements were delivered')
            e.check(out == 'false' and e.is_valid(k1 == k0), 'take: answers false after take_count elements')
        else:
            e.check(z3.Not(exhausted), 'take: no element is pulled from the wrapped stream once take_count elements were delivered',
                    {'pulls': inner['pulls']})
            e.check(inner['pulls'] == 1, 'take: at most one element is pulled per step')
            if out == 'true':
                e.check(z3.And(inner['pos'] == pos0 + 1, k1 == k0 + 1), 'take: a delivered element is the next element of the wrapped stream')
                cur = e.call(fcur, [Ref(Cell(t))])
                e.check(W.term(e, cur) == W.elem(e, inner['id'], pos0), 'take: current is the element just pulled')
            elif out == 'false':
                e.check(z3.And(inner['pos'] == pos0, pos0 == inner['len'], k1 == k0), 'take: ends when the wrapped stream ends')
            else:
                e.check(e.path_state['raised'] is not None, 'take: an error comes from the wrapped stream')
        return {'adaptor': 'take', 'out': out, 'pulls': inner['pulls']}
    _finish(res, e, e.explore(path), 'C11.K3:take:')


@obligation('C11.K3.map', 'C11', programs=('vm',))
def k3_map(res, tier):
    """MapIterator::next / current: pulls one element, applies the callback to exactly that element once, delivers the callback's
    result; errors of the stream or the callback propagate"""
    _tier(tier)
    W = StreamWorld()
    e, P = W.e, W.P
    fnext, sd = _adaptor_fn(P, 'MapIterator', 'next')
    fcur, _ = _adaptor_fn(P, 'MapIterator', 'current')
    res.bounds = {'wrapped stream': f'any position, up to {MAXLEN} remaining elements, may raise', 'callback': 'uninterpreted, may raise'}
    ix = {n: i for i, (n, _) in enumerate(sd.fields)}

    def path(e):
        W.start(e)
        t = _subject(W, e, 'MapIterator', sd)
        inner = W.stream(e, t.field(e, ix['iter'], sd.fields[ix['iter']][1]).get(e))
        pos0 = inner['pos']
        r = e.call(fnext, [Ref(Cell(t)), Ref(Cell(Opaque('Hooks', 'hooks')))])
        out = W.is_true(e, r)
        calls = e.path_state['calls']
        e.check(inner['pulls'] == 1, 'map: exactly one element is pulled per step')
        so, ty = W.valsort(e)
        cb = z3.Function('callback', so, so)
        if out == 'true':
            e.check(len(calls) == 1 and e.is_valid(calls[0] == W.elem(e, inner['id'], pos0)), 'map: the callback is applied once, to the element just pulled')
            cur = e.call(fcur, [Ref(Cell(t))])
            e.check(W.term(e, cur) == cb(W.elem(e, inner['id'], pos0)), 'map: current is the callback applied to the element')
        elif out == 'false':
            e.check(len(calls) == 0 and e.is_valid(pos0 == inner['len']), 'map: ends when the wrapped stream ends, without calling the callback')
        else:
            e.check(e.path_state['raised'] is not None, 'map: an error comes from the stream or the callback')
        return {'adaptor': 'map', 'out': out}
    _finish(res, e, e.explore(path), 'C11.K3:map:')


@obligation('C11.K3.filter', 'C11', programs=('vm',))
def k3_filter(res, tier):
    """FilterIterator::next / current: pulls elements left to right, tests each exactly once, stops at the first one the predicate
    accepts and delivers that very element; every element before it was rejected"""
    _tier(tier)
    W = StreamWorld()
    e, P = W.e, W.P
    fnext, sd = _adaptor_fn(P, 'FilterIterator', 'next')
    fcur, _ = _adaptor_fn(P, 'FilterIterator', 'current')
    res.bounds = {'wrapped stream': f'any position, up to {MAXLEN} remaining elements, may raise', 'predicate': 'uninterpreted, may raise'}
    ix = {n: i for i, (n, _) in enumerate(sd.fields)}

    def path(e):
        W.start(e)
        t = _subject(W, e, 'FilterIterator', sd)
        inner = W.stream(e, t.field(e, ix['iter'], sd.fields[ix['iter']][1]).get(e))
        pos0 = inner['pos']
        r = e.call(fnext, [Ref(Cell(t)), Ref(Cell(Opaque('Hooks', 'hooks')))])
        out = W.is_true(e, r)
        calls = e.path_state['calls']
        for j, c in enumerate(calls):
            e.check(c == W.elem(e, inner['id'], pos0 + j), 'filter: the predicate sees the elements of the wrapped stream in order, each once')
        if out == 'true':
            e.check(inner['pos'] == pos0 + len(calls), 'filter: nothing is pulled beyond the accepted element')
            cur = e.call(fcur, [Ref(Cell(t))])
            e.check(W.term(e, cur) == W.elem(e, inner['id'], pos0 + len(calls) - 1), 'filter: current is the accepted element itself')
        elif out == 'false':
            e.check(z3.And(inner['pos'] == inner['len'], inner['len'] == pos0 + len(calls)), 'filter: ends only when the wrapped stream is exhausted, having tested every element')
        else:
            e.check(e.path_state['raised'] is not None, 'filter: an error comes from the stream or the predicate')
        return {'adaptor': 'filter', 'out': out, 'tested': len(calls)}
    _finish(res, e, e.explore(path), 'C11.K3:filter:')
