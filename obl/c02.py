"""C02 — lexical scoping: closures share captured variables by reference (VM kernels)."""
import z3
from vfw.core import obligation, get_program, summarize_paths
from mirsym.engine import Engine
from mirsym.values import *
from mirsym.tys import *
from .vmabs import VmWorld, AbsObj, AbsArr, kind_of, heap_seq, allocated0, arr_len
from .c01 import ValView, END_KINDS, _signal_is, VALUE

LYBOX = 'laythe_core::object::LyBox'


def _world(P):
    e = Engine(P, loop_bound=5, timeout_s=120, max_depth=60)
    W = VmWorld(e, P)
    W.havoc_objects(e)
    W.summarise_calls(e)
    return e, W


def _box_heap(e):
    """the heap column holding LyBox.value, indexed by box identity"""
    return heap_seq(e, LYBOX, 0, VALUE)


def _op8(st):
    return z3.ZeroExt(56, z3.Select(st.code.arr, st.ip))


def _val_term(e, st, idx):
    return z3.Select(st.stack.arr, idx)


def _run(res, opname, body):
    P = get_program('vm')
    e, W = _world(P)
    f = P.lookup('vm::Vm::' + opname)

    def path(e):
        st = W.fresh_state(e)
        heap = heap_seq(e, LYBOX, 0, VALUE)
        heap0 = heap.arr
        pre = body(e, P, W, st, heap, None)
        outcome, sig = 'ok', None
        try:
            sig = e.call(f, [Ref(st.vm_cell)])
        except PathEnd as pe:
            if pe.kind not in END_KINDS:
                raise
            outcome = pe.kind
        heap = _box_heap(e)
        return body(e, P, W, st, heap, dict(outcome=outcome, sig=sig, sp=W.sp(e), ip=W.ip(e), heap0=heap0, pre=pre))
    results = e.explore(path)
    for r in results:
        if r.kind in ('panic', 'oob', 'unreachable', 'ub', 'diverge', 'depth'):
            s = str(r.info)
            if 'to_obj' in s or 'Expected object' in s or 'panic_fmt' in s:
                continue     # unchecked casts on slots the compiler guarantees to hold boxes (C02.K2)
            res.fail(f'C02.K1:{opname}:{r.kind}', f'{opname}: path ends in {r.kind}: {s[:200]}', {'path': s})
    summarize_paths(res, e, results, lambda r: r.info if isinstance(r.info, dict) else None, key_prefix=f'C02.K1:{opname}:', unwind_ok=True)


def _slot_is_box(e, P, st, slot_idx):
    v = ValView(e, P, st.stack.load(e, slot_idx))
    e.assume(v.is_kind(P, 'LyBox'))       # emitted only for variables the resolver marked captured (C02.K2)
    return v.obj.id


@obligation('C02.K1.boxes', 'C02', programs=('vm',))
def k1_boxes(res, tier):
    """op_box / op_empty_box / op_fill_box / op_get_box / op_set_box: a boxed variable is one heap cell addressed by the
    box identity held in the declaring slot; writes go to that cell, reads come from it, nothing else changes"""
    res.bounds = {'slot': 'any u8 below the stack top', 'values': 'every Value', 'heap': 'arbitrary box heap (aliasing decided by the solver)'}
    res.assumptions = ['slots addressed by box instructions hold boxes (resolver/compiler contract, C02.K2)',
                       'allocation yields an identity distinct from every existing object']

    def box(e, P, W, st, heap, post):
        if post is None:
            e.assume(z3.ULT(_op8(st), st.sp - st.fb))
            return dict(old=z3.Select(st.stack.arr, st.fb + _op8(st)))
        e.check(post['outcome'] == 'ok' and _signal_is(post['sig'], 'Ok'), 'op_box: total')
        slot = st.fb + _op8(st)
        nv = ValView(e, P, st.stack.load(e, slot))
        e.check(nv.is_kind(P, 'LyBox'), 'op_box: the slot now holds a box')
        e.check(z3.Not(allocated0(nv.obj.id)), 'op_box: the box is a fresh object (a new variable per execution of the declaration)')
        e.check(z3.Select(heap.arr, nv.obj.id) == post['pre']['old'], 'op_box: the box holds the old slot value')
        q = z3.BitVec('q_frame', 64)
        e.check(z3.Implies(q != slot, z3.Select(st.stack.arr, q) == z3.Select(st.stack0, q)), 'op_box: no other slot changes')
        e.check(z3.Implies(allocated0(q), z3.Select(heap.arr, q) == z3.Select(post['heap0'], q)), 'op_box: existing boxes keep their contents')
        e.check(z3.And(post['sp'] == st.sp, post['ip'] == st.ip + 1), 'op_box: one operand byte, depth unchanged')
        return {'op': 'op_box'}
    _run(res, 'op_box', box)

    def empty_box(e, P, W, st, heap, post):
        if post is None:
            return None
        e.check(post['outcome'] == 'ok', 'op_empty_box: total')
        nv = ValView(e, P, st.stack.load(e, st.sp))
        e.check(z3.And(post['sp'] == st.sp + 1, post['ip'] == st.ip), 'op_empty_box: pushes one value')
        e.check(z3.And(nv.is_kind(P, 'LyBox'), z3.Not(allocated0(nv.obj.id))), 'op_empty_box: pushes a fresh box')
        inner = ValView(e, P, heap.load(e, nv.obj.id))
        e.check(inner.is_undef, 'op_empty_box: the box starts undefined (read before initialisation is detectable)')
        return {'op': 'op_empty_box'}
    _run(res, 'op_empty_box', empty_box)

    def fill_box(e, P, W, st, heap, post):
        if post is None:
            b = _slot_is_box(e, P, st, z3.simplify(st.sp - 2))
            return dict(box=b, val=z3.Select(st.stack.arr, st.sp - 1))
        e.check(post['outcome'] == 'ok', 'op_fill_box: total')
        e.check(z3.And(post['sp'] == st.sp - 1, post['ip'] == st.ip), 'op_fill_box: pops the value, keeps the box')
        e.check(heap.arr == z3.Store(post['heap0'], post['pre']['box'], post['pre']['val']), 'op_fill_box: exactly that box receives the value')
        return {'op': 'op_fill_box'}
    _run(res, 'op_fill_box', fill_box)

    def get_box(e, P, W, st, heap, post):
        if post is None:
            e.assume(z3.ULT(_op8(st), st.sp - st.fb))
            b = _slot_is_box(e, P, st, z3.simplify(st.fb + _op8(st)))
            return dict(box=b)
        inner = ValView(e, P, heap.load(e, post['pre']['box']))
        if post['outcome'] != 'ok':
            e.check(inner.is_undef, 'op_get_box: an error only for a variable read before initialisation')
            return {'op': 'op_get_box', 'case': 'undefined'}
        e.check(z3.Not(inner.is_undef), 'op_get_box: undefined boxes are not readable')
        e.check(z3.And(post['sp'] == st.sp + 1, post['ip'] == st.ip + 1), 'op_get_box: pushes one value')
        e.check(z3.Select(st.stack.arr, st.sp) == z3.Select(heap.arr, post['pre']['box']), 'op_get_box: pushes the current content of the slot box')
        e.check(heap.arr == post['heap0'], 'op_get_box: reads only')
        return {'op': 'op_get_box'}
    _run(res, 'op_get_box', get_box)

    def set_box(e, P, W, st, heap, post):
        if post is None:
            e.assume(z3.ULT(_op8(st), st.sp - st.fb))
            e.assume(z3.ULT(_op8(st) + 1, st.sp - st.fb))
            b = _slot_is_box(e, P, st, z3.simplify(st.fb + _op8(st)))
            return dict(box=b, val=z3.Select(st.stack.arr, st.sp - 1))
        e.check(post['outcome'] == 'ok', 'op_set_box: total')
        e.check(z3.And(post['sp'] == st.sp, post['ip'] == st.ip + 1), 'op_set_box: assignment leaves its value on the stack')
        e.check(heap.arr == z3.Store(post['heap0'], post['pre']['box'], post['pre']['val']), 'op_set_box: exactly the slot box receives the value')
        q = z3.BitVec('q_frame', 64)
        e.check(z3.Select(st.stack.arr, q) == z3.Select(st.stack0, q), 'op_set_box: no stack slot changes')
        return {'op': 'op_set_box'}
    _run(res, 'op_set_box', set_box)


def _frame_captures(e, W, st):
    cap = st.frame.f[W.cf_idx['captures']].get(e)
    arr = cap.field(e, 0, 'laythe_core::collections::Array<laythe_core::ObjRef<laythe_core::object::LyBox>, laythe_core::managed::Header>').get(e)
    return arr


@obligation('C02.K1.captures', 'C02', programs=('vm',))
def k1_captures(res, tier):
    """op_get_capture / op_set_capture address the box whose identity the closure's capture array holds at that index"""
    res.bounds = {'index': 'any u8 inside the capture array', 'values': 'every Value'}
    res.assumptions = ['capture indices are inside the closure capture array (Compiler::add_capture, C02.K3)']

    def get_capture(e, P, W, st, heap, post):
        if post is None:
            arr = _frame_captures(e, W, st)
            e.assume(z3.ULT(_op8(st), arr.length(e)))
            b = arr.seq(e).load(e, _op8(st))
            return dict(box=b.id)
        e.check(post['outcome'] == 'ok', 'op_get_capture: total')
        e.check(z3.And(post['sp'] == st.sp + 1, post['ip'] == st.ip + 1), 'op_get_capture: pushes one value')
        e.check(z3.Select(st.stack.arr, st.sp) == z3.Select(heap.arr, post['pre']['box']), 'op_get_capture: pushes the content of the captured box')
        e.check(heap.arr == post['heap0'], 'op_get_capture: reads only')
        return {'op': 'op_get_capture'}
    _run(res, 'op_get_capture', get_capture)

    def set_capture(e, P, W, st, heap, post):
        if post is None:
            arr = _frame_captures(e, W, st)
            e.assume(z3.ULT(_op8(st), arr.length(e)))
            b = arr.seq(e).load(e, _op8(st))
            return dict(box=b.id, val=z3.Select(st.stack.arr, st.sp - 1))
        e.check(post['outcome'] == 'ok', 'op_set_capture: total')
        e.check(z3.And(post['sp'] == st.sp, post['ip'] == st.ip + 1), 'op_set_capture: assignment leaves its value on the stack')
        e.check(heap.arr == z3.Store(post['heap0'], post['pre']['box'], post['pre']['val']), 'op_set_capture: exactly the captured box receives the value')
        return {'op': 'op_set_capture'}
    _run(res, 'op_set_capture', set_capture)


@obligation('C02.K1.closure', 'C02', programs=('vm',))
def k1_closure(res, tier):
    """op_closure copies box identities, in operand order: Local(i) -> the box in local slot i, Enclosing(i) -> the
    i-th box of the running closure; reads 2 bytes per capture; the new closure holds exactly capture_count boxes"""
    P = get_program('vm')
    e, W = _world(P)
    f = P.lookup('vm::Vm::op_closure')
    K = 3
    res.bounds = {'capture_count': f'0..{K}', 'operands': 'every valid CaptureIndex encoding'}
    res.assumptions = ['capture operands are valid CaptureIndex encodings addressing live boxed slots / captures (Compiler::add_capture, C02.K3)',
                       'enum layout of CaptureIndex: tag byte then payload byte']
    e.loop_bound = K + 2

    def path(e):
        st = W.fresh_state(e)
        arr = _frame_captures(e, W, st)
        ncap = z3.BitVec('ncap', 64)
        e.assume(z3.ULE(ncap, K))
        n = e.concretize(ncap)
        e.path_state['forced_capture_count'] = bv(n, 64)
        expect = []
        for k in range(n):
            tagb = z3.Select(st.code.arr, st.ip + 2 + 2 * k)
            payb = z3.ZeroExt(56, z3.Select(st.code.arr, st.ip + 3 + 2 * k))
            local = e.fork_bool(tagb == 0)
            if local:
                e.assume(z3.ULT(payb, st.sp - st.fb))
                expect.append(_slot_is_box(e, P, st, z3.simplify(st.fb + payb)))
            else:
                e.assume(tagb == 1)
                e.assume(z3.ULT(payb, arr.length(e)))
                expect.append(arr.seq(e).load(e, payb).id)
        outcome, sig = 'ok', None
        try:
            sig = e.call(f, [Ref(st.vm_cell)])
        except PathEnd as pe:
            if pe.kind not in END_KINDS:
                raise
            outcome = pe.kind
        e.check(outcome == 'ok', 'op_closure: total')
        if outcome != 'ok':
            return {'case': 'error'}
        e.check(z3.And(W.sp(e) == st.sp + 1, W.ip(e) == st.ip + 2 + 2 * n), 'op_closure: pushes the closure, reads 2 bytes per capture')
        cl = ValView(e, P, st.stack.load(e, st.sp))
        e.check(z3.And(cl.is_kind(P, 'Closure'), z3.Not(allocated0(cl.obj.id))), 'op_closure: pushes a fresh closure')
        # the closure's captures
        cdata = AbsObj(cl.obj.id, 'ObjRef<Closure>').data_cell(e, 'laythe_core::object::Closure').get(e)
        sd = P.struct_def('laythe_core::object::Closure')
        caps = cdata.field(e, sd.index_of('captures'), 'laythe_core::Captures').get(e)
        carr = caps.field(e, 0, 'laythe_core::collections::Array<laythe_core::ObjRef<laythe_core::object::LyBox>, laythe_core::managed::Header>').get(e)
        e.check(arr_len(carr.id) == n, 'op_closure: the closure holds exactly capture_count boxes')
        for k in range(n):
            got = carr.seq(e).load(e, bv(k, 64))
            e.check(got.id == expect[k], f'op_closure: capture {k} is the identity named by operand {k} (shared cell, not a copy)')
        return {'captures': n}
    # make capture_count follow the forced value
    def m_capture_count(e_, a, c):
        return e_.path_state['forced_capture_count']
    e.model(r'^(laythe_core::)?(object::)?(fun::)?Fun::capture_count$', m_capture_count)
    results = e.explore(path)
    for r in results:
        if r.kind in ('panic', 'oob', 'unreachable', 'ub', 'diverge', 'depth'):
            s = str(r.info)
            if 'to_obj' in s or 'Expected object' in s or 'panic_fmt' in s:
                continue
            res.fail(f'C02.K1:op_closure:{r.kind}', f'op_closure: path ends in {r.kind}: {s[:200]}', {'path': s})
    summarize_paths(res, e, results, lambda r: r.info if isinstance(r.info, dict) else None, key_prefix='C02.K1:op_closure:', unwind_ok=True)
