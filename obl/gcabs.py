"""Handle-level abstraction of the allocator: managed things are identities with a size and a mark bit.

Real (from MIR): Allocator::{allocate, allocate_obj, manage_str, has_str, push_root, pop_roots, collect_garbage(_with_value),
sweep_obj_heap, sweep_obj_nursery, sweep_obj_full, sweep_heap, sweep_intern_cache, trace_root, trace}.
Abstract: ObjectHandle / Box<dyn Manage> (identity, size(id), mark bit array), the per-type alloc() (fresh identity and a
symbolic size), tracing of roots (marks become an arbitrary superset choice: the mark array is symbolic when the sweep starts).
"""
import z3
from mirsym.values import *
from mirsym.tys import *
from mirsym.engine import Engine
from .vmabs import VmWorld, AbsObj, AbsStr, AbsGc, string_content, StrS, str_len, kind_of

BV64 = z3.BitVecSort(64)
size_of_id = z3.Function('managed_size', BV64, BV64)
ALLOC = 'laythe_core::allocator::Allocator'


class Handle:
    """ObjectHandle / Box<dyn Manage>"""
    __slots__ = ('id', 'boxed')

    def __init__(self, hid, boxed=False):
        self.id = hid
        self.boxed = boxed

    def copy_value(self, eng):
        return self

    def __repr__(self):
        return f'handle({self.id})'


class GcWorld:
    def __init__(self, eng, P):
        self.e, self.P = eng, P
        VmWorld(eng, P)
        sd = P.struct_def(ALLOC)
        self.ix = {n: i for i, (n, _) in enumerate(sd.fields)}
        self.fty = {n: t for n, t in sd.fields}
        self.install(eng)

    def marks(self, e):
        m = e.path_state.get('marks')
        if m is None:
            m = z3.Const('marks0', z3.ArraySort(BV64, z3.BoolSort()))
            e.path_state['marks'] = m
        return m

    def fresh_allocator(self, e, n_old, n_nursery, n_heap, n_roots=0, n_strings=0):
        a = e.fresh(ALLOC, 'gc')
        e.path_state['events'] = []
        e.path_state['dropped'] = []
        ids = {}

        def mk(prefix, n, boxed):
            hs = []
            for i in range(n):
                hid = z3.BitVec(f'{prefix}{i}', 64)
                for other in ids.values():
                    e.add_constraint(hid != other)
                ids[f'{prefix}{i}'] = hid
                e.add_constraint(z3.ULT(size_of_id(hid), 1 << 32))
                hs.append(Cell(Ref(Cell(Handle(hid, True)))) if boxed else Cell(Handle(hid, False)))
            return hs
        old = mk('old', n_old, False)
        nur = mk('nur', n_nursery, False)
        heap = mk('box', n_heap, True)
        a.f[self.ix['obj_heap']] = Cell(ConcSeq('ObjectHandle', old))
        a.f[self.ix['nursery_obj_heap']] = Cell(ConcSeq('ObjectHandle', nur))
        a.f[self.ix['heap']] = Cell(ConcSeq('Box<dyn Manage>', heap))
        roots = [Cell(Ref(Cell(AbsObj(z3.BitVec(f'root{i}', 64), 'ObjectRef')))) for i in range(n_roots)]
        a.f[self.ix['temp_roots']] = Cell(ConcSeq('Box<dyn Trace>', roots))
        ents = []
        for i in range(n_strings):
            sid = z3.BitVec(f'str{i}', 64)
            o = AbsObj(sid, 'LyStr')
            key = AbsStr(string_content(e, o))
            for k2, _ in ents:
                e.add_constraint(k2.s != key.s)
            ents.append((key, Cell(o)))
        a.f[self.ix['intern_cache']] = Cell(e.MapV(ents, '&str', 'LyStr'))
        st = type('A', (), {})()
        st.a, st.ids, st.old, st.nur, st.heap, st.strings = a, ids, [c.v for c in old], [c.v for c in nur], [c.v.cell.v for c in heap], list(ents)
        st.bytes0 = a.field(e, self.ix['bytes_allocated'], 'usize').get(e)
        st.next0 = a.field(e, self.ix['next_gc'], 'usize').get(e)
        st.gc_count0 = a.field(e, self.ix['gc_count'], 'u128').get(e)
        e.add_constraint(z3.ULT(st.bytes0, 1 << 40))
        e.add_constraint(z3.ULT(st.next0, 1 << 41))
        e.add_constraint(z3.ULT(st.gc_count0, 1 << 64))
        return st

    def field(self, e, a, name):
        return a.field(e, self.ix[name], self.fty[name]).get(e)

    def install(self, eng):
        m = eng.model
        W = self

        def h_of(e, v):
            while isinstance(v, Ref):
                v = v.cell.get(e)
            return v

        def m_unmark(e, a, c):
            h = h_of(e, a[0])
            hid = h.id
            mk = W.marks(e)
            was = z3.Select(mk, hid)
            e.path_state['marks'] = z3.Store(mk, hid, False)
            e.path_state['events'].append(('unmark', hid))
            return as_bool(z3.simplify(was))
        m(r'^<(laythe_core::)?(reference::)?(obj_reference::)?ObjectHandle as (laythe_core::)?(managed::)?(\w+::)?Unmark>::unmark$', m_unmark)
        m(r'^<(std::boxed::|alloc::boxed::)?Box as (laythe_core::)?(managed::)?(\w+::)?Unmark>::unmark$', m_unmark)
        m(r'^<dyn (laythe_core::)?(managed::)?(\w+::)?Manage as (laythe_core::)?(managed::)?(\w+::)?Unmark>::unmark$', m_unmark)

        def m_size(e, a, c):
            return size_of_id(h_of(e, a[0]).id)
        m(r'^(laythe_core::)?(reference::)?(obj_reference::)?ObjectHandle::size$', m_size)
        m(r'^<dyn (laythe_core::)?(managed::)?(\w+::)?Manage as (laythe_core::)?(managed::)?(\w+::)?Manage>::size$', m_size)
        m(r'^<(std::boxed::|alloc::boxed::)?Box as (laythe_core::)?(managed::)?(\w+::)?Manage>::size$', m_size)

        def m_marked(e, a, c):
            v = h_of(e, a[0])
            return as_bool(z3.simplify(z3.Select(W.marks(e), v.id)))
        m(r'^<(laythe_core::)?(\w+::)*(LyStr|ObjectRef|ObjRef|ObjectHandle) as (laythe_core::)?(managed::)?(\w+::)?Marked>::marked$', m_marked)

        # tracing: roots get marked; everything reachable from them too -> the mark array after tracing is an arbitrary
        # array that contains at least the traced identities
        def m_trace_any(e, a, c):
            v = h_of(e, a[0])
            e.path_state['events'].append(('trace', getattr(v, 'id', None), c.norm))
            vid = getattr(v, 'id', None)
            if vid is not None:
                e.path_state['marks'] = z3.Store(W.marks(e), vid, True)
            return UNIT
        m(r'^<dyn (laythe_core::)?(managed::)?(\w+::)?Trace as (laythe_core::)?(managed::)?(\w+::)?Trace>::trace$', m_trace_any)
        m(r'^<.* as (laythe_core::)?(managed::)?(\w+::)?Trace>::trace$', m_trace_any, fallback=True)

        def m_trace_root(e, a, c):
            e.path_state['events'].append(('trace_root',))
            # the context marks an arbitrary set of live things
            mk = W.marks(e)
            live = z3.Const('live_from_roots', z3.ArraySort(BV64, z3.BoolSort()))
            i = z3.BitVec('i!tr', 64)
            e.path_state['marks'] = z3.Lambda([i], z3.Or(z3.Select(mk, i), z3.Select(live, i)))
            return UNIT
        m(r'^<.* as (laythe_core::)?(managed::)?(\w+::)?TraceRoot>::trace$', m_trace_root)
        m(r'^<.* as (laythe_core::)?(managed::)?(\w+::)?TraceRoot>::can_collect$', lambda e, a, c: True)

        # Vec plumbing used by the sweeps ----------------------------------------------------------
        def vec(e, v):
            while isinstance(v, Ref):
                v = v.cell.get(e)
            if not isinstance(v, ConcSeq):
                raise Unsupported('expected a concrete vector, got ' + type(v).__name__)
            return v

        def on_drop(e, h):
            while isinstance(h, Ref):
                h = h.cell.get(e)
            if isinstance(h, Handle):
                e.path_state['dropped'].append(h.id)

        def m_retain(e, a, c):
            v = vec(e, a[0])
            keep = []
            for cell in list(v.cells):
                r = e.call_value(c.frame, a[1], [Ref(cell)])
                if e.fork_bool(to_z3_bool(r)):
                    keep.append(cell)
                else:
                    on_drop(e, cell.get(e))
            v.cells[:] = keep
            return UNIT
        m(r'^(std::vec::|alloc::vec::)?Vec::retain$', m_retain)

        class Drain:
            def __init__(self, cells):
                self.cells = cells

            def iter_next(self, e, fr):
                if not self.cells:
                    return None
                return self.cells.pop(0).get(e)

            def copy_value(self, eng):
                return self

        def m_drain(e, a, c):
            v = vec(e, a[0])
            cells = list(v.cells)
            del v.cells[:]
            return Drain(cells)
        m(r'^(std::vec::|alloc::vec::)?Vec::drain$', m_drain)

        class Filter:
            def __init__(self, it, f):
                self.it, self.f = it, f

            def iter_next(self, e, fr):
                while True:
                    x = e.it_next(e, self.it, fr)
                    if x is None:
                        return None
                    r = e.call_value(fr, self.f, [Ref(Cell(x))])
                    if e.fork_bool(to_z3_bool(r)):
                        return x
                    on_drop(e, x)

            def copy_value(self, eng):
                return self
        m(r'^<.* as (std::iter::|core::iter::)?Iterator>::filter$', lambda e, a, c: Filter(a[0], a[1]), fallback=True)

        def m_extend(e, a, c):
            v = vec(e, a[0])
            while True:
                x = e.it_next(e, a[1], c.frame)
                if x is None:
                    return UNIT
                v.cells.append(Cell(x))
        m(r'^<(std::vec::|alloc::vec::)?Vec as (std::iter::|core::iter::)?Extend>::extend$', m_extend)
        m(r'^(std::vec::|alloc::vec::)?Vec::extend$', m_extend)

        def m_vec_iter(e, a, c):
            v = vec(e, a[0])
            return e.SliceIter(SliceRef(v, bv(0, 64), bv(len(v.cells), 64)))
        m(r'^(std::vec::|alloc::vec::)?Vec::iter$', m_vec_iter)
        m(r'^<(std::boxed::|alloc::boxed::)?Box as (std::ops::|core::ops::)?Deref>::deref$',
          lambda e, a, c: a[0] if not isinstance(h_of(e, a[0]), (Handle, AbsObj, AbsGc)) else Ref(Cell(h_of(e, a[0]))))
        m(r'^(std::boxed::|alloc::boxed::)?Box::new$', lambda e, a, c: Ref(Cell(a[0])))

        eng.allow_havoc(r'^(std|alloc|core)::fmt::', r'^format$', r'^must_use$', r'Arguments::', r'^RefCell::borrow(_mut)?$')
