"""C03 — classes: fields, dispatch, inheritance (compiler side of field addressing; class table kernels)."""
import z3
from vfw.core import obligation, get_program, summarize_paths
from mirsym.engine import Engine
from mirsym.values import *
from mirsym.tys import *
from .compabs import CompilerWorld, emitted_names

F19_REPRO = """class O {
  init() { self.other = 1; self.count = 10; }
}
class K {
  init() { self.count = 0; self.pad = 0; }
  bump(o) { o.count += 1; return o; }
}
let o = K().bump(O());
print(o.count);
print(o.other);
"""


def _static_slot_obligation(res, fname, ast_ty):
    """the class handed to property_get / property_set (which allows a fixed slot index) is only given when the receiver
    expression is `self` itself"""
    P = get_program('vm')
    e = Engine(P, loop_bound=5, timeout_s=180, max_depth=60)
    CW = CompilerWorld(e, P)
    f = P.lookup('compiler::Compiler::' + fname)
    fself = P.lookup('compiler::ir::ast::Primary::is_self')

    def rec(kind):
        def mdl(e_, a, c):
            cls = a[2]
            some = (cls.tag == 1) if not isinstance(cls.tag, int) else z3.BoolVal(cls.tag == 1)
            e_.path_state.setdefault('prop_calls', []).append((kind, some))
            e_.path_state['emitted'].append(('chunk', 'prop_' + kind, 0))
            return UNIT
        return mdl
    e.model(r'^(compiler::)?Compiler::property_get$', rec('get'))
    e.model(r'^(compiler::)?Compiler::property_set$', rec('set'))
    for opaque in ('apply_atom', 'emit_known_invoke', 'record_field', 'variable_get', 'variable_set', 'instance_access_self', 'primary'):
        e.model(r'^(compiler::)?Compiler::' + opaque + '$',
                lambda e_, a, c, o=opaque: (e_.path_state['emitted'].append(('chunk', o, 0)), False if o in ('apply_atom', 'primary') else UNIT)[1])

    def path(e):
        c = CW.fresh_compiler(e)
        ca = CW.field(e, c, 'class_attributes')
        e.assume(ca.tag == 1)            # inside a class body (the interesting case)
        node = e.fresh(ast_ty, 'node')
        sd = P.struct_def(ast_ty)
        lhs = node.field(e, sd.index_of('lhs'), sd.fields[sd.index_of('lhs')][1]).get(e)
        asd = P.struct_def('compiler::ir::ast::Atom')
        primary_cell = lhs.field(e, asd.index_of('primary'), asd.fields[asd.index_of('primary')][1])
        trailers = lhs.field(e, asd.index_of('trailers'), asd.fields[asd.index_of('trailers')][1]).get(e)
        e.assume(z3.ULE(trailers.len, 3))
        e.call(f, [Ref(Cell(c)), Ref(Cell(node))])
        calls = e.path_state.get('prop_calls', [])
        if not calls:
            return {'fn': fname, 'case': 'no property access emitted'}
        is_self = to_z3_bool(e.call(fself, [Ref(primary_cell)]))
        prim = primary_cell.get(e)
        ptag = prim.tag if not isinstance(prim.tag, int) else bv(prim.tag, 64)
        is_inst_access = ptag == prim.edef.vindex['InstanceAccess']
        # the receiver is `self`:  self.x  (primary self, exactly one trailer)  or  @x  (instance access, no trailer)
        recv_is_self = z3.Or(z3.And(is_self, trailers.len == 1), z3.And(is_inst_access, trailers.len == 0))
        for kind, some in calls:
            e.check(z3.Implies(some, recv_is_self),
                    f'{fname}: a class (hence a fixed field slot) is handed to property_{kind} only when the receiver is `self` itself',
                    {'emitted': emitted_names(e)})
        return {'fn': fname, 'property_calls': len(calls)}
    results = e.explore(path)
    for r in results:
        for label, ok, info in list(r.checks):
            if not ok and fname == 'assign_binary' and 'property_set' in label:
                res.fail('C03.K3:assign_binary: compound assignment to a field of another object uses the enclosing class slot table',
                         'assign_binary passes the enclosing class to property_set although the receiver is not self', info,
                         replay=dict(kind='lay', source=F19_REPRO, expect_stdout='11\n1\n'))
                r.checks.remove((label, ok, info))
        if r.kind in ('panic', 'oob', 'ub', 'diverge', 'depth'):
            s = str(r.info)
            if 'unreachable' in s.lower() or 'Unexpected expression' in s or 'panic_fmt' in s:
                continue      # left-hand sides the parser never produces (unreachable! arms; C15.K3)
            res.fail(f'C03.K3:{fname}:{r.kind}', f'{fname}: path ends in {r.kind}: {s[:200]}', {'path': s})
    summarize_paths(res, e, results, lambda r: r.info if isinstance(r.info, dict) else None, key_prefix=f'C03.K3:{fname}:', unwind_ok=True)


@obligation('C03.K3.static_slots', 'C03', programs=('vm',))
def k3_static_slots(res, tier):
    """assign / assign_binary / send: index-based field access (GetProp/SetProp with a compile-time slot) is only requested for
    `self.x` / `@x`; for any other receiver the name-based access must be used, because the slot numbering belongs to the
    lexically enclosing class, not to the receiver's class"""
    res.bounds = {'trailers': '<= 3', 'last trailer': 'every Trailer variant', 'primary': 'every Primary variant'}
    res.assumptions = ['property_get / property_set emit a fixed slot only when handed a class (read from their source; C03.K3.property)']
    for fname, ty in (('assign', 'compiler::ir::ast::Assign'), ('assign_binary', 'compiler::ir::ast::AssignBinary'),
                      ('send', 'compiler::ir::ast::Send')):
        _static_slot_obligation(res, fname, ty)


# ---------------------------------------------------------------------------------------------- K1 class tables
from .vmabs import VmWorld, AbsObj, AbsStr, string_content, lit, kind_of   # noqa: E402
from .c07 import _flat   # noqa: E402

CLASS = 'laythe_core::object::class::Class'
VALUE = 'laythe_core::value::Value'


def _class_world(P, map_bound):
    e = Engine(P, loop_bound=8, timeout_s=240, max_depth=80)
    VmWorld(e, P)

    def m_str_cmp(e_, a, c):
        x, y = a
        while isinstance(x, Ref):
            x = x.cell.get(e_)
        while isinstance(y, Ref):
            y = y.cell.get(e_)
        if isinstance(x, StrV) and isinstance(y, StrV):
            r = x.s == y.s
        else:
            tx = x.s if isinstance(x, AbsStr) else lit(x.s)
            ty_ = y.s if isinstance(y, AbsStr) else lit(y.s)
            r = as_bool(z3.simplify(tx == ty_))
        return r if c.norm.endswith('eq') else b_not(r)
    e.model(r'^<&?str as (std::cmp::|core::cmp::)?PartialEq>::(eq|ne)$', m_str_cmp)
    e.model(r'^<&(mut )?.* as (std::cmp::|core::cmp::)?PartialEq>::(eq|ne)$',
            lambda e_, a, c: m_str_cmp(e_, a, c) if isinstance(_deep(e_, a[0]), (AbsStr, StrV)) else NotImplemented)
    e.model(r'^core::str::traits::<impl (std::cmp::|core::cmp::)?PartialEq for str>::(eq|ne)$', m_str_cmp)

    def m_objref_deref(e_, a, c):
        v = a[0]
        while isinstance(v, Ref):
            v = v.cell.get(e_)
        cell = e_.path_state.get('objects', {}).get(v.id.sexpr()) if isinstance(v, AbsObj) else None
        if cell is None:
            return NotImplemented
        return Ref(cell)
    e.model(r'^<(laythe_core::)?(reference::)?(obj_reference::)?ObjRef as (std::ops::|core::ops::)?Deref(Mut)?>::deref(_mut)?$', m_objref_deref)
    return e


def _deep(e, v):
    while isinstance(v, Ref):
        v = v.cell.get(e)
    return v


def _fresh_class(e, P, name, map_bound, empty=False, oid=None):
    e.path_state['map_bound'] = map_bound
    c = e.fresh(CLASS, name)
    sd = P.struct_def(CLASS)
    ix = {n: i for i, (n, _) in enumerate(sd.fields)}
    if empty:
        c.f[ix['methods']] = Cell(e.MapV([], 'LyStr', VALUE))
        c.f[ix['fields']] = Cell(e.MapV([], 'LyStr', 'u16'))
    methods = c.field(e, ix['methods'], sd.fields[ix['methods']][1]).get(e)
    fields = c.field(e, ix['fields'], sd.fields[ix['fields']][1]).get(e)
    for k, _ in methods.entries + fields.entries:
        e.add_constraint(kind_of(k.id) == P.enum_def('laythe_core::object::ObjectKind').vindex['String'])
    # field indices are a numbering 0..n-1 (established by add_field: checked below)
    idxs = [cc.get(e) for _, cc in fields.entries]
    for i, x in enumerate(idxs):
        e.add_constraint(z3.ULT(x, len(idxs)))
        for y in idxs[:i]:
            e.add_constraint(x != y)
    cell = Cell(c)
    if oid is not None:
        e.path_state.setdefault('objects', {})[bv(oid, 64).sexpr()] = cell
    return c, cell, ix, methods, fields


def _opt_flat(e, o):
    t = o.tag if not isinstance(o.tag, int) else bv(o.tag, 64)
    v = o.field(e, 'Some', 0, VALUE).get(e) if not (isinstance(o.tag, int) and o.tag == 0) else None
    return t, (_flat(e, v) if v is not None else [])


@obligation('C03.K1.class_tables', 'C03', programs=('core',))
def k1_class_tables(res, tier):
    """Class::inherit / add_method / add_field / get_method / get_field_index over bounded tables: a subclass starts with exactly
    its parent's methods and fields (same field indices, nothing renumbered or skipped), inherits `init` unless it has its own,
    add_method makes the method visible under exactly that name, add_field numbers a new field after the existing ones"""
    P = get_program('core')
    MB = 2 if tier == 'quick' else 3
    res.bounds = {'methods per class': f'<= {MB}', 'fields per class': f'<= {MB}', 'names': 'symbolic interned strings'}
    res.assumptions = ['hash maps are modelled as association lists with distinct keys', 'method and field names are interned strings (C09)']
    finh = P.lookup('Class::inherit')
    fget = P.lookup('Class::get_method')
    fidx = P.lookup('Class::get_field_index')
    fadd = P.lookup('Class::add_method')
    faddf = P.lookup('Class::add_field')

    # ---- inherit
    e = _class_world(P, MB)

    def inherit_path(e):
        sup, supcell, ix, sm, sf = _fresh_class(e, P, 'super', MB, oid=0x5000)
        sub, subcell, _, m0, f0 = _fresh_class(e, P, 'sub', MB, empty=True)
        sub_init0 = sub.field(e, ix['init'], 'std::option::Option<laythe_core::value::Value>').get(e)
        sub_init0 = e.copy_value(sub_init0)
        hooks = Ref(Cell(Opaque('GcHooks', 'hooks')))
        e.call(finh, [Ref(subcell), hooks, AbsObj(bv(0x5000, 64), 'ObjRef<Class>')])
        methods = sub.f[ix['methods']].get(e)
        fields = sub.f[ix['fields']].get(e)
        e.check(len(methods.entries) == len(sm.entries), 'inherit: the subclass starts with as many methods as its parent',
                {'parent': len(sm.entries), 'child': len(methods.entries)})
        for k, vc in sm.entries:
            r = e.call(fget, [Ref(subcell), Ref(Cell(k))])
            want = _flat(e, vc.get(e))
            t, got = _opt_flat(e, r)
            e.check(z3.And(t == 1, *[x == y for x, y in zip(got, want)]) if got else False,
                    'inherit: every method of the parent (the initialiser included) is found under the same name in the subclass')
        e.check(len(fields.entries) == len(sf.entries), 'inherit: the subclass starts with as many fields as its parent')
        for k, ic in sf.entries:
            r = e.call(fidx, [Ref(subcell), Ref(Cell(k))])
            t = r.tag if not isinstance(r.tag, int) else bv(r.tag, 64)
            e.check(z3.And(t == 1, r.field(e, 'Some', 0, 'u16').get(e) == ic.get(e)) if not (isinstance(r.tag, int) and r.tag == 0) else False,
                    'inherit: every parent field keeps its index in the subclass (no renumbering)')
        init1 = sub.f[ix['init']].get(e)
        sup_init = sup.field(e, ix['init'], 'std::option::Option<laythe_core::value::Value>').get(e)
        t0, v0 = _opt_flat(e, sub_init0)
        ts, vs = _opt_flat(e, sup_init)
        t1, v1 = _opt_flat(e, init1)
        if v0 or vs:
            own = t0 == 1
            lhs = v1 if v1 else []
            if v1:
                e.check(z3.If(own, z3.And(t1 == 1, *[x == y for x, y in zip(v1, v0)]) if v0 else z3.BoolVal(False),
                              z3.And(t1 == ts, z3.Implies(ts == 1, z3.And(*[x == y for x, y in zip(v1, vs)]) if vs else z3.BoolVal(True)))),
                        'inherit: the initialiser is inherited exactly when the subclass has none of its own')
        sc = sub.f[ix['super_class']].get(e)
        e.check((sc.tag == 1) if isinstance(sc.tag, int) else z3.BoolVal(True), 'inherit: the parent is recorded')
        return {'fn': 'inherit', 'parent_methods': len(sm.entries), 'parent_fields': len(sf.entries)}
    rs = e.explore(inherit_path)
    _wrap3(res, e, rs, 'inherit')

    # ---- add_method / add_field
    e = _class_world(P, MB)

    def add_path(e):
        cls, cell, ix, m0, f0 = _fresh_class(e, P, 'cls', MB)
        others_m = [(k, _flat(e, c.get(e))) for k, c in m0.entries]
        name = AbsObj(z3.BitVec('newname', 64), 'LyStr')
        e.add_constraint(kind_of(name.id) == P.enum_def('laythe_core::object::ObjectKind').vindex['String'])
        meth = e.fresh(VALUE, 'meth')
        e.call(fadd, [Ref(cell), name, e.copy_value(meth)])
        r = e.call(fget, [Ref(cell), Ref(Cell(name))])
        t, got = _opt_flat(e, r)
        e.check(z3.And(t == 1, *[x == y for x, y in zip(got, _flat(e, meth))]) if got else False, 'add_method: the method is found under its name')
        for k, want in others_m:
            rr = e.call(fget, [Ref(cell), Ref(Cell(k))])
            tt, gg = _opt_flat(e, rr)
            e.check(z3.Implies(k.id != name.id, z3.And(tt == 1, *[x == y for x, y in zip(gg, want)])) if gg else z3.BoolVal(False),
                    'add_method: other methods are unchanged')
        is_init = string_content(e, name) == lit('init')
        init1 = cls.f[ix['init']].get(e) if ix['init'] in cls.f else None
        if init1 is not None:
            t1, v1 = _opt_flat(e, init1)
            e.check(z3.Implies(is_init, z3.And(t1 == 1, *[x == y for x, y in zip(v1, _flat(e, meth))])) if v1 else z3.Not(is_init),
                    'add_method: a method named init becomes the initialiser')
        # add_field
        others_f = [(k, c.get(e)) for k, c in f0.entries]
        n0 = len(f0.entries)
        fname = AbsObj(z3.BitVec('newfield', 64), 'LyStr')
        e.call(faddf, [Ref(cell), fname])
        r = e.call(fidx, [Ref(cell), Ref(Cell(fname))])
        existed = z3.Or(*[k.id == fname.id for k, _ in others_f]) if others_f else z3.BoolVal(False)
        t = r.tag if not isinstance(r.tag, int) else bv(r.tag, 64)
        got = r.field(e, 'Some', 0, 'u16').get(e) if not (isinstance(r.tag, int) and r.tag == 0) else bv(0, 16)
        e.check(t == 1, 'add_field: the field is found afterwards')
        e.check(z3.Implies(z3.Not(existed), got == n0), 'add_field: a new field is numbered after the existing ones (index == previous field count)')
        for k, want in others_f:
            rr = e.call(fidx, [Ref(cell), Ref(Cell(k))])
            gg = rr.field(e, 'Some', 0, 'u16').get(e) if not (isinstance(rr.tag, int) and rr.tag == 0) else None
            e.check(gg == want if gg is not None else False, 'add_field: existing fields keep their index')
        return {'fn': 'add_method/add_field'}
    rs = e.explore(add_path)
    _wrap3(res, e, rs, 'add')


def _wrap3(res, e, rs, what):
    for r in rs:
        if r.kind in ('panic', 'oob', 'unreachable', 'ub', 'diverge', 'depth'):
            res.fail(f'C03.K1:{what}:{r.kind}', f'{what}: path ends in {r.kind}: {str(r.info)[:200]}', {'path': str(r.info)})
    summarize_paths(res, e, rs, lambda r: r.info if isinstance(r.info, dict) else None, key_prefix=f'C03.K1:{what}:', unwind_ok=False)


@obligation('C03.K3.trailer_self_flag', 'C03', programs=('vm',))
def k3_trailer_self(res, tier):
    """Compiler::apply_trailers(is_self, trailers) for every sequence of up to 3 trailers (call / index / access in any order): a field
    access is compiled as an access on `self` (which allows the fixed slot of the enclosing class) only when it is the FIRST trailer
    and the primary it is applied to is `self`; after any trailer the receiver is some other object"""
    P = get_program('vm')
    e = Engine(P, loop_bound=6, timeout_s=120, max_depth=40)
    CW = CompilerWorld(e, P)
    f = P.lookup('compiler::Compiler::apply_trailers')
    res.bounds = {'trailers': '0..3, every variant at every position'}

    def rec(kind):
        def mdl(e_, a, c):
            e_.path_state.setdefault('trailer_events', []).append((kind, a[2] if kind == 'access' else None))
            return UNIT
        return mdl
    e.model(r'^(compiler::)?Compiler::call$', rec('call'))
    e.model(r'^(compiler::)?Compiler::index$', rec('index'))
    e.model(r'^(compiler::)?Compiler::access$', rec('access'))

    def path(e):
        c = CW.fresh_compiler(e)
        nv = z3.BitVec('n_trailers', 64)
        e.add_constraint(z3.ULE(nv, 3))
        n = e.concretize(nv, [0, 1, 2, 3])
        trailers = ConcSeq('compiler::ir::ast::Trailer', [Cell(e.fresh('compiler::ir::ast::Trailer', f'trailer{k}')) for k in range(n)])
        is_self0 = e.fork_bool(z3.Bool('primary_is_self'))
        e.call(f, [Ref(Cell(c)), is_self0, SliceRef(trailers, bv(0, 64), bv(n, 64))])
        ev = e.path_state.get('trailer_events', [])
        e.check(len(ev) == n, 'apply_trailers: one lowering call per trailer')
        for k, (kind, flag) in enumerate(ev):
            if kind != 'access':
                continue
            fl = flag if isinstance(flag, bool) else e.is_valid(to_z3_bool(flag))
            want = bool(is_self0) and k == 0
            e.check(fl == want, 'apply_trailers: only the first trailer, and only on a `self` primary, is an access on self (a later access applies to whatever the earlier trailers produced)',
                    {'position': k, 'primary_is_self': bool(is_self0), 'passed_is_self': fl, 'trailers': [x[0] for x in ev]})
        return {'trailers': [x[0] for x in ev], 'primary_is_self': bool(is_self0)}
    results = e.explore(path)
    for r in results:
        if r.kind in ('panic', 'oob', 'unreachable', 'ub', 'diverge', 'depth'):
            res.fail(f'C03.K3:apply_trailers:{r.kind}', f'apply_trailers: path ends in {r.kind}: {str(r.info)[:200]}', {'path': str(r.info)})
    summarize_paths(res, e, results, lambda r: r.info if isinstance(r.info, dict) else None, key_prefix='C03.K3:apply_trailers:', unwind_ok=False)


F49_SRC = 'class A {}\nlet a = A();\ntry { a.nope; } catch e: PropertyError { print("property"); } catch e: Error { print("other"); }\ntry { a.nope(1); } catch e: PropertyError { print("property"); } catch e: Error { print("other"); }\n'
F49_REPLAY = dict(kind='lay', source=F49_SRC, expect_stdout='property\nproperty\n')


@obligation('C03.K2.undeclared_property_error', 'C03', programs=('vm',))
def k2_undeclared(res, tier):
    """Vm::bind_method (the tail of every property read that found no field: obj.x, obj.x(args), super.x, Cls.x) for a class that has
    no method of that name: the error raised is the PropertyError of the built-ins, as for the fused invoke and for property writes"""
    from .c01 import END_KINDS
    P = get_program('vm')
    e = Engine(P, loop_bound=4, timeout_s=120, max_depth=40)
    W = VmWorld(e, P)
    W.havoc_objects(e)
    f = P.lookup('vm::Vm::bind_method')
    prop_key = W.field_key('vm::Vm', ['builtin', 'errors', 'property']) + '.id'
    res.bounds = {'class': 'any', 'name': 'any'}
    ed_opt = P.enum_def('Option')
    e.model(r'^(laythe_core::)?(object::)?(class::)?Class::get_method$', lambda e_, a, c: EnumV(norm_ty(c.dest_ty) if c.dest_ty else 'Option<Value>', 0, None, None, ed_opt))

    def path(e):
        st = W.fresh_state(e)
        cls = AbsObj(z3.BitVec('the_class', 64), 'ObjRef<Class>')
        name = AbsObj(z3.BitVec('the_name', 64), 'LyStr')
        outcome = None
        try:
            e.call(f, [Ref(st.vm_cell), cls, name])
        except PathEnd as pe:
            if pe.kind not in END_KINDS:
                raise
            outcome = e.path_state.get('outcome')
        e.check(outcome is not None and outcome[0] == 'runtime_error' and outcome[1] == prop_key,
                'bind_method: an undeclared property read raises the PropertyError class', {'raised': str(outcome)[:120]})
        return {'raised': str(outcome)[:80]}
    results = e.explore(path)
    for r in results:
        for lab, ok, info in list(r.checks):
            if not ok:
                res.fail('C03.K2:undeclared property read raises RuntimeError', 'Vm::bind_method raises errors.runtime where every other undeclared-property path raises errors.property: '
                         'catch e: PropertyError does not see obj.nope / obj.nope(1) / super.nope / Cls.nope', info, replay=F49_REPLAY)
                r.checks.remove((lab, ok, info))
        if r.kind in ('panic', 'oob', 'unreachable', 'ub', 'diverge', 'depth'):
            res.fail(f'C03.K2:bind_method:{r.kind}', f'bind_method: path ends in {r.kind}: {str(r.info)[:200]}', {'path': str(r.info)})
    summarize_paths(res, e, results, lambda r: r.info if isinstance(r.info, dict) else None, key_prefix='C03.K2:bind_method:', unwind_ok=False)
