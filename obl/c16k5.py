"""C16.K5 — sizes that natives compute from iterator hints never take the host down.

`size_hint` of an iterator is an arbitrary usize (TimesIterator reports its float bound saturated to usize::MAX); natives add hints
(chain), and pre-allocate from them (list / collect).  Two obligations: every `Enumerate::size_hint` is total for arbitrary inner
hints; every allocation request a native derives from a hint satisfies the precondition of the vector layout computation
(offset + capacity * size_of::<Value>() <= isize::MAX: make_vector_layout panics otherwise, and wraps in release builds)."""
import re
import z3
from vfw.core import obligation
from mirsym.values import *
from mirsym.tys import *
from .c16natives import NativeCastWorld, native_table, _call_fn, RECEIVER, _arg_shapes
from .c01 import VALUE

F33_SRC = 'print(1e300.times().chain(1e300.times()).len());\nprint("after");\n'
F34_SRC = ('fn f(x) { if x > 2 { raise Error("stop"); } return x; }\ntry {\n  1e300.times().map(f).list();\n} catch e: Error {\n  print("caught");\n}\n'
           'print("after");\n')
PANIC_RE = r'panicked at|overflow'


def _size_hint_impls(P):
    out = []
    for rel, src in sorted(P.items.files.items()):
        if not rel.startswith('laythe_lib/src/'):
            continue
        body = src.split('#[cfg(test)]')[0]
        for m in re.finditer(r'^impl Enumerate for (\w+)\b', body, re.M):
            line = body.count('\n', 0, m.start()) + 1
            c = [f for f in P.fns if f.name.endswith('::size_hint') and f'<impl at {rel}:{line}:' in f.name]
            out.append((rel, m.group(1), c[0] if len(c) == 1 else None))
    return out


@obligation('C16.K5.size_hint_total', 'C16', programs=('vm',), also=('C11',))
def k5_size_hint(res, tier):
    """every `Enumerate::size_hint` of the standard library on an arbitrary iterator state whose inner iterators report arbitrary
    hints (any usize or none): it returns; no arithmetic overflow, no panic"""
    NW = NativeCastWorld()
    P = NW.P
    decided, outside = [], []
    res.bounds = {'inner iterators of chain / zip': '0..3', 'inner hints': 'any usize or None'}
    for rel, struct, f in _size_hint_impls(P):
        if f is None:
            outside.append(f'{struct}: size_hint not located')
            continue
        W = NativeCastWorld()
        e = W.e
        sds = [d for d in P.items.structs.get(struct, []) if d.file == rel]

        def observer(norm, args, r, how, e=e):
            if how != 'mir' and norm.endswith('::size_hint') and isinstance(r, EnumV) and 'inner_hints' in e.path_state:
                e.path_state['inner_hints'].append(r)
        e.call_observer = observer

        def path(e, f=f, struct=struct, sds=sds):
            W.W.fresh_state(e)
            e.path_state['casts'] = []
            e.path_state['inner_hints'] = []
            me = Struct(struct, None, NameBacking('iterator_self')) if sds and sds[0].fields else Struct(struct, {}, None)
            r = e.call(f, [Ref(Cell(me))])
            e.check(True, f'{struct}::size_hint returns')
            if struct == 'ZipIterator' and isinstance(r, EnumV):
                # the reference model: a zip is as long as its shortest input
                hints = e.path_state['inner_hints']
                def _tag(x):
                    if isinstance(x.tag, int):
                        return x.tag
                    return 1 if e.is_valid(x.tag == 1) else (0 if e.is_valid(x.tag == 0) else None)
                tags = [_tag(h) for h in hints]
                rt = _tag(r)
                if hints and all(t == 1 for t in tags) and rt is not None:
                    vals = [h.field(e, 'Some', 0, 'usize').get(e) for h in hints]
                    mn = vals[0]
                    for v in vals[1:]:
                        mn = z3.If(z3.ULT(v, mn), v, mn)
                    e.check(rt == 1 and e.is_valid(r.field(e, 'Some', 0, 'usize').get(e) == mn), 'ZipIterator::size_hint is the smallest hint of its inputs (a zip ends with its shortest input)',
                            {'inputs': len(hints)})
            return {'iterator': struct}
        try:
            results = e.explore(path)
        except Unsupported as ex:
            outside.append(f'{struct}: {str(ex)[:140]}')
            continue
        unsup = [r for r in results if r.kind in ('unsupported', 'budget')]
        for r in results:
            res.checks += len(r.checks)
            for lab, okc, info in r.checks:
                if not okc:
                    res.fail(f'C16.K5:{struct}::size_hint: wrong value', lab + ' fails', info)
            if r.kind in ('panic', 'oob', 'ub'):
                s = str(r.info)
                replay = dict(kind='lay', source=F33_SRC, bad_re=PANIC_RE, expect_stdout=None) if struct == 'ChainIterator' else None
                if replay:
                    replay.pop('expect_stdout')
                res.fail(f'C16.K5:{struct}::size_hint:{r.kind}', f'{struct}::size_hint ends in {r.kind} for some inner hints: {s[:200]}', {'path': s}, replay=replay)
        res.absorb(e)
        res.paths += len(results)
        if any(r.kind == 'ok' for r in results):
            res.nontrivial += 1
            decided.append(struct + (' (some paths not encoded)' if unsup else ''))
        elif unsup:
            outside.append(f'{struct}: {str(unsup[0].info)[:160]}')
    res.bounds['iterators decided'] = decided
    res.outside = (res.outside or []) + ['not encoded: ' + x for x in outside]


@obligation('C16.K5.allocation_requests', 'C16', programs=('vm',))
def k5_alloc_requests(res, tier):
    """every native of the standard library that pre-allocates (VecBuilder::cap_only / with_capacity from an iterator's size hint or an
    argument): the requested capacity satisfies the precondition of the vector layout computation on every path, for arbitrary hints"""
    NW = NativeCastWorld()
    P = NW.P
    sz = 8 if 'nan_boxing' in P.features else 16        # size_of::<Value>() (C20.K1 decides the layouts against rustc's type sizes)
    limit = ((1 << 63) - 1 - 64) // sz
    decided, outside = [], []
    res.bounds = {'size hints': 'any usize or None', 'limit': f'capacity * {sz} + header <= isize::MAX'}
    res.assumptions = ['make_vector_layout(capacity) panics (debug) or wraps (release) beyond that limit: read from laythe_core/src/align_utils.rs']
    for ent in native_table(P):
        if ent['meta'] is None:
            continue
        src = P.items.files[ent['file']]
        mm = re.search(r'^impl LyNative for ' + ent['struct'] + r'\b.*?^\}', src, re.M | re.S)
        if not mm or not re.search(r'cap_only\(|with_capacity\(', mm.group(0)):
            continue
        f = _call_fn(P, ent['file'], ent['struct'])
        if f is None:
            continue
        label = ent['struct']
        recv = None
        for k, v in RECEIVER.items():
            if ent['file'].endswith(k):
                recv = v
        meta = ent['meta']
        shapes = _arg_shapes(meta, 1)
        W = NativeCastWorld()
        e = W.e

        def m_cap_only(e_, a, c):
            cap = a[0]
            e_.check(z3.ULE(cap, limit), f'{label}: the capacity requested from the allocator is within what the vector layout can express', {'capacity': str(z3.simplify(cap))[:80]})
            e_.path_state.setdefault('requests', []).append(cap)
            return NotImplemented
        e.model(r'^(laythe_core::)?(collections::)?(vec_builder::)?VecBuilder::cap_only$', m_cap_only)

        def path(e, ent=ent, f=f, meta=meta, shapes=shapes, recv=recv):
            W.W.fresh_state(e)
            e.path_state['casts'] = []
            si = 0
            if len(shapes) > 1:
                sv = z3.BitVec('shape', 64)
                e.add_constraint(z3.ULT(sv, len(shapes)))
                si = e.concretize(sv, list(range(len(shapes))))
            vals = []
            if meta['is_method']:
                v = e.fresh(VALUE, 'receiver')
                W.constrain(e, v, recv or 'Object')
                vals.append(v)
            for j, k in enumerate(list(shapes[si])):
                v = e.fresh(VALUE, f'arg{j}')
                W.constrain(e, v, k)
                vals.append(v)
            args = ConcSeq('Value', [Cell(v) for v in vals])
            me = Struct(label, {}, None)
            e.call(f, [Ref(Cell(me)), Ref(Cell(Opaque('Hooks', 'hooks'))), SliceRef(args, bv(0, 64), bv(len(vals), 64))])
            return {'native': label, 'requests': len(e.path_state.get('requests', []))}
        try:
            results = e.explore(path)
        except Unsupported as ex:
            outside.append(f'{label}: {str(ex)[:140]}')
            continue
        seen = set()
        for r in results:
            for lab, okc, info in r.checks:
                res.checks += 1
                if not okc and lab not in seen:
                    seen.add(lab)
                    res.fail(f'C16.K5:{label}: unbounded allocation request', lab + ' fails: an iterator whose size hint is huge (1e300.times()) makes the native request a capacity whose byte size overflows',
                             info, replay=dict(kind='lay', source=F34_SRC, bad_re=PANIC_RE, expect_stdout='caught\nafter\n'))
        res.absorb(e)
        res.paths += len(results)
        unsup = [r for r in results if r.kind in ('unsupported', 'budget')]
        if any(r.kind == 'ok' and isinstance(r.info, dict) and r.info.get('requests') for r in results) or seen:
            res.nontrivial += 1
            decided.append(label + (' (some paths not encoded)' if unsup else ''))
        elif unsup:
            outside.append(f'{label}: {str(unsup[0].info)[:160]}')
    res.bounds['natives decided'] = decided
    res.outside = (res.outside or []) + ['not encoded: ' + x for x in outside]
