"""C15.K2 — the scanner is total on bounded inputs: every source text made of a fixed prefix followed by up to K arbitrary Unicode
characters is tokenised to Eof without a panic, with every slice of the source taken at character boundaries and every token span
inside the text.

The source is a sequence of symbolic characters (any Unicode scalar value each, so 1-4 bytes each); byte offsets are sums of UTF-8
widths.  `Scanner::new` and `Scanner::scan_token` and everything they call in scanner.rs run from MIR; the character iterators and
string slicing of the standard library are modelled exactly on that representation (slicing off a boundary is the panic it is in
Rust)."""
import z3
from vfw.core import obligation, get_program, summarize_paths
from mirsym.engine import Engine
from mirsym.values import *
from mirsym.tys import *

BV64 = z3.BitVecSort(64)


def _width(c):
    return z3.If(z3.ULT(c, 0x80), bv(1, 64), z3.If(z3.ULT(c, 0x800), bv(2, 64), z3.If(z3.ULT(c, 0x10000), bv(3, 64), bv(4, 64))))


class Src:
    """the whole source text"""
    def __init__(self, e, prefix, k):
        self.chars = [bv(ord(ch), 32) for ch in prefix]
        for i in range(k):
            c = z3.BitVec(f'ch{i}', 32)
            e.add_constraint(z3.And(z3.ULE(c, 0x10FFFF), z3.Or(z3.ULT(c, 0xD800), z3.UGT(c, 0xDFFF))))
            self.chars.append(c)
        self.n = z3.BitVec('n_chars', 64)
        e.add_constraint(z3.And(z3.UGE(self.n, len(prefix)), z3.ULE(self.n, len(self.chars))))
        self.off = [bv(0, 64)]
        for c in self.chars:
            self.off.append(z3.simplify(self.off[-1] + _width(c)))
        self.len = self.off[-1]
        # total byte length = offset of char n
        self.len = z3.simplify(self._sel(self.n))

    def _sel(self, idx):
        r = self.off[-1]
        for k in range(len(self.off) - 2, -1, -1):
            r = z3.If(idx == k, self.off[k], r)
        return r

    def boundary(self, x):
        return z3.Or(*[z3.And(z3.ULE(bv(k, 64), self.n), x == self.off[k]) for k in range(len(self.off))])

    def copy_value(self, eng):
        return self

    def slice_len(self, eng):
        return self.len


class Sub:
    """&source[start..end]"""
    def __init__(self, src, start, end):
        self.src, self.start, self.end = src, start, end

    def copy_value(self, eng):
        return self


class CharIndices:
    """Peekable<CharIndices>: position = index of the next character"""
    def __init__(self, src, pos=0):
        self.src, self.pos = src, pos

    def copy_value(self, eng):
        return CharIndices(self.src, self.pos)


class Chars:
    """str::Chars over a slice that starts at a character boundary: index of the next character"""
    def __init__(self, src, pos, end):
        self.src, self.pos, self.end = src, pos, end

    def copy_value(self, eng):
        return Chars(self.src, self.pos, self.end)


class ScanWorld:
    def __init__(self, prog='vm-dbg', max_tokens=8):
        self.P = P = get_program(prog)
        self.e = e = Engine(P, loop_bound=12, timeout_s=6 * 3600, max_depth=60, max_paths=2000000)
        m = e.model
        OPT = P.enum_def('Option')

        def some(ty, v):
            return EnumV(ty, 1, {'Some': {0: Cell(v)}}, None, OPT)

        def none(ty):
            return EnumV(ty, 0, None, None, OPT)

        def src_of(e_, v):
            while isinstance(v, Ref):
                v = v.cell.get(e_)
            return v

        def to_sub(e_, v):
            v = src_of(e_, v)
            if isinstance(v, Src):
                return Sub(v, bv(0, 64), v.len)
            if isinstance(v, Sub):
                return v
            return None

        def has_char(e_, src, pos):
            """fork: is there a character at index pos?"""
            if pos >= len(src.chars):
                return False
            return e_.fork_bool(z3.ULT(bv(pos, 64), src.n))

        # ---- iterators over the source
        m(r'^core::str::<impl str>::char_indices$', lambda e_, a, c: CharIndices(src_of(e_, a[0]), 0))
        m(r'^<(std|core)::str::CharIndices as (std::iter::|core::iter::)?Iterator>::peekable$', lambda e_, a, c: a[0])
        m(r'^<.* as (std::iter::|core::iter::)?Iterator>::peekable$', lambda e_, a, c: a[0] if isinstance(src_of(e_, a[0]), CharIndices) else NotImplemented)

        def pk(e_, v):
            v = src_of(e_, v)
            if not isinstance(v, CharIndices):
                raise Unsupported('expected the character iterator, got ' + type(v).__name__)
            return v

        def item(it):
            return Struct('()', {0: Cell(it.src.off[it.pos]), 1: Cell(it.src.chars[it.pos])}, None)

        def m_pk_next(e_, a, c):
            it = pk(e_, a[0])
            if has_char(e_, it.src, it.pos):
                v = item(it)
                it.pos += 1
                return some('Option<(usize, char)>', v)
            return none('Option<(usize, char)>')
        m(r'^<(std::iter::|core::iter::)?Peekable as (std::iter::|core::iter::)?Iterator>::next$', m_pk_next)
        m(r'^(std::iter::|core::iter::)?Peekable::next$', m_pk_next)

        def m_pk_peek(e_, a, c):
            it = pk(e_, a[0])
            if has_char(e_, it.src, it.pos):
                return some('Option<&(usize, char)>', Ref(Cell(item(it))))
            return none('Option<&(usize, char)>')
        m(r'^(std::iter::|core::iter::)?Peekable::peek$', m_pk_peek)

        def m_pk_next_if(e_, a, c):
            it = pk(e_, a[0])
            if has_char(e_, it.src, it.pos):
                v = item(it)
                r = e_.call_value(c.frame, a[1], [Ref(Cell(v))])
                if e_.fork_bool(to_z3_bool(r)):
                    it.pos += 1
                    return some('Option<(usize, char)>', v)
            return none('Option<(usize, char)>')
        m(r'^(std::iter::|core::iter::)?Peekable::next_if$', m_pk_next_if)

        def char_index_at(e_, src, off):
            """character index whose byte offset is `off` (the caller established that off is a boundary)"""
            opts = [(z3.And(z3.ULE(bv(k, 64), src.n), off == src.off[k]), k) for k in range(len(src.off))]
            return e_.branch(opts)

        def m_chars(e_, a, c):
            s = to_sub(e_, a[0])
            if s is None:
                return NotImplemented
            k = char_index_at(e_, s.src, s.start)
            return Chars(s.src, k, s.end)
        m(r'^core::str::<impl str>::chars$', m_chars)

        def m_chars_next(e_, a, c):
            it = src_of(e_, a[0])
            if not isinstance(it, Chars):
                return NotImplemented
            if it.pos < len(it.src.chars) and e_.fork_bool(z3.And(z3.ULT(bv(it.pos, 64), it.src.n), z3.ULT(it.src.off[it.pos], it.end))):
                ch = it.src.chars[it.pos]
                it.pos += 1
                return some('Option<char>', ch)
            return none('Option<char>')
        m(r'^<(std|core)::str::Chars as (std::iter::|core::iter::)?Iterator>::next$', m_chars_next)

        # ---- lengths, boundaries, slicing
        def m_len(e_, a, c):
            v = src_of(e_, a[0])
            if isinstance(v, Src):
                return v.len
            if isinstance(v, Sub):
                return z3.simplify(v.end - v.start)
            if isinstance(v, StrV):
                return bv(len(v.s.encode()), 64)
            return NotImplemented
        m(r'^core::str::<impl str>::len$', m_len)

        def m_is_boundary(e_, a, c):
            v = src_of(e_, a[0])
            if not isinstance(v, Src):
                return NotImplemented
            return as_bool(z3.simplify(v.boundary(a[1])))
        m(r'^core::str::<impl str>::is_char_boundary$', m_is_boundary)

        def m_index(e_, a, c):
            s = to_sub(e_, a[0])
            if s is None:
                return NotImplemented
            rng = a[1]
            while isinstance(rng, Ref):
                rng = rng.cell.get(e_)
            base = s.start
            if 'RangeFrom' in c.callee:
                lo, hi = rng.f[0].get(e_), z3.simplify(s.end - base)
            elif 'RangeTo' in c.callee:
                lo, hi = bv(0, 64), rng.f[0].get(e_)
            else:
                lo, hi = rng.f[0].get(e_), rng.f[1].get(e_)
            lo2, hi2 = z3.simplify(base + lo), z3.simplify(base + hi)
            okc = z3.And(z3.ULE(lo, hi), z3.ULE(hi2, s.end), s.src.boundary(lo2), s.src.boundary(hi2))
            e_.path_state['slices'].append((lo2, hi2))
            if not e_.fork_bool(okc):
                raise PathEnd('panic', ('str slice outside the text or off a character boundary', str(lo2), str(hi2)))
            return Sub(s.src, lo2, hi2)
        m(r'^<str as (std::ops::|core::ops::)?Index>::index$', m_index)
        m(r'^core::str::traits::<impl (std::ops::|core::ops::)?Index<.*> for str>::index$', m_index)

        def m_str_eq(e_, a, c):
            x, y = src_of(e_, a[0]), src_of(e_, a[1])
            if isinstance(x, StrV) and isinstance(y, (Sub, Src)):
                x, y = y, x
            if isinstance(x, (Sub, Src)) and isinstance(y, StrV):
                s = to_sub(e_, x)
                lit = y.s.encode()
                conds = [z3.simplify(s.end - s.start) == len(lit)]
                for i, b in enumerate(lit):
                    o = z3.simplify(s.start + i)
                    conds.append(z3.Or(*[z3.And(s.src.off[k] == o, s.src.chars[k] == b) for k in range(len(s.src.chars))]))
                r = as_bool(z3.simplify(z3.And(*conds)))
                return (not r if isinstance(r, bool) else z3.Not(r)) if c.norm.endswith('::ne') else r
            return NotImplemented
        m(r'^<(&)?str as (std::cmp::|core::cmp::)?PartialEq(<.*>)?>::(eq|ne)$', m_str_eq)
        m(r'^core::str::traits::<impl (std::cmp::|core::cmp::)?PartialEq for str>::(eq|ne)$', m_str_eq)
        m(r'^(std::cmp::|core::cmp::)?impls::<impl (std::cmp::|core::cmp::)?PartialEq<&.*> for &.*>::(eq|ne)$', m_str_eq)

        # ---- characters
        m(r'^(core::)?char::methods::<impl char>::len_utf8$', lambda e_, a, c: _width(a[0]))
        m(r'^(core::)?char::methods::<impl char>::is_ascii_digit$', lambda e_, a, c: as_bool(z3.simplify(z3.And(z3.UGE(src_of(e_, a[0]), ord('0')), z3.ULE(src_of(e_, a[0]), ord('9'))))))
        m(r'^(core::)?char::methods::<impl char>::is_ascii_uppercase$', lambda e_, a, c: as_bool(z3.simplify(z3.And(z3.UGE(src_of(e_, a[0]), ord('A')), z3.ULE(src_of(e_, a[0]), ord('Z'))))))
        m(r'^(core::)?char::methods::<impl char>::is_ascii_lowercase$', lambda e_, a, c: as_bool(z3.simplify(z3.And(z3.UGE(src_of(e_, a[0]), ord('a')), z3.ULE(src_of(e_, a[0]), ord('z'))))))

        # ---- tokens are recorded, strings being built are not the subject
        def m_token_new(e_, a, c):
            e_.path_state['tokens'].append((a[0], a[2], a[3]))
            return Opaque('Token', 'token')
        m(r'^(compiler::)?(ir::)?(token::)?Token::new$', m_token_new)
        # u32::from_str_radix: any result, but it can only succeed on hexadecimal digits (an optional leading sign included): a line
        # break or any other character inside the braces makes it fail
        def m_from_str_radix(e_, a, c):
            r = e_.fresh(norm_ty(c.dest_ty), e_.fresh_name('from_str_radix'))
            sub = to_sub(e_, a[0])
            if sub is not None and isinstance(r, EnumV) and not isinstance(r.tag, int):
                conds = []
                for k in range(len(sub.src.chars)):
                    ch = sub.src.chars[k]
                    inside = z3.And(z3.UGE(sub.src.off[k], sub.start), z3.ULT(sub.src.off[k], sub.end), z3.ULT(bv(k, 64), sub.src.n))
                    hexd = z3.Or(z3.And(z3.UGE(ch, ord('0')), z3.ULE(ch, ord('9'))), z3.And(z3.UGE(ch, ord('a')), z3.ULE(ch, ord('f'))),
                                 z3.And(z3.UGE(ch, ord('A')), z3.ULE(ch, ord('F'))), ch == ord('+'))
                    conds.append(z3.Implies(inside, hexd))
                e_.add_constraint(z3.Implies(r.tag == 0, z3.And(*conds)))
            return r
        m(r'^(core::)?num::<impl u32>::from_str_radix$', m_from_str_radix)
        e.allow_havoc(r'^(std|alloc|core)::fmt::', r'Arguments::', r'^format$', r'^must_use$', r'^(std::string::|alloc::string::)?String::\w+$', r'^(std::char::|core::char::)?(convert::)?from_u32$', r'^(core::)?char::methods::<impl char>::from_u32$',
                      r'^<.* as (std::string::|alloc::string::)?ToString>::to_string$', r'^(source::)?(files::)?LineOffsets::new$')
        self.fnew = P.lookup('compiler::scanner::Scanner::new') or P.lookup('Scanner::new')
        self.fscan = P.lookup('compiler::scanner::Scanner::scan_token') or P.lookup('Scanner::scan_token')
        self.tk = P.enum_def('compiler::ir::token::TokenKind') or P.enum_def('TokenKind')
        self.max_tokens = max_tokens


def _scan_obligation(res, prefix, k, label):
    W = ScanWorld()
    e, P = W.e, W.P
    res.bounds = {'source text': f'{prefix!r} followed by 0..{k} arbitrary Unicode characters (any scalar value each)', 'tokens': f'<= {len(prefix) + k + 1}'}
    res.assumptions = ['u32::from_str_radix succeeds only on hexadecimal digits, otherwise its result is arbitrary; char::from_u32 / String building summarised (arbitrary results)']

    def path(e):
        e.path_state['tokens'] = []
        e.path_state['slices'] = []
        src = Src(e, prefix, k)
        sc = e.call(W.fnew, [src])
        limit = len(prefix) + k + 1
        eof = False
        for _ in range(limit + 1):
            e.call(W.fscan, [Ref(Cell(sc))] if not isinstance(sc, Ref) else [sc])
            kind, start, end = e.path_state['tokens'][-1]
            if isinstance(kind, EnumV) and kind.variant_name() == 'Eof':
                eof = True      # (the Eof token of the empty text spans [0, 1): harmless, nothing slices it; not demanded here)
                break
            e.check(z3.And(z3.ULE(z3.ZeroExt(32, start), z3.ZeroExt(32, end)), z3.ULE(z3.ZeroExt(32, end), src.len)) if isinstance(start, z3.ExprRef) else True,
                    'every token span lies inside the text')
            if isinstance(kind, EnumV) and kind.variant_name() == 'Eof':
                eof = True
                break
        e.check(eof, 'the scanner reaches the end of the text (every token consumes at least one character)', {'tokens': len(e.path_state['tokens'])})
        # the line table (what tracebacks and diagnostics turn offsets into lines with): one entry per line of the text, wherever the
        # line breaks sit (code, comments, inside string literals)
        scv = sc
        while isinstance(scv, Ref):
            scv = scv.cell.get(e)
        ssd = P.struct_def(scv.ty)
        li = [i for i, (n_, _) in enumerate(ssd.fields) if n_ == 'line_offsets']
        no_error = all(not (isinstance(kd, EnumV) and kd.variant_name() == 'Error') for kd, _, _ in e.path_state['tokens'])
        if li and eof and no_error:
            # (a text with a scan error is rejected as a whole; only the first diagnostic is then guaranteed to sit on its line)
            offs = scv.field(e, li[0], ssd.fields[li[0]][1]).get(e)
            newlines = bv(0, 64)
            for i_, ch in enumerate(src.chars):
                newlines = newlines + z3.If(z3.And(z3.ULT(bv(i_, 64), src.n), ch == 10), bv(1, 64), bv(0, 64))
            e.check(offs.len == 1 + newlines, 'the line table has one entry per line of the text (a line break inside a string literal or a comment counts)',
                    {'entries': str(z3.simplify(offs.len))[:60]})
        return {'prefix': prefix, 'tokens': len(e.path_state['tokens'])}
    results = e.explore(path)
    for r in results:
        if r.kind in ('oob', 'unreachable', 'ub', 'diverge', 'depth', 'panic'):
            res.fail(f'C15.K2:{label}:{r.kind}', f'scanner on {prefix!r}+{k} chars: path ends in {r.kind}: {str(r.info)[:300]}', {'path': str(r.info)})
    summarize_paths(res, e, results, lambda r: r.info if isinstance(r.info, dict) else None, key_prefix=f'C15.K2:{label}:', unwind_ok=False)


PREFIXES = [
    # (name, prefix, extra characters quick, thorough): 3 extra characters are decided within minutes only for the prefixes whose
    # continuation stays inside one token kind (measured: comment 106 s, single_quote 108 s, string 138 s, unicode_escape 332 s,
    # escape 672 s; the others exceed 20 min at 3 and stay at 2)
    ('empty', '', 2, 2),
    ('string', '"', 2, 3),
    ('escape', '"\\', 2, 3),
    ('unicode_escape', '"\\u{', 2, 3),
    ('interpolation', '"${', 2, 2),
    ('single_quote', "'", 2, 3),
    ('number', '1', 2, 2),
    ('number_dot', '1.', 2, 2),
    ('number_exp', '1e', 2, 2),
    ('identifier', 't', 2, 2),
    ('instance_access', '@', 2, 2),
    ('slash', '/', 2, 2),
    ('space_slash', ' /', 2, 2),
    ('comment', '//', 2, 3),
]

for _name, _prefix, _kq, _kt in PREFIXES:
    def _mk(name=_name, prefix=_prefix, kq=_kq, kt=_kt):
        @obligation('C15.K2.scan_' + name, 'C15', programs=('vm-dbg',), also=(('C18',) if name in ('string', 'single_quote', 'comment') else ()))
        def ob(res, tier):
            _scan_obligation(res, prefix, kq if tier == 'quick' else kt, name)
        ob.__doc__ = f"""Scanner::new + scan_token to Eof on every text {prefix!r} + up to {kq} (quick) / {kt} arbitrary characters: no panic, slices at
        character boundaries, token spans inside the text, progress"""
        # the registry reads the docstring at decoration time; set it explicitly
        from vfw.core import REGISTRY
        for o in REGISTRY.get('C15', []):
            if o.id == 'C15.K2.scan_' + name:
                o.doc = ob.__doc__.strip()
        return ob
    _mk()
