"""C06.K2 / C01.K3 — the call protocol on the fiber: stack reservation with relocation, frame push and frame pop.

The operand stack is a buffer that may MOVE when it grows (reserve returns a new buffer); every pointer into it (stack_top and the
stack_start of every frame) must be rebased.  The model gives the relocated buffer a new identity, so a pointer that was not rebased
points into the released buffer and is reported."""
import z3
from vfw.core import obligation, get_program, summarize_paths
from mirsym.engine import Engine
from mirsym.values import *
from mirsym.tys import *
from .vmabs import VmWorld, AbsObj, AbsUVec, install_gc_refs

MAXF = 3
MAXGROW = 5


class FiberWorld:
    def __init__(self):
        self.P = P = get_program('vm')
        self.e = e = Engine(P, loop_bound=MAXGROW + 3, timeout_s=240, max_depth=50)
        self.W = W = VmWorld(e, P)
        install_gc_refs(e, exclude=('Fiber',))
        m = e.model

        def uv(e_, v):
            while isinstance(v, Ref):
                v = v.cell.get(e_)
            if not isinstance(v, AbsUVec):
                raise Unsupported('expected UniqueVector, got ' + type(v).__name__)
            return v
        UV = r'^(laythe_core::)?(collections::)?(unique_vector::)?UniqueVector::'
        m(UV + r'as_(mut_)?ptr$', lambda e_, a, c: SeqPtr(uv(e_, a[0]).seq, bv(0, 64)))

        def m_reserve(e_, a, c):
            v = uv(e_, a[0])
            add = a[-1]
            old = v.seq
            need = z3.simplify(v.len + add)
            if e_.fork_bool(z3.ULE(need, old.len)):
                return UNIT          # enough capacity: nothing moves
            k = len(e_.path_state.setdefault('relocations', []))
            newcap = z3.BitVec(f'new_cap{k}', 64)
            # the growth policy (reserve_cap_growth) is free to over-allocate; the fill loop that follows is unrolled, so the claim is
            # bounded to growths of at most MAXGROW slots (see bounds)
            e_.add_constraint(z3.And(z3.UGE(newcap, need), z3.ULE(newcap - v.len, MAXGROW)))
            new = SymSeq(old.elem_ty, old.arr, newcap, old.scalar_sort, old.tyname)
            v.seq = new
            e_.path_state['relocations'].append((old, new))
            return UNIT
        m(UV + r'reserve$', m_reserve)

        def m_push(e_, a, c):
            v = uv(e_, a[0])
            if not e_.fork_bool(z3.ULT(v.len, v.seq.len)):
                raise Unsupported('frames vector growth is outside this obligation')
            e_.seq_cell(v.seq, v.len).set(e_, a[-1])
            v.len = z3.simplify(v.len + 1)
            return UNIT
        m(UV + r'push$', m_push)

        def m_pop(e_, a, c):
            v = uv(e_, a[0])
            oty = norm_ty(c.dest_ty) if c.dest_ty else 'Option'
            if e_.fork_bool(v.len == 0):
                return e_.mk_option(e_, oty)
            v.len = z3.simplify(v.len - 1)
            return e_.mk_option(e_, oty, e_.seq_cell(v.seq, v.len).get(e_))
        m(UV + r'pop$', m_pop)
        e.allow_havoc(r'^<.* as (laythe_core::)?(\w+::)*GcContext>::gc$', r'^(fiber::)?assert_inbounds$', r'^(fiber::)?Fiber::(assert_frame_inbounds|assert_stack_inbounds)$')
        self.fib_sd = P.struct_def('fiber::Fiber')
        self.ix = {n: i for i, (n, _) in enumerate(self.fib_sd.fields)}
        self.cf_sd = P.struct_def('fiber::call_frame::CallFrame')
        self.cfx = {n: i for i, (n, _) in enumerate(self.cf_sd.fields)}

    def fiber(self, e):
        """a fiber whose stack buffer is completely filled (len == cap), with 1..MAXF frames whose stack_start pointers are arbitrary
        positions at or below the stack top"""
        st = self.W.fresh_state(e, room=0)
        fiber = st.fiber
        fiber.f[self.ix['stack']] = Cell(AbsUVec(st.stack, st.cap))
        nfv = z3.BitVec('n_frames', 64)
        e.add_constraint(z3.And(z3.UGE(nfv, 1), z3.ULE(nfv, MAXF)))
        nf = e.concretize(nfv, list(range(1, MAXF + 1)))
        # concrete cells: the frames hold pointers whose target buffer matters (a symbolic sequence would forget which buffer)
        frames = ConcSeq('fiber::call_frame::CallFrame', [Cell(e.fresh('fiber::call_frame::CallFrame', f'frame{k}')) for k in range(MAXF + 1)])
        starts = []
        for k in range(nf):
            fr = frames.cells[k].get(e)
            s = z3.BitVec(f'start{k}', 64)
            e.add_constraint(z3.ULE(s, st.sp))
            fr.f[self.cfx['stack_start']] = Cell(SeqPtr(st.stack, s))
            starts.append(s)
        fiber.f[self.ix['frames']] = Cell(AbsUVec(frames, bv(nf, 64)))
        fiber.f[self.ix['frame']] = Cell(SeqPtr(frames, bv(nf - 1, 64)))
        st.nf, st.starts, st.frames2 = nf, starts, frames
        return st

    def frame_start(self, e, st, k):
        v = st.fiber.f[self.ix['frames']].get(e)
        fr = e.seq_cell(v.seq, bv(k, 64)).get(e)
        return fr.field(e, self.cfx['stack_start'], self.cf_sd.fields[self.cfx['stack_start']][1]).get(e)


def _finish(res, e, results, prefix):
    if not any(isinstance(r.info, dict) and r.info.get('moved') for r in results if r.kind == 'ok'):
        res.inconclusive('vacuous: no explored path relocates the stack buffer')
    for r in results:
        if r.kind in ('oob', 'unreachable', 'ub', 'diverge', 'depth', 'panic'):
            res.fail(f'{prefix}{r.kind}', f'path ends in {r.kind}: {str(r.info)[:300]}', {'path': str(r.info)})
    summarize_paths(res, e, results, lambda r: r.info if isinstance(r.info, dict) else None, key_prefix=prefix, unwind_ok=False)


@obligation('C06.K2.ensure_stack', 'C06', programs=('vm',), also=('C01',))
def k2_ensure_stack(res, tier):
    """Fiber::ensure_stack(additional) from any fiber with 1..3 frames: afterwards there is room for `additional` more values above the
    stack top, and if the buffer moved, stack_top and the stack_start of EVERY frame point into the new buffer at their old offsets"""
    FW = FiberWorld()
    e, P = FW.e, FW.P
    f = P.lookup('fiber::Fiber::ensure_stack')
    res.bounds = {'frames': f'1..{MAXF}', 'additional': f'any below 2^32 when nothing moves; at most {MAXGROW} when the buffer grows (the fill loop is unrolled)', 'stack': 'any size, any fill'}
    res.assumptions = ['the buffer is completely filled (len == cap: established by ensure_stack itself and Fiber::new)', 'reserve copies the contents to the new buffer']

    def path(e):
        st = FW.fiber(e)
        add = z3.BitVec('additional', 64)
        e.add_constraint(z3.ULT(add, 1 << 32))
        sp0 = st.sp
        e.call(f, [Ref(Cell(st.fiber)), Ref(Cell(Opaque('Vm', 'context'))), add])
        stack = st.fiber.f[FW.ix['stack']].get(e)
        top = st.fiber.f[FW.ix['stack_top']].get(e)
        moved = e.path_state.get('relocations', [])
        e.check(isinstance(top, SeqPtr) and top.seq is stack.seq, 'ensure_stack: the stack top points into the current buffer')
        e.check(top.idx == sp0, 'ensure_stack: the stack top keeps its offset')
        e.check(z3.UGE(stack.seq.len, sp0 + add), 'ensure_stack: there is room for the requested number of values above the stack top')
        for k in range(st.nf):
            p = FW.frame_start(e, st, k)
            e.check(isinstance(p, SeqPtr) and p.seq is stack.seq, 'ensure_stack: the stack_start of every frame points into the current buffer', {'frame': k, 'moved': bool(moved)})
            e.check(p.idx == st.starts[k], 'ensure_stack: every frame keeps the offset of its first slot')
        e.check(stack.len == stack.seq.len, 'ensure_stack: the buffer is completely filled again')
        return {'frames': st.nf, 'moved': bool(moved)}
    _finish(res, e, e.explore(path), 'C06.K2:ensure_stack:')


@obligation('C06.K2.push_pop_frame', 'C06', programs=('vm',), also=('C01',))
def k2_push_pop(res, tier):
    """Fiber::push_frame then Fiber::pop_frame: the callee's frame starts at the callee slot (argc + 1 below the stack top), room for
    the callee's max_slots is reserved first, the frame pointer designates the new top frame; pop_frame drops everything from the callee
    slot up, makes the caller's frame current again and leaves the frames below untouched"""
    FW = FiberWorld()
    e, P = FW.e, FW.P
    fpush = P.lookup('fiber::Fiber::push_frame')
    fpop = P.lookup('fiber::Fiber::pop_frame')
    res.bounds = {'frames before the call': f'1..{MAXF}', 'argc': 'any that fits below the stack top', 'max_slots': f'any below 2^16 when nothing moves, at most {MAXGROW} when the buffer grows'}
    ms = z3.BitVec('max_slots', 64)
    e.model(r'^(laythe_core::)?(object::)?(fun::)?Fun::max_slots$', lambda e_, a, c: ms)

    def path(e):
        st = FW.fiber(e)
        e.add_constraint(z3.ULT(ms, 1 << 16))
        argc = z3.BitVec('argc', 64)
        e.add_constraint(z3.And(z3.ULT(argc, 256), z3.ULE(argc + 1, st.sp)))
        sp0 = st.sp
        fun = AbsObj(z3.BitVec('callee_fun', 64), 'ObjRef<Fun>')
        e.call(fpush, [Ref(Cell(st.fiber)), Ref(Cell(Opaque('Vm', 'context'))), fun, e.fresh('laythe_core::Captures', 'caps'), argc])
        stack = st.fiber.f[FW.ix['stack']].get(e)
        frames = st.fiber.f[FW.ix['frames']].get(e)
        top = st.fiber.f[FW.ix['stack_top']].get(e)
        e.check(frames.len == st.nf + 1, 'push_frame: one frame is added')
        e.check(top.seq is stack.seq and e.is_valid(top.idx == sp0), 'push_frame: the stack top is unchanged (it points into the current buffer)')
        e.check(z3.UGE(stack.seq.len, sp0 + ms), 'push_frame: room for the callee\'s max_slots is reserved above the stack top')
        newf = e.seq_cell(frames.seq, bv(st.nf, 64)).get(e)
        ns = newf.field(e, FW.cfx['stack_start'], FW.cf_sd.fields[FW.cfx['stack_start']][1]).get(e)
        e.check(isinstance(ns, SeqPtr) and ns.seq is stack.seq and e.is_valid(ns.idx == sp0 - argc - 1), 'push_frame: the new frame starts at the callee slot, argc + 1 below the stack top')
        fp = st.fiber.f[FW.ix['frame']].get(e)
        e.check(isinstance(fp, SeqPtr) and fp.seq is frames.seq and e.is_valid(fp.idx == st.nf), 'push_frame: the frame pointer designates the new frame')
        for k in range(st.nf):
            p = FW.frame_start(e, st, k)
            e.check(isinstance(p, SeqPtr) and p.seq is stack.seq and e.is_valid(p.idx == st.starts[k]), 'push_frame: the frames below keep their first slot (rebased if the buffer moved)')
        r = e.call(fpop, [Ref(Cell(st.fiber))])
        frames = st.fiber.f[FW.ix['frames']].get(e)
        top = st.fiber.f[FW.ix['stack_top']].get(e)
        e.check(frames.len == st.nf, 'pop_frame: the callee frame is removed')
        e.check(isinstance(top, SeqPtr) and top.seq is stack.seq and e.is_valid(top.idx == sp0 - argc - 1), 'pop_frame: everything from the callee slot up is dropped')
        fp = st.fiber.f[FW.ix['frame']].get(e)
        e.check(isinstance(fp, SeqPtr) and e.is_valid(fp.idx == st.nf - 1), 'pop_frame: the caller\'s frame is current again')
        e.check(isinstance(r, EnumV) and r.variant_name() == 'Ok', 'pop_frame: reports the caller\'s function')
        return {'frames': st.nf, 'moved': bool(e.path_state.get('relocations'))}
    _finish(res, e, e.explore(path), 'C06.K2:push_pop:')


# ---------------------------------------------------------------------------------------------- fiber creation
class _RawVec:
    """the managed RawUniqueVector an Allocator::manage(VecBuilder) call hands to UniqueVector::new"""
    rust_ty = 'RawUniqueVector'

    def __init__(self, uvec):
        self.uvec = uvec

    def copy_value(self, eng):
        return self


def _creation_world():
    from .vmabs import AbsGc
    FW = FiberWorld()
    e, P = FW.e, FW.P
    m = e.model

    def deep(e_, v):
        while isinstance(v, Ref):
            v = v.cell.get(e_)
        return v

    def m_manage(e_, a, c):
        data = deep(e_, a[1])
        if isinstance(data, Struct) and 'VecBuilder' in data.ty:
            sd = P.struct_def('VecBuilder') or P.struct_def(data.ty)
            names = [n for n, _ in sd.fields]
            sl = deep(e_, data.f[names.index('slice')].get(e_))
            cap = data.f[names.index('cap')].get(e_)
            if not isinstance(sl, SliceRef):
                raise Unsupported('VecBuilder slice is ' + type(sl).__name__)
            n = e_.slice_len(sl)
            e_.path_state.setdefault('vec_allocs', []).append((n, cap))
            src = sl.seq
            if isinstance(src, SymSeq):
                if not e_.is_valid(sl.start == 0):
                    raise Unsupported('VecBuilder from an inner slice')
                buf = SymSeq(src.elem_ty, src.arr, cap, src.scalar_sort, src.tyname)
            else:
                ccap = conc(z3.simplify(cap)) if not isinstance(cap, int) else cap
                cn = conc(z3.simplify(n))
                if ccap is None or cn is None:
                    # a symbolic number of values copied out of a constant array: fresh buffer with unconstrained contents
                    buf = e_.fresh_seq(src.elem_ty, NameBacking(e_.fresh_name('vecbuf')), cap)
                else:
                    cs = conc(z3.simplify(sl.start))
                    cells = [Cell(e_.copy_value(src.cells[cs + i].get(e_))) for i in range(cn)]
                    cells += [Cell(e_.fresh(src.elem_ty, e_.fresh_name('spare'))) for _ in range(ccap - cn)]
                    buf = ConcSeq(src.elem_ty, cells)
            return _RawVec(AbsUVec(buf, n))
        k = len(e_.path_state.setdefault('managed', []))
        g = AbsGc(z3.BitVec(f'managed{k}', 64), getattr(data, 'ty', type(data).__name__))
        e_.path_state['managed'].append((g, data))
        e_.memo[('gcdata', g.id.sexpr(), norm_ty(g.ty))] = cell = Cell(data)
        e_.memo[('cellobj', id(cell))] = g
        return g
    m(r'^(laythe_core::)?(allocator::)?Allocator::manage$', m_manage)
    m(r'^(laythe_core::)?(collections::)?(unique_vector::)?UniqueVector::new$', lambda e_, a, c: deep(e_, a[0]).uvec)
    m(r'^(laythe_core::)?(allocator::)?Allocator::(push_root|pop_roots)$', lambda e_, a, c: UNIT)
    m(r'^<RefMut as (std::ops::|core::ops::)?DerefMut>::deref_mut$', lambda e_, a, c: a[0])
    m(r'^<(std::cell::|core::cell::)?RefMut as (std::ops::|core::ops::)?DerefMut>::deref_mut$', lambda e_, a, c: a[0])
    def m_instructions(e_, a, c):
        n = z3.BitVec('n_instructions', 64)
        e_.add_constraint(z3.And(z3.UGE(n, 1), z3.ULT(n, 1 << 32)))      # the compiler ends every function with a return
        return SliceRef(e_.fresh_seq('u8', NameBacking('instructions'), n), bv(0, 64), n)
    m(r'^(laythe_core::)?(\w+::)*Chunk::instructions$', m_instructions)
    e.allow_havoc(r'^(laythe_core::)?(object::)?(\w+::)*Fun::chunk$', r'^(laythe_core::)?(object::)?(channel::)?ChannelWaiter::(new|set_waiter)$')
    return FW


@obligation('C06.K2.fiber_new', 'C06', programs=('vm',), also=('C16',))
def k2_fiber_new(res, tier):
    """Fiber::new(fun, stack_count = max_slots + 1) for ANY max_slots: never a host panic; the new fiber's stack buffer is completely
    filled with stack_count slots (the invariant ensure_stack relies on), slot 0 is the function, the stack top is slot 1 and the
    single frame starts at slot 0 and is the current frame"""
    FW = _creation_world()
    e, P = FW.e, FW.P
    f = P.lookup('fiber::Fiber::new')
    res.bounds = {'max_slots': 'any below 2^31 (the compiler stores it as i32)', 'parent': 'any'}
    res.assumptions = ['Allocator::manage(VecBuilder) yields a vector with the builder\'s contents and capacity (C20.K1 decides the layout)']

    def path(e):
        e.path_state.setdefault('events', [])
        ms = z3.BitVec('max_slots', 64)
        e.add_constraint(z3.ULT(ms, 1 << 31))
        fun = AbsObj(z3.BitVec('callee_fun', 64), 'ObjRef<Fun>')
        parent = e.fresh('std::option::Option<laythe_core::Ref<fiber::Fiber>>', 'parent')
        r = e.call(f, [Ref(Cell(Opaque('Vm', 'context'))), parent, fun, e.fresh('laythe_core::Captures', 'caps'), z3.simplify(ms + 1)])
        stack = r.f[FW.ix['stack']].get(e)
        frames = r.f[FW.ix['frames']].get(e)
        top = r.f[FW.ix['stack_top']].get(e)
        fp = r.f[FW.ix['frame']].get(e)
        e.check(z3.And(stack.len == ms + 1, stack.seq.len == ms + 1), 'Fiber::new: the stack has max_slots + 1 slots, all filled')
        e.check(isinstance(top, SeqPtr) and top.seq is stack.seq and e.is_valid(top.idx == 1), 'Fiber::new: the stack top is slot 1')
        e.check(e.is_valid(frames.len == 1), 'Fiber::new: exactly one frame')
        fr0 = e.seq_cell(frames.seq, bv(0, 64)).get(e)
        ss = fr0.field(e, FW.cfx['stack_start'], FW.cf_sd.fields[FW.cfx['stack_start']][1]).get(e)
        e.check(isinstance(ss, SeqPtr) and ss.seq is stack.seq and e.is_valid(ss.idx == 0), 'Fiber::new: the frame starts at slot 0')
        e.check(isinstance(fp, SeqPtr) and fp.seq is frames.seq and e.is_valid(fp.idx == 0), 'Fiber::new: the frame pointer designates that frame')
        if 'awaited' in FW.ix:
            aw = r.f[FW.ix['awaited']].get(e)
            ptag = parent.tag if not isinstance(parent.tag, int) else bv(parent.tag, 64)
            e.check(to_z3_bool(aw) == (ptag == 1), 'Fiber::new: a fiber created with a parent (the body of an imported module) is marked as awaited by it (C17.K4)')
        return {'fn': 'new', 'moved': True}
    _creation_finish(res, e, e.explore(path), 'C06.K2:fiber_new:', dict(kind='lay', source=F29_SRC, expect_stdout='300\n'))


@obligation('C06.K2.fiber_split', 'C06', programs=('vm',), also=('C16',))
def k2_fiber_split(res, tier):
    """Fiber::split(parent, argc) (launch) from any parent with 2..3 frames, for ANY max_slots of the launched function: never a host
    panic; the child gets the popped frame on a completely filled buffer of max_slots + argc + 1 slots, its frame starts at slot 0,
    its stack top is argc + 1; the parent drops the callee and its arguments and its previous frame is current again"""
    FW = _creation_world()
    e, P = FW.e, FW.P
    f = P.lookup('fiber::Fiber::split')
    res.bounds = {'max_slots': 'any below 2^31', 'argc': '0..255', 'parent frames': f'2..{MAXF}'}
    res.assumptions = ['Allocator::manage(VecBuilder) yields a vector with the builder\'s contents and capacity', 'the arguments are copied with ptr::copy_nonoverlapping (contents not compared)']
    ms = z3.BitVec('max_slots', 64)
    e.model(r'^(laythe_core::)?(object::)?(fun::)?Fun::max_slots$', lambda e_, a, c: ms)
    e.model(r'^(std|core)::(ptr|intrinsics)::copy_nonoverlapping$',
            lambda e_, a, c: (e_.path_state.setdefault('copies', []).append((a[0], a[1], a[2])), UNIT)[1])
    from .vmabs import AbsGc

    def path(e):
        st = FW.fiber(e)
        e.assume(st.nf >= 2) if not isinstance(st.nf, int) else None
        if st.nf < 2:
            return None
        e.add_constraint(z3.ULT(ms, 1 << 31))
        argc = z3.BitVec('argc', 64)
        top_start = st.starts[st.nf - 1]
        # the callee frame was just pushed by resolve_call: its first slot is argc + 1 below the stack top
        e.add_constraint(z3.And(z3.ULT(argc, 256), top_start + argc + 1 == st.sp))
        pg = AbsGc(z3.BitVec('parent_fiber', 64), 'fiber::Fiber')
        e.memo[('gcdata', pg.id.sexpr(), norm_ty('fiber::Fiber'))] = cell = Cell(st.fiber)
        e.memo[('cellobj', id(cell))] = pg
        r = e.call(f, [pg, Ref(Cell(Opaque('Vm', 'context'))), argc])
        child = [d for g, d in e.path_state.get('managed', []) if g is r or (hasattr(g, 'id') and e.is_valid(g.id == r.id))]
        e.check(len(child) == 1, 'split: the new fiber is the managed result')
        ch = child[0]
        stack = ch.f[FW.ix['stack']].get(e)
        frames = ch.f[FW.ix['frames']].get(e)
        top = ch.f[FW.ix['stack_top']].get(e)
        fp = ch.f[FW.ix['frame']].get(e)
        e.check(z3.And(stack.len == ms + argc + 1, stack.seq.len == ms + argc + 1), 'split: the child stack has max_slots + argc + 1 slots, all filled')
        e.check(isinstance(top, SeqPtr) and top.seq is stack.seq and e.is_valid(top.idx == argc + 1), 'split: the child stack top is above the callee and its arguments')
        e.check(e.is_valid(frames.len == 1), 'split: the child has exactly one frame')
        fr0 = e.seq_cell(frames.seq, bv(0, 64)).get(e)
        ss = fr0.field(e, FW.cfx['stack_start'], FW.cf_sd.fields[FW.cfx['stack_start']][1]).get(e)
        e.check(isinstance(ss, SeqPtr) and ss.seq is stack.seq and e.is_valid(ss.idx == 0), 'split: the moved frame starts at slot 0 of the child stack')
        e.check(isinstance(fp, SeqPtr) and fp.seq is frames.seq and e.is_valid(fp.idx == 0), 'split: the child frame pointer designates that frame')
        cp = e.path_state.get('copies', [])
        args_only = len(cp) == 1 and isinstance(cp[0][0], SeqPtr) and cp[0][0].seq is st.stack and e.is_valid(z3.And(cp[0][0].idx == top_start + 1, cp[0][2] == argc)) \
            and isinstance(cp[0][1], SeqPtr) and cp[0][1].seq is stack.seq and e.is_valid(cp[0][1].idx == 1)
        with_callee = len(cp) == 1 and isinstance(cp[0][0], SeqPtr) and cp[0][0].seq is st.stack and e.is_valid(z3.And(cp[0][0].idx == top_start, cp[0][2] == argc + 1)) \
            and isinstance(cp[0][1], SeqPtr) and cp[0][1].seq is stack.seq and e.is_valid(cp[0][1].idx == 0)
        e.check(args_only or with_callee, 'split: exactly the argc arguments above the callee (with or without the callee slot itself) are copied to the same slots of the child')
        # slot 0 of the launched frame: what the call protocol left in the callee slot (the receiver of a method call, the closure of
        # a function call); either written directly or covered by the copy
        from .c07 import _flat
        covered = len(cp) == 1 and isinstance(cp[0][0], SeqPtr) and e.is_valid(z3.And(cp[0][0].idx == top_start, cp[0][2] == argc + 1)) and e.is_valid(cp[0][1].idx == 0)
        if not covered:
            want = _flat(e, st.stack.load(e, top_start))
            got = _flat(e, e.seq_cell(stack.seq, bv(0, 64)).get(e))
            e.check(z3.And(*[x == y for x, y in zip(got, want)]), 'split: slot 0 of the launched frame holds the value of the callee slot (the receiver when a method is launched)')
        ptop = st.fiber.f[FW.ix['stack_top']].get(e)
        pfr = st.fiber.f[FW.ix['frames']].get(e)
        pfp = st.fiber.f[FW.ix['frame']].get(e)
        e.check(isinstance(ptop, SeqPtr) and ptop.seq is st.stack and e.is_valid(ptop.idx == top_start), 'split: the parent drops the callee and its arguments')
        e.check(e.is_valid(pfr.len == st.nf - 1), 'split: the parent loses exactly the moved frame')
        e.check(isinstance(pfp, SeqPtr) and e.is_valid(pfp.idx == st.nf - 2), 'split: the parent\'s previous frame is current again')
        if 'awaited' in FW.ix:
            aw = ch.f[FW.ix['awaited']].get(e)
            e.check(z3.Not(to_z3_bool(aw)), 'split: a launched fiber is not awaited by its parent (C17.K4)')
        return {'fn': 'split', 'frames': st.nf, 'moved': True}
    results = [r for r in e.explore(path) if not (r.kind == 'ok' and r.info is None)]
    for r in results:
        for lab, ok, info in list(r.checks):
            if not ok and 'slot 0 of the launched frame' in lab:
                res.fail('C06.K2:fiber_split:the callee slot of a launched call is replaced by the function',
                         'Fiber::split writes the bare function into slot 0 of the new fiber instead of the value the call left in the callee slot: '
                         'launching a method loses the receiver (self is the function object)', info, replay=F37_REPLAY)
                r.checks.remove((lab, ok, info))
    _creation_finish(res, e, results, 'C06.K2:fiber_split:', dict(kind='lay', source=F29_SRC_LAUNCH, expect_stdout='300\n1\n'))


F29_SRC = 'let x = [' + ', '.join(str(i) for i in range(300)) + '];\nprint(x.len());\n'
F29_SRC_LAUNCH = ('let done = chan(1);\nfn f() { let x = [' + ', '.join(str(i) for i in range(300)) + ']; print(x.len()); done <- 1; }\n'
                  'launch f();\nprint(<- done);\n')


F37_SRC = ('class A { init() { self.v = 3; } m(done) { print(self.v); done <- 1; } }\nlet a = A();\nlet done = chan(1);\nlaunch a.m(done);\nprint(<- done);\n')
F37_REPLAY = dict(kind='lay', source=F37_SRC, expect_stdout='3\n1\n', bad_re='panicked|Internal Error')


def _creation_finish(res, e, results, prefix, replay):
    rest = []
    for r in results:
        if r.kind == 'panic' and 'slice range out of range' in str(r.info):
            res.fail(prefix + 'stack larger than the static undefined array',
                     'a function whose max_slots exceeds 254 cannot be given a fiber: &UNDEFINED_ARRAY[0..stack_count] is out of range (host panic)',
                     {'path': str(r.info)}, replay=replay)
        else:
            rest.append(r)
    _finish(res, e, rest, prefix)
