"""C02.K2 — name resolution in the lowering: the innermost declaration wins and capture chains are well formed.

Real Compiler::resolve_capture / add_capture run over a chain of three compilers (innermost function, its parent, the script) whose
own name lookups (resolve_local) are summarised by arbitrary answers; Compiler::resolve_local runs over an arbitrary list of locals;
Compiler::child is checked to start a nested function without the module table (so locals of enclosing functions shadow module
names)."""
import z3
from vfw.core import obligation, get_program, summarize_paths
from mirsym.engine import Engine
from mirsym.values import *
from mirsym.tys import *
from .compabs import CompilerWorld, COMPILER
from .vmabs import AbsStr, StrS

STATE = 'compiler::ir::symbol_table::SymbolState'


def _finish(res, e, results, prefix):
    for r in results:
        if r.kind in ('oob', 'unreachable', 'ub', 'diverge', 'depth'):
            res.fail(f'{prefix}{r.kind}', f'path ends in {r.kind}: {str(r.info)[:300]}', {'path': str(r.info)})
    summarize_paths(res, e, results, lambda r: r.info if isinstance(r.info, dict) else None, key_prefix=prefix, unwind_ok=False)


def _chain(e, CW, P, depth, max_caps):
    """compilers c[0] (innermost) .. c[depth-1] (script, no enclosing); each with a concrete list of <= max_caps existing captures
    that satisfy the chain invariant and a function builder whose capture count equals that list's length"""
    ed_opt = P.enum_def('Option')
    cap_ed = P.enum_def('byte_code::CaptureIndex')
    comps = []
    for j in range(depth):
        c = CW.fresh_compiler(e, f'c{j}')
        comps.append(c)
    ncaps = []
    for j, c in enumerate(comps):
        nv = z3.BitVec(f'ncaps{j}', 64)
        e.add_constraint(z3.ULE(nv, max_caps if j < depth - 1 else 0))     # the script has nothing to capture from
        n = e.concretize(nv, list(range(max_caps + 1)))
        ncaps.append(n)
        caps = ConcSeq('byte_code::CaptureIndex', [Cell(e.fresh('byte_code::CaptureIndex', f'c{j}cap{k}')) for k in range(n)])
        c.f[CW.ix['captures']] = Cell(caps)
        if j < depth - 1:
            c.f[CW.ix['enclosing']] = Cell(EnumV('Option<NonNull<Compiler>>', 1, {'Some': {0: Cell(Ref(Cell(comps[j + 1])))}}, None, ed_opt))
        else:
            c.f[CW.ix['enclosing']] = Cell(EnumV('Option<NonNull<Compiler>>', 0, None, None, ed_opt))
    e.path_state['compilers'] = comps
    return comps, ncaps, cap_ed


def _cap_view(e, cap):
    """(is_local z3, index z3 (u8))"""
    if isinstance(cap.tag, int):
        vn = cap.edef.variants[cap.tag][0]
        return z3.BoolVal(cap.tag == 0), cap.field(e, vn, 0, 'u8').get(e)
    tag = cap.tag
    li = cap.field(e, 'Local', 0, 'u8').get(e)
    ei = cap.field(e, 'Enclosing', 0, 'u8').get(e)
    return tag == 0, z3.If(tag == 0, li, ei)


@obligation('C02.K2.resolve_capture', 'C02', programs=('vm',), also=('C19',))
def k2_resolve_capture(res, tier):
    """Compiler::resolve_capture + add_capture over a chain of three compilers with arbitrary existing captures: afterwards every
    Enclosing(k) recorded at one level refers to a capture that exists one level up (no dangling capture slot at run time), an
    answer that names a capture names one that exists, module-level answers record nothing, and the function builder's capture
    count equals the capture list it will be closed over"""
    P = get_program('vm')
    e = Engine(P, loop_bound=6, timeout_s=240, max_depth=60)
    CW = CompilerWorld(e, P)
    depth, max_caps = 3, (1 if tier == 'quick' else 2)
    res.bounds = {'compiler chain': depth, 'existing captures per function': f'0..{max_caps}', 'resolve_local answers': 'arbitrary (any local index, any symbol state)'}
    res.assumptions = ['resolve_local summarised by an arbitrary answer per compiler (its own behaviour is C02.K2.resolve_local)',
                       'pre-state satisfies the invariant being checked']
    sed = P.enum_def(STATE)
    ed_opt = P.enum_def('Option')
    fb_sd = P.struct_def('laythe_core::object::FunBuilder') or P.struct_def('FunBuilder')

    def which(e_, comp):
        for j, c in enumerate(e_.path_state['compilers']):
            if c is comp:
                return j
        raise Unsupported('unknown compiler in chain')

    def m_resolve_local(e_, a, c):
        comp = a[0]
        while isinstance(comp, Ref):
            comp = comp.cell.get(e_)
        j = which(e_, comp)
        found = e_.fork_bool(z3.Bool(f'c{j}_has_name'))
        e_.path_state.setdefault('asked', []).append((j, found))
        if not found:
            return EnumV('Option<(u8, SymbolState)>', 0, None, None, ed_opt)
        idx = z3.BitVec(f'c{j}_local_index', 8)
        stv = z3.BitVec(f'c{j}_state', 64)
        e_.add_constraint(z3.ULT(stv, len(sed.variants)))
        k = e_.concretize(stv, list(range(len(sed.variants))))
        e_.path_state.setdefault('answers', {})[j] = (idx, sed.variants[k][0])
        tup = Struct('()', {0: Cell(idx), 1: Cell(EnumV(STATE, k, None, None, sed))}, None)
        return EnumV('Option<(u8, SymbolState)>', 1, {'Some': {0: Cell(tup)}}, None, ed_opt)
    e.model(r'^(compiler::)?Compiler::resolve_local$', m_resolve_local)

    cc_field = None
    e.model(r'^(compiler::)?Compiler::error$', lambda e_, a, c: e_.path_state.setdefault('errors', []).append(1) or UNIT)
    capcount = {}

    def m_capture_count(e_, a, c):
        fb = a[0]
        while isinstance(fb, Ref):
            fb = fb.cell.get(e_)
        return e_.path_state['capcount'][id(fb)]

    def m_inc_capture(e_, a, c):
        fb = a[0]
        while isinstance(fb, Ref):
            fb = fb.cell.get(e_)
        e_.path_state['capcount'][id(fb)] = z3.simplify(e_.path_state['capcount'][id(fb)] + 1)
        return UNIT
    e.model(r'^(laythe_core::)?(object::)?(fun::)?FunBuilder::capture_count$', m_capture_count)
    e.model(r'^(laythe_core::)?(object::)?(fun::)?FunBuilder::inc_capture$', m_inc_capture)
    f = P.lookup('compiler::Compiler::resolve_capture')

    def inv(e, comps, label, pre):
        for j in range(len(comps) - 1):
            caps = CW.field(e, comps[j], 'captures')
            up = CW.field(e, comps[j + 1], 'captures')
            for k, cell in enumerate(caps.cells):
                is_local, idx = _cap_view(e, cell.get(e))
                cond = z3.Implies(z3.Not(is_local), z3.ULT(z3.ZeroExt(56, idx), len(up.cells)))
                if pre:
                    e.add_constraint(cond)
                else:
                    e.check(cond, f'{label}: every Enclosing(k) capture refers to a capture that exists in the enclosing function', {'level': j, 'capture': k})

    def path(e):
        comps, ncaps, cap_ed = _chain(e, CW, P, depth, max_caps)
        e.path_state['capcount'] = {}
        for j, c in enumerate(comps):
            fb = CW.field(e, c, 'fun')
            e.path_state['capcount'][id(fb)] = bv(ncaps[j], 8)
        inv(e, comps, 'pre', True)
        name = AbsStr(z3.Const('name', StrS))
        r = e.call(f, [Ref(Cell(comps[0])), name])
        inv(e, comps, 'resolve_capture', False)
        for j, c in enumerate(comps):
            fb = CW.field(e, c, 'fun')
            n = len(CW.field(e, c, 'captures').cells)
            e.check(e.path_state['capcount'][id(fb)] == bv(n, 8) if n < 256 else True,
                    'resolve_capture: the capture count of each function equals the captures recorded for it')
        found = isinstance(r, EnumV) and r.tag == 1
        answers = e.path_state.get('answers', {})
        info = {'found': found, 'definer': min(answers) if answers else None, 'state': answers[min(answers)][1] if answers else None}
        if found:
            tup = e.payload0(r, 'Some')
            idx, st = tup.f[0].get(e), tup.f[1].get(e)
            stn = st.variant_name()
            definer = min(answers)
            e.check(stn == answers[definer][1], 'resolve_capture: reports the state of the innermost enclosing declaration')
            caps0 = CW.field(e, comps[0], 'captures')
            if stn in ('GlobalInitialized', 'ModuleInitialized'):
                e.check(all(len(CW.field(e, c, 'captures').cells) == ncaps[j] for j, c in enumerate(comps)), 'resolve_capture: module-level names record no capture')
            elif stn in ('LocalInitialized', 'LocalCaptured', 'Uninitialized') and not e.path_state.get('errors'):
                e.check(z3.ULT(z3.ZeroExt(56, idx), len(caps0.cells)), 'resolve_capture: the capture index it answers with exists in the function being compiled')
                # the chain from the user down to the definer is complete
                for j in range(0, definer):
                    e.check(len(CW.field(e, comps[j], 'captures').cells) >= 1, 'resolve_capture: every function between the use and the declaration carries the capture')
        else:
            e.check(not answers, 'resolve_capture: a name declared in an enclosing function is found')
        return info
    _finish(res, e, e.explore(path), 'C02.K2:resolve_capture:')


@obligation('C02.K2.child_scope', 'C02', programs=('vm',))
def k2_child(res, tier):
    """Compiler::child: a nested function starts with no locals of its own and without the module symbol table, so a name that is
    not its own local is looked up through the enclosing functions first (their locals shadow module-level names)"""
    P = get_program('vm')
    e = Engine(P, loop_bound=4, timeout_s=120)
    CW = CompilerWorld(e, P)
    fchild = P.lookup('compiler::Compiler::child')
    e.allow_havoc(r'^(laythe_core::)?(object::)?(fun::)?FunBuilder::new$', r'^<.* as (std::default::|core::default::)?Default>::default$',
                  r'^(std::ptr::|core::ptr::)?NonNull::from$',
                  r'^<.*NonNull.* as .*From.*>::from$', r'^(std::rc::|alloc::rc::)?Rc::clone$', r'^<.*Rc.* as .*Clone>::clone$')
    res.bounds = {'enclosing compiler': 'arbitrary'}

    def path(e):
        enc = CW.fresh_compiler(e, 'enclosing')
        arity = e.fresh('laythe_core::signature::Arity', 'arity')
        kind = e.fresh('compiler::FunKind', 'kind')
        c = e.call(fchild, [Opaque('LyStr', 'name'), arity, kind, Ref(Cell(enc))])
        mt = c.f[CW.ix['module_table']].get(e)
        e.check(isinstance(mt, EnumV) and (mt.tag == 0 if isinstance(mt.tag, int) else e.is_valid(mt.tag == 0)),
                'child: a nested function has no module table of its own (enclosing locals are consulted before module names)')
        loc = c.f[CW.ix['locals']].get(e)
        n = len(loc.cells) if isinstance(loc, ConcSeq) else loc.len
        e.check(n == 0 if isinstance(n, int) else e.is_valid(n == 0), 'child: a nested function starts with no locals')
        caps = c.f[CW.ix['captures']].get(e)
        n = len(caps.cells) if isinstance(caps, ConcSeq) else caps.len
        e.check(n == 0 if isinstance(n, int) else e.is_valid(n == 0), 'child: a nested function starts with no captures')
        en = c.f[CW.ix['enclosing']].get(e)
        e.check(isinstance(en, EnumV) and en.tag == 1, 'child: a nested function is linked to its enclosing function')
        return {'fn': 'child'}
    _finish(res, e, e.explore(path), 'C02.K2:child:')


# ---------------------------------------------------------------------------------------------- initialiser return reads self
F40_SRC = 'class B {\n  init() { self.x = 1; let f = || self; }\n}\nprint(B().x);\n'
F40_REPLAY = dict(kind='lay', source=F40_SRC, expect_stdout='1\n')


@obligation('C02.K2.initializer_returns_self', 'C02', programs=('vm',), also=('C03',))
def k2_init_return(res, tier):
    """Compiler::emit_return inside an initialiser, with `self` in either of the states the resolver can give it (plain local, or
    captured by a closure and therefore boxed in slot 0): the value returned to the caller is the instance, i.e. the implicit return
    reads `self` the way every other read of `self` does (GetLocal for a plain local, GetBox for a boxed one)"""
    P = get_program('vm')
    e = Engine(P, loop_bound=6, timeout_s=120, max_depth=60)
    CW = CompilerWorld(e, P)
    sed = P.enum_def(STATE)
    ed_opt = P.enum_def('Option')
    fk = P.enum_def('laythe_core::object::FunKind') or P.enum_def('FunKind')
    f = P.lookup('compiler::Compiler::emit_return')
    res.bounds = {'state of self': 'LocalInitialized or LocalCaptured', 'open try blocks': 'any'}
    res.assumptions = ['resolve_local(self) answers slot 0 with the state the resolver recorded (C02.K2.resolve_local decides the lookup itself)',
                       'a captured parameter is boxed in place by the prologue (declare_and_define_parameter), so slot 0 then holds the box']

    def m_resolve_local(e_, a, c):
        k = e_.path_state['self_state']
        tup = Struct('()', {0: Cell(bv(0, 8)), 1: Cell(EnumV(STATE, k, None, None, sed))}, None)
        e_.path_state['asked'] = True
        return EnumV('Option<(u8, SymbolState)>', 1, {'Some': {0: Cell(tup)}}, None, ed_opt)
    e.model(r'^(compiler::)?Compiler::resolve_local$', m_resolve_local)
    e.model(r'^(compiler::)?Compiler::open_tries$', lambda e_, a, c: bv(0, 64))

    def path(e):
        c = CW.fresh_compiler(e)
        c.f[CW.ix['fun_kind']] = Cell(EnumV(fk.name if hasattr(fk, 'name') else 'FunKind', fk.vindex['Initializer'], None, None, fk))
        captured = e.fork_bool(z3.Bool('self_is_captured'))
        e.path_state['self_state'] = sed.vindex['LocalCaptured' if captured else 'LocalInitialized']
        e.call(f, [Ref(Cell(c)), z3.BitVec('line', 32)])
        from .compabs import emitted_names
        names = emitted_names(e)
        first = e.path_state['emitted'][0] if e.path_state['emitted'] else None
        want = 'GetBox' if captured else 'GetLocal'
        e.check(bool(names) and names[0] == want, 'emit_return in an initialiser: the implicit return reads self through its box when self is captured',
                {'self_captured': captured, 'emitted': names[:4]})
        e.check(names[-1] == 'Return' if names else False, 'emit_return ends with Return')
        return {'self_captured': captured, 'emitted': names[:4]}
    results = e.explore(path)
    for r in results:
        for lab, ok, info in list(r.checks):
            if not ok and 'implicit return reads self' in lab:
                res.fail('C02.K2:initializer returns the box of a captured self',
                         'emit_return hard-codes GetLocal(0) for initialisers; when a closure captures self the prologue boxes slot 0, so `init` returns the box and '
                         'the caller of the class receives an object without the fields the initialiser set', info, replay=F40_REPLAY)
                r.checks.remove((lab, ok, info))
    _finish(res, e, results, 'C02.K2:initializer_returns_self:')


# ---------------------------------------------------------------------------------------------- declared state == defined state
def _binding_obligation(res, fname, ast_ty, extra_args=None):
    """run one lowering function with declare_variable / define_variable summarised: every variable is defined with the state it was
    declared with (a captured variable gets its FillBox, an uncaptured one does not)"""
    from .compabs import emitted_names
    P = get_program('vm')
    e = Engine(P, loop_bound=6, timeout_s=180, max_depth=60)
    CW = CompilerWorld(e, P)
    sed = P.enum_def(STATE)
    f = P.lookup('compiler::Compiler::' + fname)
    e.allow_havoc(r'^(compiler::)?Compiler::(identifier_constant|make_constant|string_constant|variable_get|variable_set|error)$', r'^(laythe_core::)?(allocator::)?Allocator::manage_str$',
                  r'^(compiler::ir::)?(token::)?Token::\w+$', r'^(compiler::ir::)?(ast::)?\w+::(start|end|span)$', r'^<.* as (compiler::ir::)?(ast::)?Spanned>::(start|end|span)$')

    e.allow_havoc(r'^(compiler::)?Compiler::(function|method|static_method|emit_known_invoke|emit_local_get|emit_local_set|emit_constant|class_body|get_module_symbol_offset)$',
                  r'^(laythe_core::)?(hooks::)?(GcHooks|Hooks)::\w+$', r'^(laythe_core::)?(allocator::)?Allocator::\w+$', r'^RefCell::borrow(_mut)?$')
    ed_opt = P.enum_def('Option')

    def m_resolve_local(e_, a, c):
        if not e_.fork_bool(z3.Bool(e_.fresh_name('local_found'))):
            return EnumV('Option<(u8, SymbolState)>', 0, None, None, ed_opt)
        stv = z3.BitVec(e_.fresh_name('local_state'), 64)
        e_.add_constraint(z3.ULT(stv, len(sed.variants)))
        k = e_.concretize(stv, list(range(len(sed.variants))))
        tup = Struct('()', {0: Cell(z3.BitVec(e_.fresh_name('local_slot'), 8)), 1: Cell(EnumV(STATE, k, None, None, sed))}, None)
        return EnumV('Option<(u8, SymbolState)>', 1, {'Some': {0: Cell(tup)}}, None, ed_opt)
    e.model(r'^(compiler::)?Compiler::resolve_local$', m_resolve_local)

    def name_of(e_, v):
        while isinstance(v, Ref):
            v = v.cell.get(e_)
        return getattr(v, 's', None) if isinstance(v, StrV) else id(v)

    def m_declare(e_, a, c):
        k = len(e_.path_state.setdefault('declared', []))
        stv = z3.BitVec(f'declared_state_{k}', 64)
        e_.add_constraint(z3.ULT(stv, len(sed.variants)))
        kk = e_.concretize(stv, list(range(len(sed.variants))))
        e_.path_state['declared'].append((name_of(e_, a[1]), kk))
        e_.path_state['emitted'].append(('chunk', 'declare', 0))
        return Struct('()', {0: Cell(EnumV(STATE, kk, None, None, sed)), 1: Cell(z3.BitVec(f'declared_slot_{k}', 16))}, None)
    e.model(r'^(compiler::)?Compiler::declare_variable$', m_declare)

    def m_define(e_, a, c):
        stt = a[2]
        e_.path_state.setdefault('defined', []).append((name_of(e_, a[1]), stt.tag if isinstance(stt.tag, int) else None))
        e_.path_state['emitted'].append(('chunk', 'define', 0))
        return UNIT
    e.model(r'^(compiler::)?Compiler::define_variable$', m_define)

    def path(e):
        c = CW.fresh_compiler(e)
        at0 = CW.attrs(e, c)
        e.assume(z3.And(z3.UGE(at0['depth'], 1), z3.ULT(at0['depth'], 1 << 16)))
        e.assume(CW.locals_seq(e, c).len == 0)
        e.assume(z3.ULT(CW.field(e, c, 'local_tables').len, 1 << 8))
        node = e.fresh(ast_ty, 'node')
        args = [Ref(Cell(c)), Ref(Cell(node))] + (extra_args(e) if extra_args else [])
        e.call(f, args)
        dec = e.path_state.get('declared', [])
        dfn = e.path_state.get('defined', [])
        for j, (nm, stt) in enumerate(dfn):
            if isinstance(nm, str) and nm.startswith('$'):
                continue          # hidden variables of the lowering ($iter) cannot be captured
            # names are opaque token texts here: the j-th definition belongs to the j-th declaration (each lowering declares, evaluates
            # the initialiser, defines)
            same = [s_ for n_, s_ in dec if n_ == nm] if isinstance(nm, str) else ([dec[j][1]] if j < len(dec) else [])
            e.check(bool(same) and stt is not None and same[-1] == stt, f'{fname}: a variable is defined with the state it was declared with (a captured one gets its box filled)',
                    {'declared': [sed.variants[s_][0] for s_ in same], 'defined': sed.variants[stt][0] if stt is not None else None})
        return {'fn': fname, 'declared': len(dec), 'defined': len(dfn)}
    results = e.explore(path)
    _finish(res, e, results, f'C02.K2:{fname}:')
    return results


@obligation('C02.K2.catch_binding', 'C02', programs=('vm',), also=('C04',))
def k2_catch_binding(res, tier):
    """Compiler::catch: the catch variable is defined with the state the resolver gave it, so a catch variable that a closure inside
    the catch block captures lives in a box that is filled with the error"""
    res.bounds = {'state of the catch variable': 'every SymbolState', 'catch block': 'opaque'}
    lab = 'byte_code::Label'
    rs = _binding_obligation(res, 'catch', 'compiler::ir::ast::Catch', extra_args=lambda e: [Struct(lab, {0: Cell(z3.BitVec('try_end', 32))}, None)])
    if not any(isinstance(r.info, dict) and r.info.get('defined') for r in rs if r.kind == 'ok'):
        res.inconclusive('vacuous: no path defines the catch variable')


@obligation('C02.K2.let_binding', 'C02', programs=('vm',))
def k2_let_binding(res, tier):
    """Compiler::let_: the declared variable is defined with the state the resolver gave it"""
    res.bounds = {'state of the variable': 'every SymbolState', 'initialiser': 'opaque'}
    rs = _binding_obligation(res, 'let_', 'compiler::ir::ast::Let')
    if not any(isinstance(r.info, dict) and r.info.get('defined') for r in rs if r.kind == 'ok'):
        res.inconclusive('vacuous: no path defines the variable')


def _mk_binding(fname, ast_ty, doc):
    @obligation('C02.K2.' + fname.rstrip('_') + '_binding', 'C02', programs=('vm',))
    def ob(res, tier):
        res.bounds = {'state of every declared variable': 'every SymbolState', 'sub-constructs': 'opaque'}
        rs = _binding_obligation(res, fname, ast_ty)
        if not any(isinstance(r.info, dict) and r.info.get('defined') for r in rs if r.kind == 'ok'):
            res.inconclusive('vacuous: no path defines a variable')
    ob.__doc__ = doc
    from vfw.core import REGISTRY
    for o in REGISTRY.get('C02', []):
        if o.id == 'C02.K2.' + fname.rstrip('_') + '_binding':
            o.doc = doc
    return ob


for _f, _t, _d in [
    ('fun', 'compiler::ir::ast::Fun', 'Compiler::fun: the function name is defined with the state the resolver gave it (a function captured by a closure lives in a filled box)'),
]:
    _mk_binding(_f, _t, _d)
