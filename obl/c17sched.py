"""C17.K4 — "the module body runs before the importer continues": who may hand a fiber that sleeps in an import back to the scheduler.

op_import / op_import_symbol put the importer to sleep (state Pending, not queued) and queue the module fiber with the importer as
its parent; the importer is queued again by Fiber::complete of a child (parent bias).  The obligation executes Fiber::complete
from MIR for a child of a sleeping importer and asks whose completion wakes the importer."""
import z3
from vfw.core import obligation, get_program, summarize_paths
from mirsym.engine import Engine
from mirsym.values import *
from mirsym.tys import *
from .vmabs import VmWorld, AbsObj, AbsGc, AbsUVec, install_gc_refs

F30_MAIN = 'fn child() { print("child"); }\nlaunch child();\nimport self.lib;\nprint("main after import");\nprint(lib.x);\n'
F30_LIB = ('let c = chan();\nfn f() { c <- 1; }\nlaunch f();\nprint("lib before recv");\nlet v = <- c;\nprint("lib after recv");\n'
           'export let x = v + 41;\n')
F30_REPLAY = dict(kind='lay', source=F30_MAIN, files={'lib.lay': F30_LIB},
                  expect_stdout='child\nlib before recv\nlib after recv\nmain after import\n42\n',
                  note='a fiber launched before the import completes while the module body is blocked on a channel')


@obligation('C17.K4.importer_wakeup', 'C17', programs=('vm',))
def k4_importer_wakeup(res, tier):
    """Fiber::complete of a child whose parent sleeps in an import (the state op_import leaves the importer in): the importer's waiter
    is handed to the scheduler only when the completing child is the module fiber the importer waits for; the completion of any other
    child (one launched before the import) must not resume the importer, because the retried import instruction would find the module
    loaded and continue with a half-executed body"""
    P = get_program('vm')
    e = Engine(P, loop_bound=4, timeout_s=120, max_depth=40)
    W = VmWorld(e, P)
    install_gc_refs(e)
    fib_sd = P.struct_def('fiber::Fiber')
    ix = {n: i for i, (n, _) in enumerate(fib_sd.fields)}
    st_def = P.enum_def('fiber::FiberState')
    f = P.lookup('fiber::Fiber::complete')
    res.bounds = {'children of the importer': 'the module fiber or any other fiber', 'channels used by the child': 'none (get_runnable is not the subject)'}
    res.assumptions = ['the importer is in the state op_import leaves it in: Pending, its waiter runnable, not on the run queue (C17.K2 op_import)',
                       'the child uses no channel: a wake-up through a shared channel is a different path']
    e.allow_havoc(r'^(laythe_core::)?(object::)?(\w+::)*ChannelWaiter::set_runnable$',
                  r'^(fiber::)?Fiber::leave_channels$')      # cleaning the parent's waiter lists is the subject of C07.K3.resumed_fiber_leaves_lists
    res.bounds = dict(res.bounds)

    # the state the importer is left in: what op_import really does to it before it creates the module fiber
    import re as _re
    src = P.items.files['laythe_vm/src/vm/ops.rs']
    mm = _re.search(r'ImportResult::Compiled\(fun\) => \{.*?self\.fiber\.(sleep|block)\(\);.*?create_fiber', src, _re.S)
    if not mm:
        res.inconclusive('op_import: the call that parks the importer was not found')
        return
    park = P.lookup('fiber::Fiber::' + mm.group(1))
    res.bounds['importer parked by'] = 'Fiber::' + mm.group(1) + ' (read from op_import, executed from MIR)'

    def path(e):
        e.path_state.setdefault('events', [])
        importer = e.fresh('fiber::Fiber', 'importer')
        importer.f[ix['state']] = Cell(EnumV('fiber::FiberState', st_def.vindex['Running'], None, None, st_def))
        iw = AbsGc(z3.BitVec('importer_waiter', 64), 'laythe_core::object::ChannelWaiter')
        importer.f[ix['waiter']] = Cell(iw)
        e.call(park, [Ref(Cell(importer))])
        ig = AbsGc(z3.BitVec('importer_fiber', 64), 'fiber::Fiber')
        e.memo[('gcdata', ig.id.sexpr(), norm_ty('fiber::Fiber'))] = c = Cell(importer)
        e.memo[('cellobj', id(c))] = ig
        module_fiber = z3.BitVec('module_fiber', 64)          # ghost: the fiber op_import created for the module body
        me = z3.BitVec('completing_fiber', 64)
        is_module = e.fork_bool(me == module_fiber)
        child = e.fresh('fiber::Fiber', 'child')
        child.f[ix['state']] = Cell(EnumV('fiber::FiberState', st_def.vindex['Running'], None, None, st_def))
        if 'awaited' in ix:
            # established by the constructors (C06.K2.fiber_new / fiber_split): Fiber::new with a parent marks the fiber as awaited,
            # Fiber::split (launch) does not
            child.f[ix['awaited']] = Cell(bool(is_module))
        oty = fib_sd.fields[ix['parent']][1]
        child.f[ix['parent']] = Cell(e.mk_option(e, norm_ty(oty), ig))
        cw = AbsGc(z3.BitVec('child_waiter', 64), 'laythe_core::object::ChannelWaiter')
        e.add_constraint(cw.id != iw.id)
        child.f[ix['waiter']] = Cell(cw)
        ety = ty_args(norm_ty(fib_sd.fields[ix['channels']][1]))[0]
        child.f[ix['channels']] = Cell(AbsUVec(e.fresh_seq(ety, NameBacking('channels'), bv(0, 64)), bv(0, 64)))
        r = e.call(f, [Ref(Cell(child))])
        woke = False
        if isinstance(r, EnumV) and ((r.tag == 1) if isinstance(r.tag, int) else e.fork_bool(r.tag == 1)):
            w = r.field(e, 'Some', 0, None).get(e)
            woke = isinstance(w, AbsGc) and e.is_valid(w.id == iw.id)
        if is_module:
            e.check(woke, 'complete: the module fiber hands its sleeping importer back to the scheduler')
        else:
            e.check(not woke, 'complete: only the module fiber resumes a fiber that sleeps in an import', {'completing': 'a fiber launched before the import'})
        return {'completing': 'module fiber' if is_module else 'other child', 'importer_resumed': woke}
    results = e.explore(path)
    for r in results:
        for label, ok, info in list(r.checks):
            if not ok and 'only the module fiber' in label:
                res.fail('C17.K4:importer resumed by the completion of an unrelated child',
                         'Fiber::complete wakes a Pending parent whatever it sleeps for: an importer is resumed by any child launched before the import, before the module body has finished',
                         info, replay=F30_REPLAY)
                r.checks.remove((label, ok, info))
        if r.kind in ('panic', 'oob', 'unreachable', 'ub', 'diverge', 'depth'):
            res.fail(f'C17.K4:complete:{r.kind}', f'complete: path ends in {r.kind}: {str(r.info)[:200]}', {'path': str(r.info)})
    summarize_paths(res, e, results, lambda r: r.info if isinstance(r.info, dict) else None, key_prefix='C17.K4:', unwind_ok=False)
