"""C18 — errors are reported faithfully.  Kernels: the backtrace snapshot taken while unwinding (Fiber::pause_unwind), the status
carried by the import instructions (c17.py, registered for C18 too)."""
import z3
from vfw.core import obligation, get_program, summarize_paths
from mirsym.engine import Engine
from mirsym.values import *
from mirsym.tys import *
from .vmabs import VmWorld, AbsUVec, install_gc_refs, kind_of


def _finish(res, e, results, prefix):
    for r in results:
        if r.kind in ('oob', 'unreachable', 'ub', 'diverge', 'depth', 'panic'):
            res.fail(f'{prefix}{r.kind}', f'path ends in {r.kind}: {str(r.info)[:300]}', {'path': str(r.info)})
    summarize_paths(res, e, results, lambda r: r.info if isinstance(r.info, dict) else None, key_prefix=prefix, unwind_ok=False)


@obligation('C18.K1.pause_unwind', 'C18', programs=('vm',))
def k1_pause_unwind(res, tier):
    """Fiber::pause_unwind for a first and for a continued unwind: afterwards the backtrace holds one instruction pointer per frame
    from the raising frame down to the frame of the handler being tried; entries recorded by an earlier stage of the same unwind
    (the true raise positions) are kept, the newly covered frames are appended with their current positions, innermost first"""
    P = get_program('vm')
    maxf = 4 if tier == 'quick' else 6
    e = Engine(P, loop_bound=maxf + 3, timeout_s=240, max_depth=40)
    W = VmWorld(e, P)
    W.havoc_objects(e)
    install_gc_refs(e, exclude=('Fiber',))
    res.bounds = {'frames': f'1..{maxf}', 'frames already recorded': 'any consistent number', 'handler frame depth': 'any'}
    res.assumptions = ['a continued unwind tries a handler at the same or a shallower call depth than the previous one (handlers are popped innermost first, C04)']
    f = P.lookup('fiber::Fiber::pause_unwind')
    fib_sd = P.struct_def('fiber::Fiber')
    ix = {n: i for i, (n, _) in enumerate(fib_sd.fields)}
    cf_sd = P.struct_def('fiber::call_frame::CallFrame')

    def uv(e_, v):
        while isinstance(v, Ref):
            v = v.cell.get(e_)
        return v

    def m_extend(e_, a, c):
        v = uv(e_, a[0])
        src = a[-1]
        while isinstance(src, Ref):
            src = src.cell.get(e_)
        if isinstance(src, SliceRef):
            n = conc(z3.simplify(e_.slice_len(src)))
            cells = [e_.seq_cell(src.seq, z3.simplify(src.start + i)) for i in range(n)]
        elif isinstance(src, ConcSeq):
            cells = src.cells
        else:
            raise Unsupported('extend from ' + type(src).__name__)
        for cell in cells:
            v.seq.store(e_, v.len, e_.copy_value(cell.get(e_)))
            v.len = z3.simplify(v.len + 1)
        return UNIT
    e.model(r'^(laythe_core::)?(collections::)?(unique_vector::)?UniqueVector::extend$', m_extend)
    e.allow_havoc(r'^<.* as (laythe_core::)?(\w+::)*GcContext>::gc$')

    def ip_key(e_, p):
        """comparable form of a *const u8"""
        if isinstance(p, SeqPtr):
            return p.idx
        if isinstance(p, Ref):
            p = p.cell.get(e_)
            return ip_key(e_, p)
        if isinstance(p, z3.ExprRef):
            return p
        raise Unsupported('instruction pointer of type ' + type(p).__name__)

    def path(e):
        st = W.fresh_state(e)
        fiber = st.fiber
        nfv = z3.BitVec('n_frames', 64)
        e.add_constraint(z3.And(z3.UGE(nfv, 1), z3.ULE(nfv, maxf)))
        nf = e.concretize(nfv, list(range(1, maxf + 1)))
        frames = e.fresh_seq('fiber::call_frame::CallFrame', NameBacking('frames2'), bv(maxf + 2, 64))
        fiber.f[ix['frames']] = Cell(AbsUVec(frames, bv(nf, 64)))
        bt = e.fresh_seq('*const u8', NameBacking('bt'), bv(2 * maxf + 4, 64))
        curv = z3.BitVec('already_recorded', 64)
        newtop = z3.BitVec('handler_depth', 64)
        e.add_constraint(z3.And(z3.UGE(newtop, 1), z3.ULE(newtop, nf)))          # handler frames exist (C04.K1/K2)
        e.add_constraint(z3.ULE(curv, bv(nf, 64) - newtop + 1))                   # continued unwinds go further down
        cur = e.concretize(curv, list(range(0, nf + 1)))
        top = e.concretize(newtop, list(range(1, nf + 1)))
        fiber.f[ix['backtrace_ips']] = Cell(AbsUVec(bt, bv(cur, 64)))
        old = [ip_key(e, bt.load(e, bv(k, 64))) for k in range(cur)]
        fips = []
        for k in range(nf):
            fr = frames.load(e, bv(k, 64))
            fips.append(ip_key(e, fr.field(e, cf_sd.index_of('ip'), cf_sd.fields[cf_sd.index_of('ip')][1]).get(e)))
        sed = P.enum_def('fiber::FiberState')
        running = [i for i, v in enumerate(sed.variants) if v[0] in ('Running', 'Unwinding')]
        stv = z3.BitVec('state', 64)
        e.add_constraint(z3.Or(*[stv == r for r in running]))
        k = e.concretize(stv, running)
        fiber.f[ix['state']] = Cell(EnumV('fiber::FiberState', k, None, None, sed))
        e.call(f, [Ref(Cell(fiber)), Ref(Cell(Opaque('Vm', 'context'))), bv(top, 64)])
        out = uv(e, fiber.f[ix['backtrace_ips']].get(e))
        want_len = nf - top + 1
        e.check(out.len == want_len, 'pause_unwind: one entry per frame from the raising frame down to the handler frame', {'frames': nf, 'handler': top, 'recorded': cur})
        n_out = conc(z3.simplify(out.len))
        if n_out is not None:
            for j in range(min(n_out, want_len)):
                got = ip_key(e, out.seq.load(e, bv(j, 64)))
                if j < cur:
                    e.check(got == old[j], 'pause_unwind: positions recorded earlier in the same unwind (the true raise sites) are kept')
                else:
                    e.check(got == fips[nf - 1 - j], 'pause_unwind: newly covered frames are appended innermost first with their current positions',
                            {'entry': j, 'frames': nf})
        stn = fiber.f[ix['state']].get(e)
        e.check(isinstance(stn, EnumV) and stn.variant_name() == 'Unwinding', 'pause_unwind: the fiber is unwinding')
        return {'frames': nf, 'handler_depth': top, 'already_recorded': cur}
    _finish(res, e, e.explore(path), 'C18.K1:pause_unwind:')


@obligation('C18.K2.exit_status', 'C18', programs=('vm',))
def k2_exit_status(res, tier):
    """Vm::call_native when the native asks to exit (exit(n)) or raises: exit(n) ends the run through set_exit with exactly n, for both
    kinds of native environment, and an error raised by a native becomes the fiber's current error (so that it is unwound, printed
    with its traceback and mapped to the failing status) rather than being dropped"""
    from .vmabs import AbsObj
    from .c01 import END_KINDS
    P = get_program('vm')
    e = Engine(P, loop_bound=5, timeout_s=240, max_depth=60)
    W = VmWorld(e, P)
    W.havoc_objects(e)
    W.summarise_calls(e)
    res.bounds = {'exit code': 'any u16', 'native environment': 'StackLess and Normal', 'frames': 'any below the limit'}
    res.assumptions = ['the native body is summarised by its result', 'the signature gate lets the call through (C16.K1)']
    opt = P.enum_def('Option')
    RES = P.enum_def('Result')
    le = P.enum_def('laythe_core::LyError') or P.enum_def('LyError')
    e.model(r'^(vm::)?Vm::(check_arity|check_native_arity)$', lambda e_, a, c: EnumV('Option<ExecutionSignal>', 0, None, None, opt))
    e.model(r'^(vm::)?Vm::push_frame$', lambda e_, a, c: UNIT)
    e.model(r'^(vm::)?Vm::pop_frame$', lambda e_, a, c: EnumV('Option<ExecutionSignal>', 0, None, None, opt))
    e.allow_havoc(r'^(fiber::)?Fiber::stack_slice$', r'^(vm::)?Vm::gc$', r'^(vm::)?(ops::)?assert_roots$',
                  r'^(std|core|alloc)::slice::<impl \[.*\]>::to_vec$', r'^(std::option::|core::option::)?Option::unwrap_or_else$', r'^(fiber::)?Fiber::(push|drop_n)$')

    def m_native_call(e_, a, c):
        kind = e_.concretize(z3.BitVec('native_result', 64), [0, 1, 2]) if False else None
        kv = z3.BitVec('native_result', 64)
        e_.add_constraint(z3.ULE(kv, 2))
        k = e_.concretize(kv, [0, 1, 2])
        e_.path_state['native_result'] = k
        if k == 0:
            return EnumV('Result<Value, LyError>', 0, {'Ok': {0: Cell(e_.fresh('laythe_core::value::Value', 'native_value'))}}, None, RES)
        if k == 1:
            err = EnumV('LyError', le.vindex['Exit'], {'Exit': {0: Cell(z3.BitVec('exit_code', 16))}}, None, le)
        else:
            err = EnumV('LyError', le.vindex['Err'], {'Err': {0: Cell(Opaque('Instance', 'raised'))}}, None, le)
        return EnumV('Result<Value, LyError>', 1, {'Err': {0: Cell(err)}}, None, RES)
    e.model(r'^(laythe_core::)?(object::)?(native::)?Native::call$', m_native_call)

    def m_set_exit(e_, a, c):
        e_.path_state['outcome'] = ('set_exit', a[1])
        raise PathEnd('vm_exit', ('set_exit', str(a[1])))
    e.model(r'^(vm::)?Vm::set_exit$', m_set_exit)

    def m_set_error(e_, a, c):
        e_.path_state['outcome'] = ('set_error', a[1])
        raise PathEnd('vm_error', ('set_error',))
    e.model(r'^(vm::)?Vm::set_error$', m_set_error)
    f = P.lookup('vm::Vm::call_native')

    def path(e):
        st = W.fresh_state(e)
        frames = st.fiber.f[W.fib_idx['frames']].get(e)
        e.add_constraint(z3.ULT(frames.len, 255))
        outcome, s = 'ok', None
        try:
            s = e.call(f, [Ref(st.vm_cell), AbsObj(z3.BitVec('native', 64), 'ObjRef<Native>'), z3.BitVec('argc', 8)])
        except PathEnd as pe:
            if pe.kind not in END_KINDS:
                raise
            outcome = pe.kind
        k = e.path_state.get('native_result')
        o = e.path_state['outcome']
        if k == 1:
            e.check(outcome == 'vm_exit' and o and o[0] == 'set_exit' and e.is_valid(o[1] == z3.BitVec('exit_code', 16)),
                    'exit(n) ends the run with exactly the status n', {'outcome': str(o)})
        elif k == 2:
            e.check(outcome == 'vm_error' and o and o[0] == 'set_error' and isinstance(o[1], Opaque) and o[1].name == 'raised',
                    'an error raised by a native becomes the current error of the fiber (it is unwound and reported, not dropped)', {'outcome': str(o)})
        elif k == 0:
            e.check(outcome == 'ok' and isinstance(s, EnumV) and s.variant_name() == 'OkReturn', 'a native that returns a value returns normally')
        return {'native_result': k, 'outcome': outcome}
    _finish(res, e, e.explore(path), 'C18.K2:call_native:')


F22_REPLAY = dict(kind='lay', source='[1, 2].iter().each(|x| exit(3));\nprint("not reached");\n', bad_exit=[101, 134, -6],
                  note='exit(n) inside a callback run by a native must end the program with status n')


@obligation('C18.K2.exit_through_callbacks', 'C18', programs=('vm',), also=('C16',))
def k2_exit_callbacks(res, tier):
    """Vm::to_call_result (how the outcome of Laythe code run on behalf of a native is handed back to that native) for every
    execution result: a value is returned, a runtime error is handed on as the error, and an exit request is handed on as an exit
    request with its code (the native boundary maps it to set_exit: C18.K2.exit_status) - never an internal error"""
    from .c01 import END_KINDS
    P = get_program('vm')
    e = Engine(P, loop_bound=4, timeout_s=60, max_depth=30)
    W = VmWorld(e, P)
    W.havoc_objects(e)
    f = P.lookup('vm::Vm::to_call_result')
    er = P.enum_def('vm::ExecutionResult')
    le = P.enum_def('laythe_core::LyError') or P.enum_def('LyError')
    opt = P.enum_def('Option')
    res.bounds = {'execution result': 'Ok(any value), Exit(any code), RuntimeError with an error set'}
    res.assumptions = ['a RuntimeError result comes with the error set on the fiber (Vm::set_error is the only producer)',
                       'CompileError cannot come out of running code (compilation precedes execution)']
    e.model(r'^(fiber::)?Fiber::error$', lambda e_, a, c: EnumV('Option<Instance>', 1, {'Some': {0: Cell(Opaque('Instance', 'fiber_error'))}}, None, opt))

    def path(e):
        st = W.fresh_state(e)
        kv = z3.BitVec('result_kind', 64)
        names = [v[0] for v in er.variants]
        allowed = [i for i, n in enumerate(names) if n != 'CompileError']
        e.add_constraint(z3.Or(*[kv == i for i in allowed]))
        k = e.concretize(kv, allowed)
        vn = names[k]
        if vn == 'Ok':
            x = EnumV('vm::ExecutionResult', k, {vn: {0: Cell(e.fresh('laythe_core::value::Value', 'value'))}}, None, er)
        elif vn == 'Exit':
            x = EnumV('vm::ExecutionResult', k, {vn: {0: Cell(z3.BitVec('exit_code', 16))}}, None, er)
        else:
            x = EnumV('vm::ExecutionResult', k, None, None, er)
        outcome, r = 'ok', None
        try:
            r = e.call(f, [Ref(st.vm_cell), x])
        except PathEnd as pe:
            if pe.kind not in END_KINDS:
                raise
            outcome = pe.kind
        if vn == 'Exit':
            good = outcome == 'ok' and isinstance(r, EnumV) and r.tag == 1
            if good:
                err = e.payload0(r, 'Err')
                good = isinstance(err, EnumV) and err.variant_name() == 'Exit' and e.is_valid(err.field(e, 'Exit', 0, 'u16').get(e) == z3.BitVec('exit_code', 16))
            e.check(good, 'an exit request raised inside a callback is handed to the native as an exit request with its code (not an internal error)', {'outcome': outcome})
        elif vn == 'Ok':
            e.check(outcome == 'ok' and isinstance(r, EnumV) and r.tag == 0, 'a value computed by a callback is returned to the native')
        else:
            good = outcome == 'ok' and isinstance(r, EnumV) and r.tag == 1 and e.payload0(r, 'Err').variant_name() == 'Err'
            e.check(good, 'an error raised inside a callback is handed to the native as that error')
        return {'result': vn, 'outcome': outcome}
    results = e.explore(path)
    for r in results:
        if r.kind in ('oob', 'unreachable', 'ub', 'diverge', 'depth', 'panic'):
            res.fail(f'C18.K2:to_call_result:{r.kind}', f'to_call_result: path ends in {r.kind}: {str(r.info)[:200]}', {'path': str(r.info)}, replay=F22_REPLAY)
    summarize_paths(res, e, results, lambda r: r.info if isinstance(r.info, dict) else None, key_prefix='C18.K2:to_call_result:', unwind_ok=False)
    for fd in res.findings:
        if 'exit request' in fd.key:
            fd.replay = F22_REPLAY


F48_REPLAY = dict(kind='lay', source='let c = chan(1);\nlet l = [1].iter().map(|x| <- c).list();\nprint(l);\n', bad_exit=[101, 134, -6], bad_re='Internal Error|panicked')


@obligation('C18.K2.run_fun_signals', 'C18', programs=('vm',), also=('C16',))
def k2_run_fun(res, tier):
    """Vm::run_fun / run_method with the callee summarised by the signal resolve_call answers with and the result of running it: no
    signal a callee can produce ends in an internal error; an exit request made by the callee itself (a native such as exit handed
    in as the callback) comes back as an exit request carrying the code recorded by set_exit"""
    from .c01 import END_KINDS
    from .vmabs import AbsObj
    P = get_program('vm')
    sig = P.enum_def('vm::ExecutionSignal')
    er = P.enum_def('vm::ExecutionResult')
    opt = P.enum_def('Option')
    res.bounds = {'signal from resolve_call': 'Ok, OkReturn, RuntimeError, Exit', 'arguments': '0..2'}
    res.assumptions = ['resolve_call answers a callable with one of Ok / OkReturn / RuntimeError / Exit (ContextSwitch and friends come only from channel and launch instructions, never from a call)',
                       'a RuntimeError comes with the error set on the fiber, or from the scheduler reporting a deadlock inside the nested run (no error set)']
    for fname in ('run_fun', 'run_method'):
        e = Engine(P, loop_bound=5, timeout_s=60, max_depth=40)
        W = VmWorld(e, P)
        W.havoc_objects(e)
        f = P.lookup('vm::Vm::' + fname)
        def m_fiber_error(e_, a, c):
            # a RuntimeError result of the nested run comes with the error set on the fiber - except for the one the scheduler produces
            # itself: "Fatal error deadlock." (execute returns RuntimeError without an error when the run queue is empty at a switch)
            if e_.path_state.get('executed') == 'RuntimeError' and e_.fork_bool(z3.Bool('nested_run_deadlocked')):
                e_.path_state['deadlock'] = True
                return EnumV('Option<Instance>', 0, None, None, opt)
            return EnumV('Option<Instance>', 1, {'Some': {0: Cell(Opaque('Instance', 'fiber_error'))}}, None, opt)
        e.model(r'^(fiber::)?Fiber::error$', m_fiber_error)
        e.allow_havoc(r'^(fiber::)?Fiber::(ensure_stack|push|pop)$')

        def m_resolve(e_, a, c):
            kv = z3.BitVec('signal', 64)
            names = [v[0] for v in sig.variants]
            allowed = [i for i, n in enumerate(names) if n in ('Ok', 'OkReturn', 'RuntimeError', 'Exit')]
            e_.add_constraint(z3.Or(*[kv == i for i in allowed]))
            k = e_.concretize(kv, allowed)
            e_.path_state['signal'] = names[k]
            return EnumV('vm::ExecutionSignal', k, None, None, sig)
        e.model(r'^(vm::)?Vm::resolve_call$', m_resolve)

        def m_execute(e_, a, c):
            e_.path_state['mode'] = a[1]
            kv = z3.BitVec('executed', 64)
            names = [v[0] for v in er.variants]
            allowed = [i for i, n in enumerate(names) if n != 'CompileError']
            e_.add_constraint(z3.Or(*[kv == i for i in allowed]))
            k = e_.concretize(kv, allowed)
            vn = names[k]
            e_.path_state['executed'] = vn
            pay = None
            if vn == 'Ok':
                pay = {vn: {0: Cell(e_.fresh('laythe_core::value::Value', 'value'))}}
            elif vn == 'Exit':
                pay = {vn: {0: Cell(z3.BitVec('inner_exit_code', 16))}}
            return EnumV('vm::ExecutionResult', k, pay, None, er)
        e.model(r'^(vm::)?Vm::execute$', m_execute)

        def path(e, fname=fname):
            st = W.fresh_state(e)
            vm_sd = P.struct_def('vm::Vm')
            code0 = st.vm.field(e, vm_sd.index_of('exit_code'), 'u16').get(e)
            nv = z3.BitVec('n_args', 64)
            e.add_constraint(z3.ULE(nv, 2))
            n = e.concretize(nv, [0, 1, 2])
            args = ConcSeq('Value', [Cell(e.fresh('laythe_core::value::Value', f'arg{j}')) for j in range(n)])
            call_args = [Ref(st.vm_cell), e.fresh('laythe_core::value::Value', 'callable')]
            if fname == 'run_method':
                call_args.append(e.fresh('laythe_core::value::Value', 'method'))
            call_args.append(SliceRef(args, bv(0, 64), bv(n, 64)))
            outcome, r = 'ok', None
            try:
                r = e.call(f, call_args)
            except PathEnd as pe:
                if pe.kind not in END_KINDS:
                    raise
                outcome = pe.kind
            s = e.path_state.get('signal')
            e.check(outcome != 'internal_error', f'{fname}: no signal a callee can answer with ends in an internal error', {'signal': s, 'deadlock': bool(e.path_state.get('deadlock'))})
            mode = e.path_state.get('mode')
            if mode is not None:
                # the fact C04.K2 builds on: the boundary handed to the nested run is the frame count of the calling code
                # (resolve_call, summarised here, pushes the callee frame on top of it)
                okm = isinstance(mode, EnumV) and mode.variant_name() == 'CallingNativeCode'
                depth = e.payload0(mode, 'CallingNativeCode') if okm else None
                e.check(okm and e.is_valid(depth == st.nframes), f'{fname}: the nested run is bounded by the number of frames of the code that called into native code')
            if s == 'Exit' and outcome == 'ok':
                good = isinstance(r, EnumV) and r.tag == 1 and e.payload0(r, 'Err').variant_name() == 'Exit'
                if good:
                    good = e.is_valid(e.payload0(r, 'Err').field(e, 'Exit', 0, 'u16').get(e) == code0)
                e.check(good, f'{fname}: an exit requested by the callee itself comes back as an exit request with the recorded code')
            return {'fn': fname, 'signal': s, 'outcome': outcome}
        results = e.explore(path)
        for r in results:
            for lab, ok, info in list(r.checks):
                if not ok and 'ends in an internal error' in lab and 'deadlock' in str(info) and 'True' in str(info):
                    res.fail(f'C18.K2:{fname}: a deadlock reported inside a native callback ends in an internal error',
                             'execute answers a deadlock inside the nested run with RuntimeError and no error set; to_call_result then hits "Error not set on vm executor": '
                             'the deadlock report is followed by a host panic instead of a failing exit status', info, replay=F48_REPLAY)
                    r.checks.remove((lab, ok, info))
            if r.kind in ('oob', 'unreachable', 'ub', 'diverge', 'depth', 'panic'):
                res.fail(f'C18.K2:{fname}:{r.kind}', f'{fname}: path ends in {r.kind}: {str(r.info)[:200]}', {'path': str(r.info)})
        summarize_paths(res, e, results, lambda r: r.info if isinstance(r.info, dict) else None, key_prefix=f'C18.K2:{fname}:', unwind_ok=False)


F27_REPLAY = dict(kind='lay', source='let e = Error("x");\ne.message = 5;\nraise e;\n', bad_exit=[101, 134, -6], note='uncaught error whose message field holds a number')


@obligation('C18.K3.print_error_total', 'C18', programs=('vm',), also=('C16',))
def k3_print_error(res, tier):
    """Fiber::print_error for an error instance whose fields hold arbitrary values and a fiber with 1..2 frames: the traceback is
    written without a host panic; every unchecked cast it makes is justified by a test it made itself"""
    from .vmabs import AbsObj, AbsUVec
    P = get_program('vm')
    e = Engine(P, loop_bound=5, timeout_s=120, max_depth=50)
    W = VmWorld(e, P)
    W.havoc_objects(e)
    install_gc_refs(e, exclude=('Fiber',))
    f = P.lookup('fiber::Fiber::print_error')
    e.allow_havoc(r'write_fmt$', r'^<.* as (std::io::|core::fmt::)?Write>::\w+$', r'^(laythe_core::)?(chunk::)?Chunk::get_line$', r'^(std::borrow::|alloc::borrow::)?ToOwned::to_owned$',
                  r'^<.* as (std::borrow::|alloc::borrow::)?ToOwned>::to_owned$', r'^<str as .*PartialEq.*>::(eq|ne)$', r'^<.* as (std::cmp::|core::cmp::)?PartialEq.*>::(eq|ne)$')
    # a frame's ip points into the instructions of the frame's function (C04.K2 / C06.K1): the distance is some offset
    e.model(r'^(std|core)::ptr::(mut_ptr|const_ptr)::<impl \*(mut|const) .*>::(offset_from|offset_from_unsigned|sub_ptr)$',
            lambda e_, a, c: z3.BitVec(e_.fresh_name('ip_offset'), 64))
    # whether a function is the script only selects the wording of its traceback line
    def m_name_eq(e_, a, c):
        return e_.fork_bool(z3.Bool(e_.fresh_name('name_is_script')))
    e.model(r'^core::str::traits::<impl (std::cmp::|core::cmp::)?PartialEq for str>::(eq|ne)$', m_name_eq)
    e.model(r'^<str as (std::cmp::|core::cmp::)?PartialEq>::(eq|ne)$', m_name_eq)
    fib_sd = P.struct_def('fiber::Fiber')
    ix = {n: i for i, (n, _) in enumerate(fib_sd.fields)}
    res.bounds = {'frames': '1..2', 'error fields': 'arbitrary values'}
    res.assumptions = ['error instances have the fields of Error (message first): classes derived from Error inherit them (C03.K1)']

    def path(e):
        st = W.fresh_state(e)
        e.path_state['casts'] = []
        fiber = st.fiber
        nfv = z3.BitVec('n_frames', 64)
        e.add_constraint(z3.And(z3.UGE(nfv, 1), z3.ULE(nfv, 2)))
        nf = e.concretize(nfv, [1, 2])
        frames = e.fresh_seq('fiber::call_frame::CallFrame', NameBacking('frames2'), bv(4, 64))
        fiber.f[ix['frames']] = Cell(AbsUVec(frames, bv(nf, 64)))
        err = AbsObj(z3.BitVec('error', 64), 'Instance')
        e.add_constraint(kind_of(err.id) == P.enum_def('laythe_core::object::ObjectKind').vindex['Instance'])
        e.call(f, [Ref(Cell(fiber)), Ref(Cell(Opaque('dyn Write', 'log'))), err])
        for name, oid, established, where in e.path_state['casts']:
            if 'print_error' in str(where):
                e.check(established, f'print_error: the cast {name} is justified by a test', {'cast': name})
        e.check(True, 'print_error: returns')
        return {'frames': nf, 'casts': len(e.path_state['casts'])}
    results = e.explore(path)
    for r in results:
        if r.kind in ('oob', 'unreachable', 'ub', 'diverge', 'depth', 'panic'):
            s = str(r.info)
            if r.kind == 'panic' and not ('Expected' in s or 'value.rs' in s):
                continue
            res.fail(f'C18.K3:print_error:{r.kind}', f'print_error: path ends in {r.kind}: {s[:200]}', {'path': s}, replay=F27_REPLAY)
    summarize_paths(res, e, results, lambda r: r.info if isinstance(r.info, dict) else None, key_prefix='C18.K3:', unwind_ok=False)
    for fd in res.findings:
        fd.replay = F27_REPLAY


# ---------------------------------------------------------------------------------------------- K3 positions of an uncaught error's traceback
F59_SRC = ('class MyErr : Error {}\nfn inner() {\n  raise Error("boom");\n}\nfn mid() {\n  try {\n    inner();\n  } catch e: MyErr {\n    print("wrong");\n  }\n'
           '  print("not here");\n}\nfn outer() {\n  mid();\n}\nouter();\n')
F59_REPLAY = dict(kind='lay', source=F59_SRC, bad_re=r'main\.lay:(8|9|10|11) in mid\(\)',
                  note='the catch clause of mid does not match; the traceback must name line 7 (the call of inner) for mid')


@obligation('C18.K3.uncaught_traceback_positions', 'C18', programs=('vm',))
def k3_traceback_positions(res, tier):
    """Fiber::print_error for a fiber with 1..3 frames of which the innermost 0..n were already covered by the search for a handler
    (their positions at the moment of the raise are in backtrace_ips, C18.K1; their frame ips have since been moved into catch
    clauses that did not match): the line printed for every frame is looked up at the position the frame had when the error was
    raised — the recorded one where the search recorded it, the frame's own ip otherwise"""
    from .vmabs import AbsObj
    P = get_program('vm')
    e = Engine(P, loop_bound=6, timeout_s=180, max_depth=50)
    W = VmWorld(e, P)
    W.havoc_objects(e)
    install_gc_refs(e, exclude=('Fiber',))
    f = P.lookup('fiber::Fiber::print_error')
    e.allow_havoc(r'write_fmt$', r'^<.* as (std::io::|core::fmt::)?Write>::\w+$', r'^(std::borrow::|alloc::borrow::)?ToOwned::to_owned$',
                  r'^<.* as (std::borrow::|alloc::borrow::)?ToOwned>::to_owned$', r'^<.* as (std::cmp::|core::cmp::)?PartialEq.*>::(eq|ne)$')

    def m_offset_from(e_, a, c):
        p = a[0]
        while isinstance(p, Ref):
            p = p.cell.get(e_)
        if isinstance(p, SeqPtr):
            return p.idx
        raise Unsupported('offset_from of ' + type(p).__name__)
    e.model(r'^(std|core)::ptr::(mut_ptr|const_ptr)::<impl \*(mut|const) .*>::(offset_from|offset_from_unsigned|sub_ptr)$', m_offset_from)

    def m_get_line(e_, a, c):
        e_.path_state['lookups'].append(a[1])
        return z3.BitVec(e_.fresh_name('line'), 32)
    e.model(r'^(laythe_core::)?(chunk::)?Chunk::get_line$', m_get_line)

    def m_name_eq(e_, a, c):
        return e_.fork_bool(z3.Bool(e_.fresh_name('name_is_script'))) if False else False
    e.model(r'^core::str::traits::<impl (std::cmp::|core::cmp::)?PartialEq for str>::(eq|ne)$', m_name_eq)
    e.model(r'^<str as (std::cmp::|core::cmp::)?PartialEq>::(eq|ne)$', m_name_eq)
    fib_sd = P.struct_def('fiber::Fiber')
    ix = {n: i for i, (n, _) in enumerate(fib_sd.fields)}
    cf_sd = P.struct_def('fiber::call_frame::CallFrame')
    cfi = {n: i for i, (n, _) in enumerate(cf_sd.fields)}
    NF = 3
    res.bounds = {'frames': f'1..{NF}', 'frames covered by the search': '0..frames (innermost first)', 'positions': 'any offsets into the instructions'}
    res.assumptions = ['backtrace_ips holds, innermost first, the position each covered frame had when the error was raised (C18.K1.pause_unwind)',
                       'a frame ip points into the instructions of the frame\'s function (C04.K2 / C06.K1): positions are offsets from its start',
                       'the error message is a string (other values: C18.K3.print_error_total)']

    def path(e):
        st = W.fresh_state(e)
        e.path_state['casts'] = []
        e.path_state['lookups'] = []
        fiber = st.fiber
        nfv = z3.BitVec('n_frames', 64)
        e.add_constraint(z3.And(z3.UGE(nfv, 1), z3.ULE(nfv, NF)))
        nf = e.concretize(nfv, list(range(1, NF + 1)))
        nbv = z3.BitVec('n_recorded', 64)
        e.add_constraint(z3.ULE(nbv, nf))
        nb = e.concretize(nbv, list(range(nf + 1)))
        cells, now, raised = [], [], []
        for i in range(nf):             # frame i counted from the bottom
            fr = Struct('fiber::call_frame::CallFrame', None, NameBacking(f'tb_frame{i}'))
            code = e.fresh_seq('u8', NameBacking(f'tb_code{i}'), z3.BitVec(f'tb_code{i}_len', 64))
            ipn = z3.BitVec(f'ip_now{i}', 64)
            e.add_constraint(z3.ULT(ipn, 1 << 32))
            fr.f[cfi['ip']] = Cell(SeqPtr(code, ipn))
            cells.append(Cell(fr))
            now.append((code, ipn))
        fiber.f[ix['frames']] = Cell(AbsUVec(ConcSeq('fiber::call_frame::CallFrame', cells), bv(nf, 64)))
        recs = []
        for k in range(nb):             # k-th recorded position belongs to the k-th frame from the top
            code, _ = now[nf - 1 - k]
            r = z3.BitVec(f'ip_at_raise{k}', 64)
            e.add_constraint(z3.ULT(r, 1 << 32))
            recs.append(Cell(SeqPtr(code, r)))
            raised.append(r)
        fiber.f[ix['backtrace_ips']] = Cell(AbsUVec(ConcSeq('*const u8', recs), bv(nb, 64)))
        err = AbsObj(z3.BitVec('error', 64), 'Instance')
        e.add_constraint(kind_of(err.id) == P.enum_def('laythe_core::object::ObjectKind').vindex['Instance'])
        e.call(f, [Ref(Cell(fiber)), Ref(Cell(Opaque('dyn Write', 'log'))), err])
        looks = e.path_state['lookups']
        e.check(len(looks) == nf, 'print_error: one line is looked up per frame', {'lookups': len(looks), 'frames': nf})
        for k, off in enumerate(looks[:nf]):
            want = raised[k] if k < nb else now[nf - 1 - k][1]
            want = z3.If(want == 0, want, want - 1)          # the byte before the position (saturating)
            e.check(off == want, 'print_error: the line of a frame is looked up at the position the frame had when the error was raised',
                    {'frame from the top': k, 'covered by the handler search': k < nb})
        return {'frames': nf, 'recorded': nb}
    results = e.explore(path)
    seen = False
    for r in results:
        for lab, ok, info in list(r.checks):
            if not ok and 'position the frame had' in lab:
                if not seen:
                    seen = True
                    res.fail('C18.K3:uncaught traceback uses the moved ip of frames whose catch clause did not match',
                             'print_error reads every frame\'s current ip; a frame whose catch clause was evaluated and did not match has its ip inside that clause, '
                             'so the traceback names the line of the catch clause instead of the call that was active when the error was raised', info, replay=F59_REPLAY)
                r.checks.remove((lab, ok, info))
        if r.kind in ('oob', 'unreachable', 'ub', 'diverge', 'depth', 'panic'):
            s = str(r.info)
            if r.kind == 'panic' and not ('Expected' in s or 'value.rs' in s):
                continue
            res.fail(f'C18.K3:traceback_positions:{r.kind}', f'print_error: path ends in {r.kind}: {s[:200]}', {'path': s})
    summarize_paths(res, e, results, lambda r: r.info if isinstance(r.info, dict) else None, key_prefix='C18.K3:positions:', unwind_ok=False)
