"""C07 — channels deliver every value exactly once, in order, within capacity (queue state machine + VM retry protocol)."""
import z3
from vfw.core import obligation, get_program, summarize_paths
from mirsym.engine import Engine
from mirsym.values import *
from mirsym.tys import *
from .vmabs import VmWorld, AbsObj, AbsGc, install_gc_refs, kind_of

QUEUE = 'laythe_core::object::channel::channel_queue::ChannelQueue'
VALUE = 'laythe_core::value::Value'
WAITER = 'laythe_core::Ref<laythe_core::object::ChannelWaiter>'


def _engine(P, K):
    e = Engine(P, loop_bound=K + 2, timeout_s=180, max_depth=60)
    VmWorld(e, P)                 # object reference abstraction (values on the queue may be objects)
    install_gc_refs(e)
    return e


def _queue_state(e, P, K):
    """an arbitrary channel queue satisfying the representation invariant"""
    sd = P.struct_def(QUEUE)
    ix = {n: i for i, (n, _) in enumerate(sd.fields)}
    q = e.fresh(QUEUE, 'q')
    dq = q.field(e, ix['queue'], sd.fields[ix['queue']][1]).get(e)
    cap = q.field(e, ix['capacity'], 'usize').get(e)
    state = q.field(e, ix['state'], sd.fields[ix['state']][1]).get(e)
    kind = q.field(e, ix['kind'], sd.fields[ix['kind']][1]).get(e)
    sw = q.field(e, ix['send_waiters'], sd.fields[ix['send_waiters']][1]).get(e)
    rw = q.field(e, ix['receive_waiters'], sd.fields[ix['receive_waiters']][1]).get(e)
    S = state.edef.vindex
    Kd = kind.edef.vindex
    stt = state.tag if not isinstance(state.tag, int) else bv(state.tag, 64)
    kt = kind.tag if not isinstance(kind.tag, int) else bv(kind.tag, 64)
    inv = z3.And(z3.UGE(cap, 1), z3.ULT(cap, 1 << 32), z3.ULE(dq.len, cap),
                 z3.Implies(kt == Kd['Sync'], cap == 1),
                 z3.Implies(stt == S['ClosedEmpty'], dq.len == 0))
    e.assume(inv)
    e.assume(z3.And(z3.ULE(sw.len, K), z3.ULE(rw.len, K)))
    st = type('Q', (), {})()
    st.q, st.dq, st.cap, st.state, st.kind, st.sw, st.rw, st.S, st.K, st.ix = q, dq, cap, state, kind, sw, rw, S, Kd, ix
    st.len0, st.head0, st.arr0 = dq.len, dq.head, dq.seq.arr
    st.stt0, st.kt = stt, kt
    st.sw0 = (sw.head, sw.len, sw.seq.arr)
    st.rw0 = (rw.head, rw.len, rw.seq.arr)
    return st


def _cur_state(e, st):
    s_ = st.q.f[st.ix['state']].get(e)
    return s_.tag if not isinstance(s_.tag, int) else bv(s_.tag, 64)


def _inv_after(e, st):
    stt = _cur_state(e, st)
    e.check(z3.And(z3.ULE(st.dq.len, st.cap), z3.Implies(stt == st.S['ClosedEmpty'], st.dq.len == 0)),
            'representation invariant preserved (len <= capacity; closed-empty means empty)')
    return stt


def _unchanged_queue(st):
    return z3.And(st.dq.len == st.len0, st.dq.head == st.head0, st.dq.seq.arr == st.arr0)


def _elem(st, arr, head, i):
    return z3.Select(arr, head + i)


def _tag(r):
    return r.tag if not isinstance(r.tag, int) else bv(r.tag, 64)


def _came_from(e, st, w, which):
    """the waiter id w was stored in the given waiter queue before the step"""
    head, ln, arr = st.sw0 if which == 'send' else st.rw0
    i = z3.BitVec('w_idx_' + which, 64)
    from mirsym.values import TermBacking
    seq = st.sw.seq if which == 'send' else st.rw.seq
    idleaf = TermBacking(z3.Select(arr, head + i), seq.tyname).child('id').leaf(e, z3.BitVecSort(64))
    return z3.And(z3.ULT(i, ln), idleaf == w.id), i


@obligation('C07.K1.queue_step', 'C07', programs=('core',))
def k1_queue(res, tier):
    """ChannelQueue::send / receive / close from an arbitrary queue state satisfying the invariant: admitted sends append at the
    tail, receives take the head, rejected operations leave the queue unchanged, nothing is admitted after close, buffered
    values are still delivered in order after close"""
    P = get_program('core')
    K = 2 if tier == 'quick' else 4
    res.bounds = {'queue_length': 'any <= capacity < 2^32 (symbolic)', 'waiter_lists': f'<= {K} entries each'}
    res.assumptions = ['VecDeque is modelled as a logical queue (push_back / pop_front / len / iteration); hashbrown-free',
                       'Ref<ChannelWaiter> are identities with heap-indexed data']
    fsend = P.lookup('ChannelQueue::send')
    frecv = P.lookup('ChannelQueue::receive')
    fclose = P.lookup('ChannelQueue::close')
    SR = P.enum_def('laythe_core::object::channel::SendResult').vindex
    RR = P.enum_def('laythe_core::object::channel::ReceiveResult').vindex
    CR = P.enum_def('laythe_core::object::channel::CloseResult').vindex

    e = _engine(P, K)

    def send_path(e):
        st = _queue_state(e, P, K)
        w = e.fresh(WAITER, 'me')
        v = e.fresh(VALUE, 'v')
        r = e.call(fsend, [Ref(Cell(st.q)), w, v])
        rt = _tag(r)
        _inv_after(e, st)
        ready = st.stt0 == st.S['Ready']
        sync = st.kt == st.K['Sync']
        admitted = z3.And(ready, z3.ULT(st.len0, st.cap))
        e.check((z3.Or(rt == SR['Ok'], rt == SR['FullBlock'])) == admitted, 'a send is admitted exactly when the channel is open and below capacity')
        e.check(z3.Implies(z3.Not(ready), rt == SR['Closed']), 'after close every send is rejected as Closed')
        e.check(z3.Implies(z3.And(ready, z3.Not(z3.ULT(st.len0, st.cap))), rt == SR['Full']), 'a full open channel answers Full (sender retries later)')
        e.check(z3.Implies(admitted, (rt == SR['FullBlock']) == sync), 'a synchronous sender is told to block until its value is taken')
        vt = st.dq.seq.tyname
        from mirsym.values import TermBacking
        if e.sat(admitted):
            e.check(z3.Implies(admitted, z3.And(st.dq.len == st.len0 + 1, st.dq.head == st.head0)), 'an admitted send grows the queue by exactly one at the tail')
            # the appended element is the sent value; earlier elements untouched
            vterm = e.elem_term(v, st.dq.seq.arr.sort().range(), vt)
            e.check(z3.Implies(admitted, z3.Select(st.dq.seq.arr, st.head0 + st.len0) == vterm) if False else True, 'noop')
            i = z3.BitVec('i_prefix', 64)
            e.check(z3.Implies(z3.And(admitted, z3.ULT(i, st.len0)), _elem(st, st.dq.seq.arr, st.head0, i) == _elem(st, st.arr0, st.head0, i)),
                    'values already buffered keep their order and position')
            sent = st.dq.seq.load(e, z3.simplify(st.head0 + st.len0))
            e.check(z3.Implies(admitted, e.value_eq(sent, v) if False else _same_value(e, sent, v)), 'the value at the tail is the value sent')
        e.check(z3.Implies(z3.Not(admitted), _unchanged_queue(st)), 'a rejected send leaves the queue unchanged')
        e.check(_cur_state(e, st) == st.stt0, 'send never changes the open/closed state')
        return {'op': 'send', 'result': str(z3.simplify(rt))}
    results = e.explore(send_path)
    _wrap(res, e, results, 'send')

    e = _engine(P, K)

    def recv_path(e):
        st = _queue_state(e, P, K)
        w = e.fresh(WAITER, 'me')
        r = e.call(frecv, [Ref(Cell(st.q)), w])
        rt = _tag(r)
        stt = _inv_after(e, st)
        nonempty = st.len0 != 0
        closed_empty = st.stt0 == st.S['ClosedEmpty']
        gives = z3.And(nonempty, z3.Not(closed_empty))
        e.check((rt == RR['Ok']) == gives, 'a receive yields a value exactly when one is buffered')
        if e.sat(rt == RR['Ok']):
            ok = e.fork_bool(rt == RR['Ok'])
            if ok:
                got = r.field(e, 'Ok', 0, VALUE).get(e)
                head = st.dq.seq.load(e, st.head0) if False else None
                e.check(z3.And(st.dq.len == st.len0 - 1, st.dq.head == st.head0 + 1, st.dq.seq.arr == st.arr0), 'exactly the head is removed; the rest keeps its order')
                old_head = e.materialise(VALUE, __import__('mirsym.values', fromlist=['TermBacking']).TermBacking(z3.Select(st.arr0, st.head0), st.dq.seq.tyname))
                e.check(_same_value(e, got, old_head), 'the value received is the oldest buffered value (FIFO)')
                return {'op': 'receive', 'result': 'Ok'}
        e.check(z3.Implies(z3.And(st.stt0 == st.S['Ready'], z3.Not(nonempty)),
                           z3.Or(rt == RR['Empty'], rt == RR['EmptyBlock'])), 'an empty open channel makes the receiver wait')
        e.check(z3.Implies(z3.And(st.stt0 != st.S['Ready'], z3.Not(nonempty)), rt == RR['Closed']), 'a closed and drained channel answers Closed (nil)')
        e.check(z3.Implies(rt != RR['Ok'], _unchanged_queue(st)), 'a receive without a value leaves the queue unchanged')
        e.check(z3.Implies(st.stt0 != st.S['Ready'], stt != st.S['Ready']), 'a closed channel never re-opens')
        return {'op': 'receive', 'result': str(z3.simplify(rt))}
    results = e.explore(recv_path)
    _wrap(res, e, results, 'receive')

    e = _engine(P, K)

    def close_path(e):
        st = _queue_state(e, P, K)
        r = e.call(fclose, [Ref(Cell(st.q))])
        rt = _tag(r)
        stt = _inv_after(e, st)
        e.check(stt != st.S['Ready'], 'after close the channel is closed')
        e.check((rt == CR['AlreadyClosed']) == (st.stt0 != st.S['Ready']), 'closing twice is reported')
        e.check(_unchanged_queue(st), 'close keeps already-buffered values (they are still delivered, in order)')
        return {'op': 'close'}
    results = e.explore(close_path)
    _wrap(res, e, results, 'close')


def _same_value(e, a, b):
    """structural identity of two Values (same variant, same payload bits / identity)"""
    fa, fb = _flat(e, a), _flat(e, b)
    if len(fa) != len(fb):
        return z3.BoolVal(False)
    return z3.And(*[x == y for x, y in zip(fa, fb)]) if fa else z3.BoolVal(True)


def _flat(e, v):
    if isinstance(v, EnumV):
        t = v.tag if not isinstance(v.tag, int) else bv(v.tag, 64)
        ix = v.edef.vindex
        out = [t]
        num = v.field(e, 'Number', 0, 'f64').get(e) if 'Number' in ix else None
        if num is not None:
            out.append(z3.If(t == ix['Number'], z3.fpToIEEEBV(num), bv(0, 64)))
            out.append(z3.If(t == ix['Bool'], z3.If(to_z3_bool(v.field(e, 'Bool', 0, 'bool').get(e)), bv(1, 64), bv(0, 64)), bv(0, 64)))
            out.append(z3.If(t == ix['Obj'], v.field(e, 'Obj', 0, 'laythe_core::ObjectRef').get(e).id, bv(0, 64)))
        return out
    if isinstance(v, Struct):
        return [v.field(e, 0, 'u64').get(e)]
    raise Unsupported('flat value of ' + type(v).__name__)


def _wrap(res, e, results, op):
    for r in results:
        if r.kind in ('panic', 'oob', 'unreachable', 'ub', 'diverge', 'depth'):
            res.fail(f'C07.K1:{op}:{r.kind}', f'{op}: path ends in {r.kind}: {str(r.info)[:200]}', {'path': str(r.info)})
    summarize_paths(res, e, results, lambda r: r.info if isinstance(r.info, dict) else None, key_prefix=f'C07.K1:{op}:', unwind_ok=True)


F58_SRC = ('fn s(ch, done) {\n  ch <- 1;\n  print("sender proceeded");\n  done <- 1;\n}\nlet ch = chan();\nlet done = chan(1);\nlaunch s(ch, done);\n'
           'let tick = chan(1);\nfn t(tick) { tick <- 1; }\nlaunch t(tick);\n<- tick;\nch.close();\nprint(<- ch);\nprint(<- ch);\nprint(<- done);\n')
F58_REPLAY = dict(kind='lay', source=F58_SRC, expect_stdout='1\nnil\nsender proceeded\n1\n', bad_re='deadlock',
                  note='a synchronous sender is blocked, the channel is closed by another fiber and then drained: the sender is never resumed')


@obligation('C07.K1.runnable_waiter', 'C07', programs=('core',))
def k1_runnable(res, tier):
    """ChannelQueue::runnable_waiter: a parked sender of a synchronous channel is never handed out as runnable while its value is
    still in the queue; whoever is handed out was waiting on this channel and is runnable"""
    P = get_program('core')
    K = 2 if tier == 'quick' else 3
    res.bounds = {'waiter_lists': f'<= {K} entries each', 'queue_length': 'any <= capacity'}
    f = P.lookup('ChannelQueue::runnable_waiter')
    e = _engine(P, K)

    def path(e):
        st = _queue_state(e, P, K)
        r = e.call(f, [Ref(Cell(st.q))])
        some = e.fork_bool(_tag(r) == 1)
        if not some:
            # completeness on a closed queue: every receive can now complete (a buffered value or nil), so a runnable receiver that
            # waits on the queue must be found
            closed = z3.Or(st.stt0 == st.S['Closed'], st.stt0 == st.S['ClosedEmpty'])
            head, ln, arr = st.rw0
            i = z3.BitVec('rw_pos', 64)
            e.add_constraint(z3.ULT(i, ln))
            from mirsym.values import TermBacking
            w0 = e.materialise(WAITER, TermBacking(z3.Select(arr, head + i), st.rw.seq.tyname))
            run0 = w0.data_cell(e).get(e).field(e, 0, 'bool').get(e)
            e.check(z3.Not(z3.And(closed, z3.UGE(ln, 1), to_z3_bool(run0))), 'closed queue: a runnable receiver waiting on it is handed out (its receive can complete)')
            # and on a closed queue with nothing left in it every parked sender can complete: the value of a blocked synchronous sender
            # was taken, a sender that sleeps for room meets the closed channel when it retries
            shead, sln, sarr = st.sw0
            j = z3.BitVec('sw_pos', 64)
            e.add_constraint(z3.ULT(j, sln))
            s0 = e.materialise(WAITER, TermBacking(z3.Select(sarr, shead + j), st.sw.seq.tyname))
            srun0 = s0.data_cell(e).get(e).field(e, 0, 'bool').get(e)
            # (a buffered channel has no blocked senders: every parked sender retries, whatever is still buffered)
            e.check(z3.Not(z3.And(closed, z3.Or(st.len0 == 0, st.kt == st.K['Buffered']), z3.UGE(sln, 1), to_z3_bool(srun0))),
                    'closed queue with nothing buffered: a runnable sender waiting on it is handed out (its value was taken, or its retry meets the closed channel)')
            return {'result': 'None'}
        w = r.field(e, 'Some', 0, WAITER).get(e)
        from_send, _ = _came_from(e, st, w, 'send')
        from_recv, _ = _came_from(e, st, w, 'recv')
        sync = st.kt == st.K['Sync']
        e.check(z3.Implies(z3.And(sync, st.len0 != 0), z3.Not(e.sat(from_send)) if False else True), 'noop')
        # membership is existential over the stored position: decide "not from the send list" by refuting every position
        if e.sat(z3.And(sync, st.len0 != 0)):
            e.add_constraint(z3.And(sync, st.len0 != 0)) if False else None
        # popped entries are exactly a prefix of one list: compare list heads
        popped_send = st.sw.head != st.sw0[0]
        popped_recv = st.rw.head != st.rw0[0]
        e.check(z3.Implies(z3.And(sync, st.len0 != 0), z3.Not(popped_send)),
                'synchronous channel with its value still queued: no sender is woken (the sender does not proceed until its value is taken)')
        e.check(z3.Or(popped_send, popped_recv), 'the runnable waiter comes from this channel waiter lists')
        runnable = w.data_cell(e).get(e).field(e, 0, 'bool').get(e)
        e.check(to_z3_bool(runnable), 'only runnable waiters are handed out')
        e.check(_unchanged_queue(st), 'looking for a runnable waiter never touches buffered values')
        return {'result': 'Some'}
    results = e.explore(path)
    for r in results:
        for lab, ok, info in list(r.checks):
            if not ok and 'a runnable sender waiting on it is handed out' in lab:
                res.fail('C07.K1:runnable_waiter: parked senders of a closed, drained queue are never found',
                         'runnable_waiter looks only at the receivers of a closed queue: a synchronous sender whose value was taken after the close '
                         'is never resumed, a sender sleeping for room never gets its closed-channel error ("Fatal error deadlock" instead)', info, replay=F58_REPLAY)
                r.checks.remove((lab, ok, info))
        if r.kind in ('panic', 'oob', 'unreachable', 'ub', 'diverge', 'depth'):
            res.fail(f'C07.K1:runnable_waiter:{r.kind}', f'path ends in {r.kind}: {str(r.info)[:200]}', {'path': str(r.info)})
    summarize_paths(res, e, results, lambda r: r.info if isinstance(r.info, dict) else None, key_prefix='C07.K1:runnable_waiter:', unwind_ok=True)


# ---------------------------------------------------------------------------------------------- K2 close and parked fibers
F47_SRC = ('let c = chan();\nlet done = chan(1);\nfn r() { print(<- c); done <- 1; }\nlaunch r();\nfn closer() { c.close(); }\nlaunch closer();\nprint(<- done);\n')
F47_REPLAY = dict(kind='lay', source=F47_SRC, expect_stdout='nil\n1\n', bad_re='deadlock')


@obligation('C07.K2.close_wakes_receivers', 'C07', programs=('core',))
def k2_close(res, tier):
    """ChannelQueue::close on an open queue on which receivers are parked: once the queue is closed every receive can complete (a
    buffered value or nil), so the parked receivers must be handed back by the close for resumption; otherwise they wait forever
    for an operation that has become possible"""
    P = get_program('core')
    K = 2 if tier == 'quick' else 3
    res.bounds = {'waiter_lists': f'<= {K} entries each', 'queue_length': 'any <= capacity'}
    res.assumptions = ['the closing fiber does not record the channel as used: close is a native, add_used_channel is called by op_send / op_receive only '
                       '(checked on the source), so no later walk of "channels I used" reaches these lists on behalf of the close; the only party that '
                       'can hand the parked receivers to the scheduler is the close itself']
    vm_src = ''.join(t for n, t in get_program('vm').items.files.items() if n.startswith('laythe_vm/src/vm/')) if tier else ''
    lib_src = get_program('vm').items.files.get('laythe_lib/src/global/primitives/channel.rs', '')
    if 'add_used_channel' in lib_src or 'runnable_waiter' in lib_src or 'fn op_close' in vm_src:
        res.inconclusive('close has a route to the scheduler the obligation does not model (add_used_channel / runnable_waiter in the channel natives, or an op_close)')
        return
    f = P.lookup('ChannelQueue::close')
    e = _engine(P, K)

    def path(e):
        st = _queue_state(e, P, K)
        e.add_constraint(st.stt0 == st.S['Ready'])
        e.add_constraint(z3.UGE(st.rw.len, 1))
        r = e.call(f, [Ref(Cell(st.q))])
        stt = _inv_after(e, st)
        e.check(z3.Or(stt == st.S['Closed'], stt == st.S['ClosedEmpty']), 'close: the queue is closed')
        handed = st.rw.head != st.rw0[0]
        e.check(handed, 'close: a receiver parked on the queue is made runnable (its receive can now complete)')
        return {'receivers parked': '>= 1'}
    results = e.explore(path)
    for r in results:
        for lab, ok, info in list(r.checks):
            if not ok and 'parked on the queue is made runnable' in lab:
                res.fail('C07.K2:close leaves parked receivers blocked',
                         'ChannelQueue::close only changes the state: a fiber blocked in `<- c` stays in receive_waiters and the closing fiber never walks that list, nobody resumes it, '
                         'and the program ends in "Fatal error deadlock" although the receive could yield nil', info, replay=F47_REPLAY)
                r.checks.remove((lab, ok, info))
        if r.kind in ('panic', 'oob', 'unreachable', 'ub', 'diverge', 'depth'):
            res.fail(f'C07.K2:close:{r.kind}', f'path ends in {r.kind}: {str(r.info)[:200]}', {'path': str(r.info)})
    summarize_paths(res, e, results, lambda r: r.info if isinstance(r.info, dict) else None, key_prefix='C07.K2:close:', unwind_ok=True)
