"""C05.K3 — temporary-root discipline of the natives: an object a native has just allocated and holds only in a local must be
rooted (push_root), stored into something reachable, or handed to the allocation that follows, before anything that can collect
runs; otherwise a collection at that point frees it while the native still uses it.

The sweep is the one of C16.K4 (every native of the standard library executed from MIR on arguments constrained only by its
signature); here every call the native makes is observed and a little ownership automaton is run per path:

  newborn X        result of hooks.manage / manage_obj / manage_str in this activation
  rooted           push_root(X) until the matching pop_roots
  stored           X passed to a call whose receiver is an object that existed before the activation (arguments, receiver, and
                   whatever they reach are on the fiber stack) -> safe for good; receiver a newborn Y -> X shares Y's fate
  may-collect E    manage*, collect_garbage, a callback (hooks.call / call_method / get_method), or any summarised call that is
                   handed the hooks
  violation        X is neither rooted nor stored at E, and X is used after E (passed to any call, or returned)

The automaton errs on the side of silence (a store is assumed whenever X is handed to a call on a reachable receiver)."""
import os
import z3
from vfw.core import obligation
from mirsym.values import *
from mirsym.tys import *
from .vmabs import AbsObj, AbsArr, AbsGc
from .c16natives import NativeCastWorld, native_table, _call_fn, RECEIVER, _arg_shapes, SHARDS
from .c01 import VALUE

NO_COLLECT = {'push_root', 'pop_roots', 'as_gc', 'as_value', 'as_io', 'new', 'get_class', 'scan_roots', 'temp_roots', 'io', 'as_ref', 'deref', 'deref_mut',
              'from', 'into', 'clone', 'to_obj', 'to_num', 'to_bool', 'is_obj', 'is_num', 'kind', 'default'}
ALLOC = {'manage', 'manage_obj', 'manage_str'}
CALLBACK = {'call', 'call_method', 'get_method'}

# natives whose demonstration needs a particular program: struct -> replay
REPLAYS = {}


def _ids(e, v, out, depth=0):
    if depth > 5 or v is None:
        return out
    if isinstance(v, (AbsObj, AbsArr, AbsGc)):
        out.add(v.id.sexpr())
    elif isinstance(v, Ref):
        c = v.cell
        inner = getattr(c, 'v', None) if type(c) is Cell else None
        if inner is not None and type(inner) is not Lazy:
            _ids(e, inner, out, depth + 1)
    elif isinstance(v, Struct):
        for c in list(v.f.values()) if isinstance(v.f, dict) else list(v.f):
            inner = getattr(c, 'v', None) if type(c) is Cell else None
            if inner is not None and type(inner) is not Lazy:
                _ids(e, inner, out, depth + 1)
    elif isinstance(v, EnumV):
        for fields in (v.payload or {}).values():
            for c in fields.values():
                inner = getattr(c, 'v', None) if type(c) is Cell else None
                if inner is not None and type(inner) is not Lazy:
                    _ids(e, inner, out, depth + 1)
    elif isinstance(v, ConcSeq):
        for c in v.cells[:8]:
            inner = getattr(c, 'v', None) if type(c) is Cell else None
            if inner is not None and type(inner) is not Lazy:
                _ids(e, inner, out, depth + 1)
    return out


def _has_hooks(e, args):
    for a in args:
        v = a
        for _ in range(3):
            if isinstance(v, Ref) and type(v.cell) is Cell and type(v.cell.v) is not Lazy:
                v = v.cell.v
        if isinstance(v, Opaque) and str(getattr(v, 'ty', '')).split('::')[-1] in ('Hooks', 'GcHooks', 'ValueHooks'):
            return True
    return False


class Rooting:
    """the per-path automaton"""

    def __init__(self):
        self.newborn = []        # ids in allocation order
        self.roots = []          # stack of id sets
        self.safe = set()
        self.owner = {}
        self.risk = {}           # id -> description of the collection point it was unprotected at
        self.violations = []
        self.collect_points = 0
        self.seen = set()        # every identity that appeared in an argument (exists independently of this allocation)
        self.pending = False     # the last allocation returned a handle without identity (raw vector): its wrapper is the newborn

    def is_safe(self, x, extra=()):
        seen = set()
        while x is not None and x not in seen:
            seen.add(x)
            if x in self.safe or x in extra or any(x in r for r in self.roots):
                return True
            x = self.owner.get(x)
        return False

    def observe(self, e, norm, args, r, how):
        if how == 'mir':
            return
        name = norm.split('::')[-1]
        nb = set(self.newborn)
        arg_ids = [_ids(e, a, set()) for a in args]
        all_ids = set().union(*arg_ids) if arg_ids else set()
        used = all_ids & nb
        # use of an object that was unprotected at an earlier collection point
        for x in used:
            if x in self.risk and name not in ('drop',):
                self.violations.append((x, self.risk[x], norm))
        if name == 'push_root':
            self.roots.append(set(all_ids))
            return
        if name == 'pop_roots':
            n = conc(z3.simplify(args[-1])) if not isinstance(args[-1], int) else args[-1]
            for _ in range(n if n is not None else len(self.roots)):
                if self.roots:
                    self.roots.pop()
            return
        res_ids = _ids(e, r, set()) if r is not None else set()
        born = None
        if name in ALLOC:
            born = [i for i in res_ids if i not in nb and i not in self.seen]
            self.pending = not born
        elif self.pending and name in ('new', 'from'):
            # List::new(raw) / Tuple::new(raw): the wrapper around the handle that was just allocated
            wrapped = [i for i in res_ids if i not in nb and i not in self.seen]
            if wrapped:
                self.newborn.extend(wrapped)
                self.pending = False
                self.seen |= all_ids
                return
        self.seen |= all_ids
        # ownership
        if born:
            for x in used:
                self.owner.setdefault(x, born[0])
        elif len(args) > 1:
            recv = arg_ids[0]
            rest = set().union(*arg_ids[1:]) & nb
            if rest:
                if recv - nb:
                    self.safe |= rest            # stored into something that was reachable before the activation
                else:
                    ys = [y for y in recv if y in nb]
                    for x in rest:
                        if ys and x != ys[0]:
                            self.owner.setdefault(x, ys[0])
        # collection point
        may = name in ALLOC or name in CALLBACK or name == 'collect_garbage' or (name not in NO_COLLECT and how in ('havoc', 'model', 'fallback') and _has_hooks(e, args))
        if may:
            self.collect_points += 1
            for x in self.newborn:
                if x not in self.risk and not self.is_safe(x, extra=tuple(born or ())):
                    self.risk[x] = norm
        if born:
            self.newborn.extend(born)

    def finish(self, e, r):
        for x in _ids(e, r, set()) & set(self.newborn):
            if x in self.risk:
                self.violations.append((x, self.risk[x], 'return value'))


def _k3(res, tier, shard):
    NW = NativeCastWorld()
    P = NW.P
    table = native_table(P)
    extra = 1
    decided, outside = [], []
    res.bounds = {'variadic arguments': f'0..{extra}', 'paths per native': '<= 400', 'loops': 'unrolled 4 times'}
    res.assumptions = ['arguments and receiver are reachable from the fiber stack for the whole activation',
                       'a newborn handed to a call on a reachable receiver is assumed stored there (silence rather than alarm)',
                       'callbacks and summarised calls that receive the hooks may collect']
    only = os.environ.get('VERIF_NATIVE')
    for n_ent, ent in enumerate(table):
        if n_ent % SHARDS != shard:
            continue
        if only and only not in ent['struct']:
            continue
        label = f"{ent['struct']}"
        if ent['meta'] is None:
            continue
        f = _call_fn(P, ent['file'], ent['struct'])
        if f is None:
            continue
        recv = None
        for k, v in RECEIVER.items():
            if ent['file'].endswith(k):
                recv = v
        meta = ent['meta']
        W = NativeCastWorld()
        e = W.e
        shapes = _arg_shapes(meta, extra)

        def observer(norm, args, r, how, e=e):
            rt = e.path_state.get('rooting')
            if rt is not None:
                rt.observe(e, norm, args, r, how)
        e.call_observer = observer

        def path(e, meta=meta, recv=recv, shapes=shapes, ent=ent, f=f):
            W.W.fresh_state(e)
            e.path_state['casts'] = []
            if len(shapes) > 1:
                sv = z3.BitVec('shape', 64)
                e.add_constraint(z3.ULT(sv, len(shapes)))
                si = e.concretize(sv, list(range(len(shapes))))
            else:
                si = 0
            kinds = list(shapes[si])
            vals = []
            if meta['is_method']:
                v = e.fresh(VALUE, 'receiver')
                W.constrain(e, v, recv or 'Object')
                vals.append(v)
            for j, k in enumerate(kinds):
                v = e.fresh(VALUE, f'arg{j}')
                W.constrain(e, v, k)
                vals.append(v)
            args = ConcSeq('Value', [Cell(v) for v in vals])
            sd = P.items.structs.get(ent['struct'], [])
            sd = [d for d in sd if d.file == ent['file']]
            me = Struct(ent['struct'], None, NameBacking('native_self')) if sd and sd[0].fields else Struct(ent['struct'], {}, None)
            rt = e.path_state['rooting'] = Rooting()
            r = e.call(f, [Ref(Cell(me)), Ref(Cell(Opaque('Hooks', 'hooks'))), SliceRef(args, bv(0, 64), bv(len(vals), 64))])
            rt.finish(e, r)
            e.check(True, f'{ent["struct"]}: rooting automaton ran to the end of the activation')
            return {'native': ent['struct'], 'allocations': len(rt.newborn), 'collection_points': rt.collect_points,
                    'violations': [(x, at, use) for x, at, use in rt.violations[:3]]}
        try:
            results = e.explore(path)
        except Unsupported as ex:
            outside.append(f'{label}: {str(ex)[:140]}')
            continue
        # paths that end in an error (Call::Err, panics decided by C16.K4) still ran the automaton up to that point via their checks
        unsup = [r for r in results if r.kind in ('unsupported', 'budget')]
        seen = set()
        for r in results:
            res.checks += len(r.checks)
            for x, at, use in ((r.info or {}).get('violations', []) if isinstance(r.info, dict) else []):
                key = f'C05.K3:{label}:unprotected at {at.split("::")[-1]}, used by {use.split("::")[-1]}'
                if key in seen:
                    continue
                seen.add(key)
                res.fail(key, f'{label}: a newly allocated object is neither rooted nor stored at {at} (which can collect) and is used afterwards by {use}',
                         {'object': x, 'unprotected_at': at, 'used_by': use}, replay=REPLAYS.get(label))
        res.absorb(e)
        res.paths += len(results)
        oks = [r for r in results if r.kind == 'ok']
        if oks:
            res.nontrivial += 1
        if unsup and not oks:
            outside.append(f'{label}: {str(unsup[0].info)[:140]}')
        elif oks:
            allocs = max((r.info or {}).get('allocations', 0) for r in oks if isinstance(r.info, dict))
            decided.append(f'{label} ({allocs} allocations)' + (' (some paths not encoded)' if unsup else ''))
    res.bounds['natives decided'] = len(decided)
    res.bounds['natives'] = decided
    res.outside = (res.outside or []) + ['not encoded: ' + x for x in outside]


for _sh in range(SHARDS):
    def _mk(sh=_sh):
        @obligation(f'C05.K3.native_rooting.{sh}', 'C05', programs=('vm',))
        def ob(res, tier):
            _k3(res, tier, sh)
        ob.__doc__ = ("""every native of the standard library (shard %d of %d), run from MIR with every call observed: an object the native has just
        allocated is rooted, stored into something reachable or handed to the next allocation before any point that can collect, or it
        is never used after that point""" % (sh, SHARDS))
        from vfw.core import REGISTRY
        for o in REGISTRY.get('C05', []):
            if o.id == f'C05.K3.native_rooting.{sh}':
                o.doc = ob.__doc__
    _mk()


def _enumerate_impls(P):
    import re
    out = []
    for rel, src in sorted(P.items.files.items()):
        if not rel.startswith('laythe_lib/src/'):
            continue
        body = src.split('#[cfg(test)]')[0]
        for m in re.finditer(r'^impl Enumerate for (\w+)\b', body, re.M):
            line = body.count('\n', 0, m.start()) + 1
            c = [f for f in P.fns if f.name.endswith('::next') and f'<impl at {rel}:{line}:' in f.name]
            out.append((rel, m.group(1), c[0] if len(c) == 1 else None))
    return out


@obligation('C05.K3.iterator_rooting', 'C05', programs=('vm',))
def k3_iterators(res, tier):
    """every `impl Enumerate` of the standard library: `next` run from MIR on an arbitrary iterator state with every call observed: an
    object it has just allocated is rooted, stored into something reachable or handed to the next allocation before any point that
    can collect (the callbacks of map / filter / reduce and the inner iterators' next among them), or never used after that point"""
    NW = NativeCastWorld()
    P = NW.P
    decided, outside = [], []
    res.bounds = {'loops': 'unrolled 4 times', 'paths per iterator': '<= 400'}
    res.assumptions = ['the iterator object and everything it references are reachable for the whole activation (it is the receiver on the fiber stack)',
                       'a newborn handed to a call on a reachable receiver is assumed stored there', 'callbacks and summarised calls that receive the hooks may collect']
    for rel, struct, f in _enumerate_impls(P):
        if f is None:
            outside.append(f'{struct}: next not located')
            continue
        W = NativeCastWorld()
        e = W.e

        def observer(norm, args, r, how, e=e):
            rt = e.path_state.get('rooting')
            if rt is not None:
                rt.observe(e, norm, args, r, how)
        e.call_observer = observer
        sds = [d for d in P.items.structs.get(struct, []) if d.file == rel]

        def path(e, f=f, struct=struct, sds=sds):
            W.W.fresh_state(e)
            e.path_state['casts'] = []
            me = Struct(struct, None, NameBacking('iterator_self')) if sds and sds[0].fields else Struct(struct, {}, None)
            rt = e.path_state['rooting'] = Rooting()
            r = e.call(f, [Ref(Cell(me)), Ref(Cell(Opaque('Hooks', 'hooks')))])
            rt.finish(e, r)
            e.check(True, f'{struct}: rooting automaton ran to the end of the activation')
            return {'iterator': struct, 'allocations': len(rt.newborn), 'collection_points': rt.collect_points,
                    'violations': [(x, at, use) for x, at, use in rt.violations[:3]]}
        try:
            results = e.explore(path)
        except Unsupported as ex:
            outside.append(f'{struct}: {str(ex)[:140]}')
            continue
        unsup = [r for r in results if r.kind in ('unsupported', 'budget')]
        seen = set()
        for r in results:
            res.checks += len(r.checks)
            for x, at, use in ((r.info or {}).get('violations', []) if isinstance(r.info, dict) else []):
                key = f'C05.K3:{struct}.next:unprotected at {at.split("::")[-1]}, used by {use.split("::")[-1]}'
                if key in seen:
                    continue
                seen.add(key)
                res.fail(key, f'{struct}::next: a newly allocated object is neither rooted nor stored at {at} (which can collect) and is used afterwards by {use}',
                         {'object': x, 'unprotected_at': at, 'used_by': use}, replay=REPLAYS.get(struct))
        res.absorb(e)
        res.paths += len(results)
        oks = [r for r in results if r.kind == 'ok']
        if oks:
            res.nontrivial += 1
            allocs = max((r.info or {}).get('allocations', 0) for r in oks if isinstance(r.info, dict))
            cps = max((r.info or {}).get('collection_points', 0) for r in oks if isinstance(r.info, dict))
            decided.append(f'{struct} ({allocs} allocations, {cps} collection points)' + (' (some paths not encoded)' if unsup else ''))
        elif unsup:
            outside.append(f'{struct}: {str(unsup[0].info)[:160]}')
    res.bounds['iterators decided'] = decided
    res.outside = (res.outside or []) + ['not encoded: ' + x for x in outside]
