"""C05.K3 — temporary-root discipline of the natives: an object a native has just allocated and holds only in a local must be
rooted (push_root), stored into something reachable, or handed to the allocation that follows, before anything that can collect
runs; otherwise a collection at that point frees it while the native still uses it.

The sweep is the one of C16.K4 (every native of the standard library executed from MIR on arguments constrained only by its
signature); here every call the native makes is observed and a little ownership automaton is run per path:

  newborn X        result of hooks.manage / manage_obj / manage_str in this activation
  rooted           push_root(X) until the matching pop_roots
  stored           X passed to a call whose receiver is an object that existed before the activation (arguments, receiver, and
                   whatever they reach are on the fiber stack) -> safe for good; receiver a newborn Y -> X shares Y's fate
  may-collect E    manage*, collect_garbage, a callback (hooks.call / call_method / get_method), or any summarised call that is
                   handed the hooks
  violation        X is neither rooted nor stored at E, and X is used after E (passed to any call, or returned)

The automaton errs on the side of silence (a store is assumed whenever X is handed to a call on a reachable receiver)."""
import os
import z3
from vfw.core import obligation
from mirsym.values import *
from mirsym.tys import *
from .vmabs import AbsObj, AbsArr, AbsGc
from .c16natives import NativeCastWorld, native_table, _call_fn, RECEIVER, _arg_shapes, SHARDS
from .c01 import VALUE

NO_COLLECT = {'push_root', 'pop_roots', 'as_gc', 'as_value', 'as_io', 'new', 'get_class', 'scan_roots', 'temp_roots', 'io', 'as_ref', 'deref', 'deref_mut',
              'from', 'into', 'clone', 'to_obj', 'to_num', 'to_bool', 'is_obj', 'is_num', 'kind', 'default'}
ALLOC = {'manage', 'manage_obj', 'manage_str'}
CALLBACK = {'call', 'call_method', 'get_method'}

# natives whose demonstration needs a particular program: struct -> replay
REPLAYS = {'IterReduce': dict(kind='lay', source="// Iter.reduce keeps only the INITIAL accumulator rooted; the value returned by\n// the callback lives in a Rust local while iter.next() runs user code that allocates.\nlet r = [1, 2, 3].iter().map(|x| 'a${x}').reduce('', |acc, x| acc + x + '-');\nprint(r);\n", gc_stress=True, expect_stdout='a1-a2-a3-\n', note='the accumulator returned by the callback is only held by the native while the next element is produced (collect-at-every-allocation build)')}


def _ids(e, v, out, depth=0):
    if depth > 5 or v is None:
        return out
    if isinstance(v, (AbsObj, AbsArr, AbsGc)):
        out.add(v.id.sexpr())
    elif isinstance(v, Ref):
        c = v.cell
        inner = getattr(c, 'v', None) if type(c) is Cell else None
        if inner is not None and type(inner) is not Lazy:
            _ids(e, inner, out, depth + 1)
    elif isinstance(v, Struct):
        for c in list(v.f.values()) if isinstance(v.f, dict) else list(v.f):
            inner = getattr(c, 'v', None) if type(c) is Cell else None
            if inner is not None and type(inner) is not Lazy:
                _ids(e, inner, out, depth + 1)
    elif isinstance(v, EnumV):
        for fields in (v.payload or {}).values():
            for c in fields.values():
                inner = getattr(c, 'v', None) if type(c) is Cell else None
                if inner is not None and type(inner) is not Lazy:
                    _ids(e, inner, out, depth + 1)
    elif isinstance(v, ConcSeq):
        for c in v.cells[:8]:
            inner = getattr(c, 'v', None) if type(c) is Cell else None
            if inner is not None and type(inner) is not Lazy:
                _ids(e, inner, out, depth + 1)
    return out


def _has_hooks(e, args):
    for a in args:
        v = a
        for _ in range(3):
            if isinstance(v, Ref) and type(v.cell) is Cell and type(v.cell.v) is not Lazy:
                v = v.cell.v
        if isinstance(v, Opaque) and str(getattr(v, 'ty', '')).split('::')[-1] in ('Hooks', 'GcHooks', 'ValueHooks'):
            return True
    return False


_PROTECTS = {}


def list_growth_protects(P):
    """decide on the real List::push / List::insert (MIR): whenever ensure_capacity is asked for more than the capacity (it allocates the
    bigger list then), the value being added has been handed to push_root and not released yet.  Returns (ok, detail)."""
    key = id(P)
    if key in _PROTECTS:
        return _PROTECTS[key]
    from mirsym.engine import Engine
    detail = {}
    ok_all = True
    for meth in ('push', 'insert'):
        f = P.lookup('List::' + meth)
        if f is None:
            ok_all, detail[meth] = False, 'not located'
            continue
        e = Engine(P, loop_bound=3, timeout_s=60)
        ll = P.enum_def('laythe_core::object::ListLocation') or P.enum_def('ListLocation')

        def m_state(e_, a, c, ll=ll):
            return EnumV(ll.name, ll.vindex['Here'], {'Here': {0: Cell(z3.BitVec('list_cap', 64))}}, None, ll)
        e.model(r'^(laythe_core::)?(object::)?(list::)?List::state$', m_state)
        e.model(r'^(laythe_core::)?(collections::)?(\w+::)*RawSharedVector::read_len$', lambda e_, a, c: z3.BitVec('list_len', 64))

        def m_root(e_, a, c):
            e_.path_state['roots'].append(a[1])
            return UNIT
        e.model(r'^(laythe_core::)?(hooks::)?GcHooks::push_root$', m_root)

        def m_unroot(e_, a, c):
            n = conc(z3.simplify(a[1])) if z3.is_bv(a[1]) else a[1]
            for _ in range(int(n or 0)):
                if e_.path_state['roots']:
                    e_.path_state['roots'].pop()
            return UNIT
        e.model(r'^(laythe_core::)?(hooks::)?GcHooks::pop_roots$', m_unroot)

        def m_ensure(e_, a, c):
            grows = e_.fork_bool(z3.UGT(a[1], a[2]))
            if grows:
                e_.path_state['growths'].append(len(e_.path_state['roots']))
            return a[0].cell.get(e_) if isinstance(a[0], Ref) else a[0]
        e.model(r'^(laythe_core::)?(object::)?(list::)?List::ensure_capacity$', m_ensure)
        e.allow_havoc(r'^(laythe_core::)?(collections::)?(\w+::)*RawSharedVector::\w+$', r'^(std::ptr::|core::ptr::)?(copy|write|read)$',
                      r'^(std|core)::ptr::(mut_ptr|const_ptr)::<impl \*(mut|const) .*>::\w+$', r'^(std::intrinsics::|core::intrinsics::)?copy$')

        def path(e, f=f, meth=meth):
            e.path_state['roots'] = []
            e.path_state['growths'] = []
            lst = Struct('List', None, NameBacking('the_list'))
            val = e.fresh(VALUE, 'added_value')
            ln, cap = z3.BitVec('list_len', 64), z3.BitVec('list_cap', 64)
            e.add_constraint(z3.And(z3.ULE(ln, cap), z3.ULT(cap, 1 << 40)))
            hooks = Ref(Cell(Opaque('GcHooks', 'hooks')))
            args = [Ref(Cell(lst)), val, hooks] if meth == 'push' else [Ref(Cell(lst)), z3.BitVec('at', 64), val, hooks]
            e.call(f, args)
            return {'growths': list(e.path_state['growths']), 'left': len(e.path_state['roots'])}
        try:
            results = e.explore(path)
        except Unsupported as ex:
            ok_all, detail[meth] = False, 'not encoded: ' + str(ex)[:120]
            continue
        grew = [r for r in results if r.kind == 'ok' and isinstance(r.info, dict) and r.info['growths']]
        bad = [r for r in results if r.kind not in ('ok', 'infeasible')]
        good = bool(grew) and not bad and all(all(g >= 1 for g in r.info['growths']) and r.info['left'] == 0 for r in grew)
        detail[meth] = {'paths': len(results), 'growing paths': len(grew), 'value rooted at the allocation and released afterwards': good,
                        'not encoded': [str(r.info)[:100] for r in bad][:2]}
        ok_all = ok_all and good
    _PROTECTS[key] = (ok_all, detail)
    return _PROTECTS[key]


class Rooting:
    """the per-path automaton"""

    def __init__(self):
        self.newborn = []        # ids in allocation order
        self.roots = []          # stack of id sets
        self.safe = set()
        self.owner = {}
        self.risk = {}           # id -> description of the collection point it was unprotected at
        self.violations = []
        self.collect_points = 0
        self.seen = set()        # every identity that appeared in an argument (exists independently of this allocation)
        self.pending = False     # the last allocation returned a handle without identity (raw vector): its wrapper is the newborn

    def is_safe(self, x, extra=()):
        seen = set()
        while x is not None and x not in seen:
            seen.add(x)
            if x in self.safe or x in extra or any(x in r for r in self.roots):
                return True
            x = self.owner.get(x)
        return False

    def observe(self, e, norm, args, r, how):
        if how == 'mir':
            return
        name = norm.split('::')[-1]
        nb = set(self.newborn)
        arg_ids = [_ids(e, a, set()) for a in args]
        all_ids = set().union(*arg_ids) if arg_ids else set()
        used = all_ids & nb
        # use of an object that was unprotected at an earlier collection point
        for x in used:
            if x in self.risk and name not in ('drop',):
                self.violations.append((x, self.risk[x], norm))
        if name == 'push_root':
            self.roots.append(set(all_ids))
            return
        if name == 'pop_roots':
            n = conc(z3.simplify(args[-1])) if not isinstance(args[-1], int) else args[-1]
            for _ in range(n if n is not None else len(self.roots)):
                if self.roots:
                    self.roots.pop()
            return
        res_ids = _ids(e, r, set()) if r is not None else set()
        born = None
        if name in ALLOC:
            born = [i for i in res_ids if i not in nb and i not in self.seen]
            self.pending = not born
        elif name in ('call', 'call_method'):
            # the value a callback returns: possibly an object only this native holds
            born = [i for i in res_ids if i not in nb and i not in self.seen]
        elif self.pending and name in ('new', 'from'):
            # List::new(raw) / Tuple::new(raw): the wrapper around the handle that was just allocated
            wrapped = [i for i in res_ids if i not in nb and i not in self.seen]
            if wrapped:
                self.newborn.extend(wrapped)
                self.pending = False
                self.seen |= all_ids
                return
        self.seen |= all_ids
        # a summarised call that is handed the hooks AND a newborn that nothing protects yet: the callee may allocate before it stores
        # the value (List::push grows the list first), so the value is at risk inside this very call
        protects = name in ('push', 'insert') and 'List' in norm and getattr(self, 'list_growth_protects', False)
        if name not in ALLOC and name not in CALLBACK and name not in NO_COLLECT and how in ('havoc', 'model', 'fallback') and _has_hooks(e, args) and not protects:
            for x in used:
                if not self.is_safe(x) and x not in self.risk:
                    self.violations.append((x, norm, norm + ' itself (it may allocate before it stores the value)'))
        # ownership
        if born:
            for x in used:
                self.owner.setdefault(x, born[0])
        elif len(args) > 1:
            recv = arg_ids[0]
            rest = set().union(*arg_ids[1:]) & nb
            if rest:
                if recv - nb:
                    self.safe |= rest            # stored into something that was reachable before the activation
                else:
                    ys = [y for y in recv if y in nb]
                    for x in rest:
                        if ys and x != ys[0]:
                            self.owner.setdefault(x, ys[0])
        # collection point
        may = name in ALLOC or name in CALLBACK or name == 'collect_garbage' or (name not in NO_COLLECT and how in ('havoc', 'model', 'fallback') and _has_hooks(e, args))
        if may:
            self.collect_points += 1
            for x in self.newborn:
                if x not in self.risk and not self.is_safe(x, extra=tuple(born or ())):
                    self.risk[x] = norm
        if born:
            self.newborn.extend(born)

    def finish(self, e, r):
        for x in _ids(e, r, set()) & set(self.newborn):
            if x in self.risk:
                self.violations.append((x, self.risk[x], 'return value'))


def _k3(res, tier, shard):
    NW = NativeCastWorld()
    P = NW.P
    table = native_table(P)
    extra = 1
    decided, outside = [], []
    res.bounds = {'variadic arguments': f'0..{extra}', 'paths per native': '<= 400', 'loops': 'unrolled 4 times'}
    res.assumptions = ['arguments and receiver are reachable from the fiber stack for the whole activation',
                       'a newborn handed to a call on a reachable receiver is assumed stored there (silence rather than alarm)',
                       'callbacks and summarised calls that receive the hooks may collect']
    only = os.environ.get('VERIF_NATIVE')
    # does the real List::push / insert protect the value it is handed while it allocates the bigger list?  (decided on their MIR)
    protects_fact = list_growth_protects(P)
    res.bounds['List::push / insert root the added value while they grow the list (decided on their MIR)'] = protects_fact[1]
    for n_ent, ent in enumerate(table):
        if n_ent % SHARDS != shard:
            continue
        if only and only not in ent['struct']:
            continue
        label = f"{ent['struct']}"
        if ent['meta'] is None:
            continue
        f = _call_fn(P, ent['file'], ent['struct'])
        if f is None:
            continue
        recv = None
        for k, v in RECEIVER.items():
            if ent['file'].endswith(k):
                recv = v
        meta = ent['meta']
        W = NativeCastWorld()
        e = W.e
        shapes = _arg_shapes(meta, extra)
        # what a callback hands back may be an object nobody else holds (a string it just built): the result is a newborn of this activation
        _vd = P.enum_def(VALUE)
        _RES = P.enum_def('Result')
        _le = P.enum_def('laythe_core::LyError') or P.enum_def('LyError')

        def callback_result(e_, a, c, _vd=_vd, _RES=_RES, _le=_le):
            k = len(e_.path_state['events'])
            e_.path_state['events'].append(('hook',))
            if e_.fork_bool(z3.Bool(f'hook_raises_{k}')):
                er = EnumV('LyError', _le.vindex['Err'], {'Err': {0: Cell(Opaque('Instance', 'error'))}}, None, _le)
                return EnumV('Result<Value, LyError>', 1, {'Err': {0: Cell(er)}}, None, _RES)
            if 'Obj' in _vd.vindex and e_.fork_bool(z3.Bool(f'callback_returns_a_fresh_object_{k}')):
                oid = z3.BitVec(e_.fresh_name('callback_object'), 64)
                v = EnumV(VALUE, _vd.vindex['Obj'], {'Obj': {0: Cell(AbsObj(oid, 'ObjectRef'))}}, None, _vd)
            else:
                v = e_.fresh(VALUE, e_.fresh_name('hook_value'))
            return EnumV('Result<Value, LyError>', 0, {'Ok': {0: Cell(v)}}, None, _RES)
        e.model(r'^(laythe_core::)?(hooks::)?(Hooks|ValueHooks)::(call|call_method)$', callback_result)

        def observer(norm, args, r, how, e=e):
            rt = e.path_state.get('rooting')
            if rt is not None:
                rt.observe(e, norm, args, r, how)
        e.call_observer = observer

        def path(e, meta=meta, recv=recv, shapes=shapes, ent=ent, f=f):
            W.W.fresh_state(e)
            e.path_state['casts'] = []
            if len(shapes) > 1:
                sv = z3.BitVec('shape', 64)
                e.add_constraint(z3.ULT(sv, len(shapes)))
                si = e.concretize(sv, list(range(len(shapes))))
            else:
                si = 0
            kinds = list(shapes[si])
            vals = []
            if meta['is_method']:
                v = e.fresh(VALUE, 'receiver')
                W.constrain(e, v, recv or 'Object')
                vals.append(v)
            for j, k in enumerate(kinds):
                v = e.fresh(VALUE, f'arg{j}')
                W.constrain(e, v, k)
                vals.append(v)
            args = ConcSeq('Value', [Cell(v) for v in vals])
            sd = P.items.structs.get(ent['struct'], [])
            sd = [d for d in sd if d.file == ent['file']]
            me = Struct(ent['struct'], None, NameBacking('native_self')) if sd and sd[0].fields else Struct(ent['struct'], {}, None)
            rt = e.path_state['rooting'] = Rooting()
            rt.list_growth_protects = protects_fact[0]
            r = e.call(f, [Ref(Cell(me)), Ref(Cell(Opaque('Hooks', 'hooks'))), SliceRef(args, bv(0, 64), bv(len(vals), 64))])
            rt.finish(e, r)
            e.check(True, f'{ent["struct"]}: rooting automaton ran to the end of the activation')
            return {'native': ent['struct'], 'allocations': len(rt.newborn), 'collection_points': rt.collect_points,
                    'violations': [(x, at, use) for x, at, use in rt.violations[:3]]}
        try:
            results = e.explore(path)
        except Unsupported as ex:
            outside.append(f'{label}: {str(ex)[:140]}')
            continue
        # paths that end in an error (Call::Err, panics decided by C16.K4) still ran the automaton up to that point via their checks
        unsup = [r for r in results if r.kind in ('unsupported', 'budget')]
        seen = set()
        for r in results:
            res.checks += len(r.checks)
            for x, at, use in ((r.info or {}).get('violations', []) if isinstance(r.info, dict) else []):
                key = f'C05.K3:{label}:unprotected at {at.split("::")[-1]}, used by {use.split("::")[-1]}'
                if key in seen:
                    continue
                seen.add(key)
                res.fail(key, f'{label}: a newly allocated object is neither rooted nor stored at {at} (which can collect) and is used afterwards by {use}',
                         {'object': x, 'unprotected_at': at, 'used_by': use}, replay=REPLAYS.get(label))
        res.absorb(e)
        res.paths += len(results)
        oks = [r for r in results if r.kind == 'ok']
        if oks:
            res.nontrivial += 1
        if unsup and not oks:
            outside.append(f'{label}: {str(unsup[0].info)[:140]}')
        elif oks:
            allocs = max((r.info or {}).get('allocations', 0) for r in oks if isinstance(r.info, dict))
            decided.append(f'{label} ({allocs} allocations)' + (' (some paths not encoded)' if unsup else ''))
    res.bounds['natives decided'] = len(decided)
    res.bounds['natives'] = decided
    res.outside = (res.outside or []) + ['not encoded: ' + x for x in outside]


for _sh in range(SHARDS):
    def _mk(sh=_sh):
        @obligation(f'C05.K3.native_rooting.{sh}', 'C05', programs=('vm',))
        def ob(res, tier):
            _k3(res, tier, sh)
        ob.__doc__ = ("""every native of the standard library (shard %d of %d), run from MIR with every call observed: an object the native has just
        allocated is rooted, stored into something reachable or handed to the next allocation before any point that can collect, or it
        is never used after that point""" % (sh, SHARDS))
        from vfw.core import REGISTRY
        for o in REGISTRY.get('C05', []):
            if o.id == f'C05.K3.native_rooting.{sh}':
                o.doc = ob.__doc__
    _mk()


def _enumerate_impls(P):
    import re
    out = []
    for rel, src in sorted(P.items.files.items()):
        if not rel.startswith('laythe_lib/src/'):
            continue
        body = src.split('#[cfg(test)]')[0]
        for m in re.finditer(r'^impl Enumerate for (\w+)\b', body, re.M):
            line = body.count('\n', 0, m.start()) + 1
            c = [f for f in P.fns if f.name.endswith('::next') and f'<impl at {rel}:{line}:' in f.name]
            out.append((rel, m.group(1), c[0] if len(c) == 1 else None))
    return out


@obligation('C05.K3.iterator_rooting', 'C05', programs=('vm',))
def k3_iterators(res, tier):
    """every `impl Enumerate` of the standard library: `next` run from MIR on an arbitrary iterator state with every call observed: an
    object it has just allocated is rooted, stored into something reachable or handed to the next allocation before any point that
    can collect (the callbacks of map / filter / reduce and the inner iterators' next among them), or never used after that point"""
    NW = NativeCastWorld()
    P = NW.P
    decided, outside = [], []
    res.bounds = {'loops': 'unrolled 4 times', 'paths per iterator': '<= 400'}
    res.assumptions = ['the iterator object and everything it references are reachable for the whole activation (it is the receiver on the fiber stack)',
                       'a newborn handed to a call on a reachable receiver is assumed stored there', 'callbacks and summarised calls that receive the hooks may collect']
    for rel, struct, f in _enumerate_impls(P):
        if f is None:
            outside.append(f'{struct}: next not located')
            continue
        W = NativeCastWorld()
        e = W.e

        def observer(norm, args, r, how, e=e):
            rt = e.path_state.get('rooting')
            if rt is not None:
                rt.observe(e, norm, args, r, how)
        e.call_observer = observer
        sds = [d for d in P.items.structs.get(struct, []) if d.file == rel]

        def path(e, f=f, struct=struct, sds=sds):
            W.W.fresh_state(e)
            e.path_state['casts'] = []
            me = Struct(struct, None, NameBacking('iterator_self')) if sds and sds[0].fields else Struct(struct, {}, None)
            rt = e.path_state['rooting'] = Rooting()
            rt.list_growth_protects = list_growth_protects(P)[0]
            r = e.call(f, [Ref(Cell(me)), Ref(Cell(Opaque('Hooks', 'hooks')))])
            rt.finish(e, r)
            e.check(True, f'{struct}: rooting automaton ran to the end of the activation')
            return {'iterator': struct, 'allocations': len(rt.newborn), 'collection_points': rt.collect_points,
                    'violations': [(x, at, use) for x, at, use in rt.violations[:3]]}
        try:
            results = e.explore(path)
        except Unsupported as ex:
            outside.append(f'{struct}: {str(ex)[:140]}')
            continue
        unsup = [r for r in results if r.kind in ('unsupported', 'budget')]
        seen = set()
        for r in results:
            res.checks += len(r.checks)
            for x, at, use in ((r.info or {}).get('violations', []) if isinstance(r.info, dict) else []):
                key = f'C05.K3:{struct}.next:unprotected at {at.split("::")[-1]}, used by {use.split("::")[-1]}'
                if key in seen:
                    continue
                seen.add(key)
                res.fail(key, f'{struct}::next: a newly allocated object is neither rooted nor stored at {at} (which can collect) and is used afterwards by {use}',
                         {'object': x, 'unprotected_at': at, 'used_by': use}, replay=REPLAYS.get(struct))
        res.absorb(e)
        res.paths += len(results)
        oks = [r for r in results if r.kind == 'ok']
        if oks:
            res.nontrivial += 1
            allocs = max((r.info or {}).get('allocations', 0) for r in oks if isinstance(r.info, dict))
            cps = max((r.info or {}).get('collection_points', 0) for r in oks if isinstance(r.info, dict))
            decided.append(f'{struct} ({allocs} allocations, {cps} collection points)' + (' (some paths not encoded)' if unsup else ''))
        elif unsup:
            outside.append(f'{struct}: {str(unsup[0].info)[:160]}')
    res.bounds['iterators decided'] = decided
    res.outside = (res.outside or []) + ['not encoded: ' + x for x in outside]


# ---------------------------------------------------------------------------------------------- the Vm's own error constructor
F69_REPLAY = dict(kind='lay', source='nil.foo = "value";\n', gc_stress=True, bad_re=r'Internal Error|panicked', bad_exit=[101, 134, -6],
                  note='the fiber stack is exactly full when the error is raised: ensure_stack allocates, the message string is not rooted (collect-at-every-allocation build)')


@obligation('C05.K3.runtime_error_message_rooted', 'C05', programs=('vm',), also=('C16',))
def k3_runtime_error(res, tier):
    """Vm::runtime_error from MIR up to the call of the error class: the message string it creates is rooted (or already on the
    fiber's stack) at every point that can allocate before it is pushed — ensure_stack grows the stack by allocating when the stack is
    full, for every error the Vm raises"""
    from mirsym.engine import Engine
    from .vmabs import VmWorld
    P = NativeCastWorld().P if False else __import__('vfw.core', fromlist=['get_program']).get_program('vm')
    e = Engine(P, loop_bound=4, timeout_s=120, max_depth=50)
    W = VmWorld(e, P)
    W.havoc_objects(e)
    f = P.lookup('vm::Vm::runtime_error')
    res.bounds = {'stack': 'any fill level', 'error class': 'any'}
    res.assumptions = ['Fiber::ensure_stack may allocate (it grows the stack when it is full) and an allocation may collect']
    e.models = [m_ for m_ in e.models if not any(x in m_[2] for x in ('push_root', 'pop_roots', 'manage_str', 'ensure_stack'))]
    e.havoc = [rx for rx in e.havoc if not any(x in rx.pattern for x in ('push_root', 'pop_roots', 'manage_str', 'ensure_stack'))]

    def ev(e_):
        return e_.path_state.setdefault('trail', [])

    def m_manage_str(e_, a, c):
        o = AbsObj(z3.BitVec(e_.fresh_name('message'), 64), 'LyStr')
        ev(e_).append(('newborn', o.id.sexpr()))
        return o
    e.model(r'^(vm::)?Vm::manage_str$', m_manage_str)
    e.model(r'^<(vm::)?Vm as (laythe_core::)?(\w+::)*GcContext>::manage_str$', m_manage_str)

    def m_push_root(e_, a, c):
        ev(e_).append(('root', _ids(e_, a[1], set())))
        return UNIT
    e.model(r'^(vm::)?Vm::push_root$', m_push_root)

    def m_pop_roots(e_, a, c):
        ev(e_).append(('unroot', conc(z3.simplify(a[1])) if z3.is_bv(a[1]) else a[1]))
        return UNIT
    e.model(r'^(vm::)?Vm::pop_roots$', m_pop_roots)

    def m_ensure(e_, a, c):
        ev(e_).append(('may_collect', 'ensure_stack'))
        return UNIT
    e.model(r'^(fiber::)?Fiber::ensure_stack$', m_ensure)

    def m_push(e_, a, c):
        ev(e_).append(('stacked', _ids(e_, a[1], set())))
        return UNIT
    e.model(r'^(fiber::)?Fiber::push$', m_push)

    def m_resolve(e_, a, c):
        raise PathEnd('stop', 'resolve_call')
    e.model(r'^(vm::)?Vm::resolve_call$', m_resolve)

    def path(e):
        st = W.fresh_state(e, room=0)
        cls = AbsObj(z3.BitVec('error_class', 64), 'ObjRef<Class>')
        msg = AbsObj(z3.BitVec('message_arg', 64), 'LyStr')
        try:
            e.call(f, [Ref(st.vm_cell), cls, msg])
        except PathEnd as pe:
            if pe.kind != 'stop':
                raise
        trail = ev(e)
        born = [x[1] for x in trail if x[0] == 'newborn']
        roots, safe, bad = [], set(), []
        for t in trail:
            if t[0] == 'root':
                roots.append(t[1])
            elif t[0] == 'unroot':
                for _ in range(int(t[1] or 0)):
                    if roots:
                        roots.pop()
            elif t[0] == 'stacked':
                safe |= t[1]
            elif t[0] == 'may_collect':
                for b in born:
                    if b not in safe and not any(b in r for r in roots):
                        bad.append((b, t[1]))
        e.check(bool(born), 'runtime_error creates its message')
        e.check(not bad, 'runtime_error: the message string is rooted or on the stack whenever the stack may grow (allocate)', {'unprotected at': [x[1] for x in bad]})
        return {'fn': 'runtime_error', 'events': [t[0] for t in trail]}
    results = e.explore(path)
    for r in results:
        for lab, ok, info in list(r.checks):
            if not ok and 'rooted or on the stack' in lab:
                res.fail('C05.K3:runtime_error leaves its message unrooted while the stack grows',
                         'Vm::runtime_error creates the message string and then calls ensure_stack, which allocates when the stack is full, before the string is reachable from '
                         'anywhere: a collection at that point frees it (every error the Vm raises)', info, replay=F69_REPLAY)
                r.checks.remove((lab, ok, info))
        if r.kind in ('oob', 'unreachable', 'ub', 'diverge', 'depth', 'panic'):
            res.fail(f'C05.K3:runtime_error:{r.kind}', f'runtime_error: path ends in {r.kind}: {str(r.info)[:200]}', {'path': str(r.info)})
    from vfw.core import summarize_paths
    summarize_paths(res, e, results, lambda r: r.info if isinstance(r.info, dict) else None, key_prefix='C05.K3:runtime_error:', unwind_ok=False)
