"""C15 — the front end is total.  Kernels for the size limits of the lowering and of the assembler glue: whatever the counts (source
lines, jump labels, captures), the front end answers with a diagnostic and never with a panic."""
import re
import z3
from vfw.core import obligation, get_program, summarize_paths
from mirsym.engine import Engine
from mirsym.values import *
from mirsym.tys import *
from .compabs import CompilerWorld

F13_NOTE = 'a source with 65536 or more lines: `line as u16 + 1` overflows in emit_byte (debug panic, wrapped line numbers in release)'


def _many_lines():
    # the statement sits on 0-based line 65535: `65535 as u16 + 1` is the overflowing case
    return 'let x = 1;\n' + '\n' * 65534 + 'print(x);\n'


def _many_labels():
    return 'let x = 1;\n' + ' '.join(['if x == 2 { x = 3; }'] * 70000) + '\nprint(x);\n'


def _finish(res, e, results, prefix, replay=None):
    for r in results:
        if r.kind in ('oob', 'unreachable', 'ub', 'diverge', 'depth', 'panic'):
            res.fail(f'{prefix}{r.kind}', f'path ends in {r.kind}: {str(r.info)[:300]}', {'path': str(r.info)}, replay=replay)
    summarize_paths(res, e, results, lambda r: r.info if isinstance(r.info, dict) else None, key_prefix=prefix, unwind_ok=False)


@obligation('C15.K1.emit_byte_lines', 'C15', programs=('vm-dbg',), also=('C18',))
def k1_emit_byte(res, tier):
    """Compiler::emit_byte for an instruction on any source line (any usize the line table can answer): it records a line number for
    the instruction and does not panic, however long the file is"""
    P = get_program('vm-dbg')
    e = Engine(P, loop_bound=4, timeout_s=120, max_depth=30)
    CW = CompilerWorld(e, P)
    # the real emit_byte is the subject here (CompilerWorld records emissions instead of executing it)
    e.models = [mdl for mdl in e.models if 'emit_byte' not in mdl[2]]
    RES = P.enum_def('Result')
    res.bounds = {'source line of the instruction': 'any usize', 'build': 'debug assertions and overflow checks on (the release build wraps instead of panicking)'}

    def m_offset_line(e_, a, c):
        return EnumV('Result<usize, LineError>', 0, {'Ok': {0: Cell(z3.BitVec('line', 64))}}, None, RES)
    e.model(r'^(source::)?(files::)?LineOffsets::offset_line$', m_offset_line)

    def m_write(e_, a, c):
        e_.path_state['written'] = a[2]
        return UNIT
    e.model(r'^(compiler::)?Compiler::write_instruction$', m_write)
    f = P.lookup('compiler::Compiler::emit_byte')

    def path(e):
        c = CW.fresh_compiler(e, 'c')
        ins = e.fresh('byte_code::SymbolicByteCode', 'ins')
        e.call(f, [Ref(Cell(c)), ins, z3.BitVec('offset', 32)])
        w = e.path_state.get('written')
        e.check(w is not None, 'emit_byte: the instruction is written with a line number')
        if w is not None:
            line = z3.BitVec('line', 64)
            e.check(z3.Implies(z3.ULT(line, 65535), z3.ZeroExt(48, w) == line + 1), 'emit_byte: lines that fit the table are recorded exactly (1-based)')
        return {'fn': 'emit_byte'}
    _finish(res, e, e.explore(path), 'C15.K1:emit_byte:', replay=dict(kind='lay', source=_many_lines(), expect_stdout='1\n', note=F13_NOTE))


@obligation('C15.K1.assembler_limits', 'C15', programs=('vm-dbg',))
def k1_peephole_compile(res, tier):
    """peephole_compile (optimise, stack analysis, label resolution, encoding, packaging) with every stage summarised by an arbitrary
    result and any number of jump labels: it returns a function or diagnostics and has no panicking path of its own"""
    P = get_program('vm-dbg')
    e = Engine(P, loop_bound=4, timeout_s=120, max_depth=30)
    from .vmabs import VmWorld
    VmWorld(e, P)
    RES = P.enum_def('Result')
    res.bounds = {'jump labels in the function': 'any usize', 'instruction count': 'any'}
    res.assumptions = ['peephole_optimize (C12), apply_stack_effects (C04/C06), the encoder (C06) are summarised by arbitrary results; '
                       'the encoder yields one line entry per code byte (C06.K1)']
    nl = z3.BitVec('label_count', 64)
    e.model(r'^(compiler::)?(peephole::)?label_count$', lambda e_, a, c: nl)
    def seq(e_, ty, name):
        n = z3.BitVec(name + '_len', 64)
        e_.add_constraint(z3.ULT(n, 1 << 40))
        return e_.fresh_seq(ty, NameBacking(name), n)
    e.model(r'^(\w+::)*ChunkBuilder::take$', lambda e_, a, c: Struct('()', {0: Cell(seq(e_, 'byte_code::SymbolicByteCode', 'ins')), 1: Cell(seq(e_, 'laythe_core::value::Value', 'consts')), 2: Cell(seq(e_, 'u16', 'lines'))}, None))
    e.model(r'^(compiler::)?(peephole::)?peephole_optimize$', lambda e_, a, c: Struct('()', {0: Cell(seq(e_, 'byte_code::SymbolicByteCode', 'ins2')), 1: Cell(seq(e_, 'u16', 'lines2'))}, None))
    e.model(r'^(compiler::)?(peephole::)?(apply_stack_effects|compute_label_offsets)$', lambda e_, a, c: UNIT)

    def m_encode(e_, a, c):
        if e_.fork_bool(z3.Bool('encode_ok')):
            sd = P.struct_def('byte_code::EncodedChunk')
            ch = Struct('byte_code::EncodedChunk', {}, None)
            n = z3.BitVec('code_len', 64)
            for i, (nm, ty) in enumerate(sd.fields):
                ch.f[i] = Cell(e_.fresh_seq(ty_args(norm_ty(ty))[-1], NameBacking('encoded_' + nm), n))
            return EnumV('Result', 0, {'Ok': {0: Cell(ch)}}, None, RES)
        return EnumV('Result', 1, {'Err': {0: Cell(Opaque('Vec<Diagnostic>', 'errors'))}}, None, RES)
    e.model(r'^(byte_code::)?ByteCodeEncoder::encode$', m_encode)
    e.allow_havoc(r'^(byte_code::)?ByteCodeEncoder::new$', r'^bumpalo::', r'^(laythe_core::)?(hooks::)?GcHooks::\w+$', r'^(laythe_core::)?(\w+::)*(FunBuilder|Chunk)::\w+$',
                  r'^<.* as (std::ops::|core::ops::)?(Deref|DerefMut|Index|IndexMut)(<.*>)?>::\w+$', r'^(std::vec::|alloc::vec::)?Vec::len$',
                  r'^<.* as (std::ops::|core::ops::)?Try>::branch$', r'^(laythe_core::)?(\w+::)*Array::len$', r'^(std|core)::fmt::', r'Arguments::', r'^(codespan_reporting::)?(diagnostic::)?Diagnostic::\w+$')
    # lines.len() == instructions.len(): one line per code byte is established by C06.K1
    e.model(r'^(laythe_core::)?(collections::)?(array::)?Array::len$', lambda e_, a, c: z3.BitVec('packed_len', 64))
    # `bumpalo::vec![in alloc; 0; label_count]` is a loop that only fills the offsets vector with zeros: summarised (its content is
    # overwritten by compute_label_offsets, which is summarised too)
    e.model(r'^<(std::ops::|core::ops::)?Range as (std::iter::|core::iter::)?Iterator>::next$',
            lambda e_, a, c: EnumV('Option<usize>', 0, None, None, P.enum_def('Option')))
    def m_offsets_slice(e_, a, c):
        return SliceRef(e_.fresh_seq('usize', NameBacking(e_.fresh_name('label_offsets')), nl), bv(0, 64), nl)
    e.model(r'^<bumpalo::collections::Vec as (std::ops::|core::ops::)?Index(Mut)?>::index(_mut)?$', m_offsets_slice)
    f = P.lookup('peephole_compile')

    def path(e):
        e.path_state['events'] = []
        e.path_state['allocs'] = 0
        r = e.call(f, [Ref(Cell(Opaque('GcHooks', 'hooks'))), Opaque('FunBuilder', 'fun'), Opaque('ChunkBuilder', 'chunk'),
                       Ref(Cell(Opaque('Bump', 'alloc'))), Opaque('Rc<RefCell<CacheIdEmitter>>', 'ids')])
        e.check(isinstance(r, EnumV), 'peephole_compile: answers with a function or with diagnostics')
        return {'ok': isinstance(r, EnumV) and r.tag == 0}
    _finish(res, e, e.explore(path), 'C15.K1:peephole_compile:', replay=dict(kind='lay', source=_many_labels(),
            bad_re=r'not yet implemented|panicked', note='more than 65535 jump labels in one function'))


# ---------------------------------------------------------------------------------------------- K3 break / continue belong to a loop of the SAME function
F51_SRC = 'let i = 0;\nwhile i < 2 {\n  let f = || { break; };\n  i = i + 1;\n}\nprint(i);\n'
F51_REPLAY = dict(kind='lay', source=F51_SRC, bad_exit=[101, 134, -6], bad_re='panicked')


@obligation('C15.K3.function_bodies_start_outside_loops', 'C15', programs=('vm',), also=('C16',))
def k3_loop_depth(res, tier):
    """Parser::function and Parser::lambda: the body of a nested function is parsed with the loop depth reset to 0 (a `break` /
    `continue` in it is rejected by the parser unless the body has a loop of its own: the compiler of the nested function has no
    loop to jump to and relies on this - Compiler::break_ / continue_ `expect` it) and the depth of the enclosing function is
    restored afterwards"""
    from mirsym.engine import Engine
    P = get_program('vm')
    res.bounds = {'enclosing loop depth': 'any u16', 'body': 'opaque (any parse result)'}
    PARSER = 'compiler::parser::Parser'
    sd = P.struct_def(PARSER)
    if sd is None:
        res.inconclusive('Parser struct not found')
        return
    ix = {n: i for i, (n, _) in enumerate(sd.fields)}
    for fname in ('function', 'lambda'):
        e = Engine(P, loop_bound=4, timeout_s=120, max_depth=40, max_paths=400)
        f = P.lookup('compiler::parser::Parser::' + fname)

        def m_body(e_, a, c):
            p = a[0]
            while isinstance(p, Ref):
                p = p.cell.get(e_)
            e_.path_state.setdefault('depth_at_body', []).append(p.field(e_, ix['loop_depth'], 'u16').get(e_))
            return e_.fresh(norm_ty(c.dest_ty), e_.fresh_name('body'))
        e.model(r'^(compiler::)?(parser::)?Parser::(fun_body|block)$', m_body)
        e.allow_havoc(r'^(compiler::)?(parser::)?Parser::(call_signature|call_params|vec|table|node|atom_expr|consume|consume_basic|match_kind|check|error|error_at|error_current|advance|type_params|begin_scope|end_scope|declare_variable|define_variable|scope|push_table|pop_table)$',
                      r'^<.* as (std::clone::|core::clone::)?Clone>::clone$', r'^(compiler::ir::)?(ast::)?\w+::new$', r'^(compiler::ir::)?(token::)?Token::\w+$', r'^(std::mem::|core::mem::)?replace$',
                      r'^(std::result::|core::result::)?Result::(map|map_err|and_then|or_else)$', r'^(std|alloc|core)::fmt::', r'Arguments::', r'^format$', r'^must_use$', r'^<(std::string::|alloc::string::)?String as .*>::\w+$', r'^(std::string::|alloc::string::)?String::\w+$',
                      r'^(std::option::|core::option::)?Option::(map|and_then|take|replace|unwrap_or|unwrap_or_else|cloned)$')

        def path(e, f=f, fname=fname):
            p = e.fresh(PARSER, 'parser')
            d0 = p.field(e, ix['loop_depth'], 'u16').get(e)
            args = [Ref(Cell(p))]
            for (an, aty) in f.args[1:]:
                args.append(e.fresh(aty, 'arg_' + an))
            e.call(f, args)
            seen = e.path_state.get('depth_at_body', [])
            for d in seen:
                e.check(d == 0, f'Parser::{fname}: the body of the nested function is parsed with loop depth 0', {'enclosing_depth': str(d0)})
            d1 = p.field(e, ix['loop_depth'], 'u16').get(e)
            if seen:
                e.check(d1 == d0, f'Parser::{fname}: the loop depth of the enclosing function is restored once the body was parsed')
            return {'fn': fname, 'bodies': len(seen)}
        results = e.explore(path)
        for r in results:
            for lab, ok, info in list(r.checks):
                if not ok and 'parsed with loop depth 0' in lab:
                    res.fail(f'C15.K3:{fname}: the body of a nested function inherits the enclosing loop depth',
                             f'Parser::{fname} does not reset loop_depth: `break` / `continue` inside the nested function is accepted when the function sits in a loop, and the '
                             'compiler of the nested function panics (expect: "Parser should have caught the loop constraint")', info, replay=F51_REPLAY)
                    r.checks.remove((lab, ok, info))
        summarize_paths(res, e, results, lambda r: r.info if isinstance(r.info, dict) else None, key_prefix=f'C15.K3:{fname}:', unwind_ok=True)
        if not any(isinstance(r.info, dict) and r.info.get('bodies') for r in results if r.kind == 'ok'):
            res.inconclusive(f'vacuous: Parser::{fname} never reached fun_body')


# ---------------------------------------------------------------------------------------------- K1 the optimiser's run counters
F54_SRC = 'fn f() { let z = 7; if true {\n' + ''.join(f'let a{i} = {i};\n' for i in range(256)) + 'a0; } return z; }\nprint(f());\n'
F54_REPLAY = dict(kind='lay', source=F54_SRC, bad_re='panicked', bad_exit=[101, 134, -6])


@obligation('C15.K1.drop_run_counter', 'C15', programs=('vm',), also=('C12',))
def k1_drop_counter(res, tier):
    """peephole::drop, one iteration of its run loop from ANY counter value: merging one more Drop into the run never overflows the
    counter (the optimiser also runs on the instructions of a function that already has diagnostics, e.g. one with too many locals,
    whose scope exits emit more consecutive drops than a valid function can)"""
    from mirsym.engine import Engine
    from mirsym.mir import parsed_block
    P = get_program('vm')
    f = P.lookup('compiler::peephole::drop')
    if f is None:
        res.inconclusive('peephole::drop not located')
        return
    res.bounds = {'drops merged so far': 'any u8', 'next instruction': 'a Drop'}
    heads = [bb for bb in f.blocks if (lambda t: t[0] == 'call' and 'peek_next' in t[2])(parsed_block(f, bb)[1])]
    if len(heads) != 1:
        res.inconclusive('peephole::drop: loop head not found')
        return
    head = heads[0]
    cnt = f.debug.get('drop_count')
    # the loop condition may start with a test of the counter itself (a limit): then the iteration starts at that test
    for bb in f.blocks:
        stmts, term, _ = parsed_block(f, bb)
        txt = repr(stmts) + repr(term)
        if cnt and ("'" + cnt + "'") in txt and ('Lt' in txt or 'Ne' in txt or 'Le' in txt) and term[0] == 'switch' and bb != head:
            preds_to_head = head in repr(term) or True
            head = bb
            break
    e = Engine(P, loop_bound=3, timeout_s=60)
    INS = 'byte_code::SymbolicByteCode'
    ed = P.enum_def(INS)
    opt = P.enum_def('Option')
    e.model(r'^(compiler::)?(peephole::)?VecCursor::peek_next$', lambda e_, a, c: EnumV(norm_ty(c.dest_ty), 1, {'Some': {0: Cell(EnumV(INS, ed.vindex['Drop'], None, None, ed))}}, None, opt))
    e.allow_havoc(r'^(compiler::)?(peephole::)?VecCursor::(inc_reader|write|copy_cursors|read|peek)$')

    def path(e):
        k = z3.BitVec('drops_so_far', 8)
        e.add_constraint(z3.UGE(k, 1))

        def stop(eng, fr):
            if fr.visits[head] >= 2:
                raise PathEnd('stop', fr)
        e.bb_hooks[(f.key, head)] = stop
        ins = Ref(Cell(Opaque('VecCursor<SymbolicByteCode>', 'instructions')))
        lines = Ref(Cell(Opaque('VecCursor<u16>', 'lines')))
        preset = {cnt: k, f.args[0][0]: ins, f.args[1][0]: lines}
        try:
            e.exec_fn(f, [ins, lines], 0, None, start_bb=head, preset=preset)
        except PathEnd as pe:
            if pe.kind != 'stop':
                raise
        e.check(True, 'one more Drop merged into the run')
        return {'merged': 'one more'}
    results = e.explore(path)
    for r in results:
        if r.kind == 'panic' and 'overflow' in str(r.info):
            res.fail('C15.K1:the drop run counter overflows', 'peephole::drop counts a run of Drop instructions in a u8 without a limit: 256 consecutive drops (a function with too many '
                     'locals, already diagnosed) end the compiler in a host panic instead of the diagnostics', {'path': str(r.info)}, replay=F54_REPLAY)
        elif r.kind in ('oob', 'unreachable', 'ub', 'diverge', 'depth', 'panic'):
            res.fail(f'C15.K1:drop:{r.kind}', f'peephole::drop: path ends in {r.kind}: {str(r.info)[:200]}', {'path': str(r.info)})
    summarize_paths(res, e, results, lambda r: r.info if isinstance(r.info, dict) else None, key_prefix='C15.K1:drop:', unwind_ok=True, ok_kinds=('ok', 'panic', 'stop'))


# ---------------------------------------------------------------------------------------------- K4 the parser's loop counter is balanced
F62_SRC = 'while true { fn f(1) {} }\n'
F62_REPLAY = dict(kind='lay', source=F62_SRC, bad_exit=[101, 134, -6], bad_re=r'panicked at',
                  note='the parameter list of a function inside a loop does not parse: the loop counter is left at 0 and the enclosing loop decrements it')


@obligation('C15.K4.parser_loop_depth_balanced', 'C15', programs=('vm',), also=('C16',))
def k4_loop_depth_balanced(res, tier):
    """Parser::function and Parser::lambda from MIR with every sub-parser summarised by an arbitrary answer (a node or a diagnostic)
    that leaves the loop counter as it found it (induction hypothesis): on EVERY path, the ones that end in a diagnostic included,
    the counter has its entry value again when the function returns — so the `-= 1` of the enclosing loop never underflows and
    `break` / `continue` are judged against the right depth after a syntax error"""
    P = get_program('vm')
    res.bounds = {'loop depth at entry': 'any u16', 'sub-parsers': 'arbitrary Ok / Err answers'}
    res.assumptions = ['induction hypothesis: every sub-parser called returns with the loop counter it was entered with (this obligation for function / lambda; '
                       'loop_ restores it by construction: += 1, callback, -= 1)']
    psd = P.struct_def('compiler::parser::Parser')
    if psd is None:
        res.inconclusive('Parser definition not located')
        return
    li = psd.index_of('loop_depth')
    for fname in ('function', 'lambda'):
        f = P.lookup('compiler::parser::Parser::' + fname)
        if f is None:
            res.inconclusive(f'Parser::{fname} not located')
            continue
        e = Engine(P, loop_bound=4, timeout_s=120, max_depth=40)
        e.allow_havoc(r'^(compiler::)?(parser::)?Parser::(?!' + fname + r'$)\w+$', r'^(compiler::)?(ir::)?(ast::)?\w+::new$', r'^<.* as (std::clone::|core::clone::)?Clone>::clone$',
                      r'^(std|alloc|core)::fmt::', r'^format$', r'^must_use$', r'Arguments::', r'^(compiler::)?(ir::)?(token::)?Token::\w+$',
                      r'^<(std::string::|alloc::string::)?String as .*>::\w+$', r'^(std::string::|alloc::string::)?String::\w+$',
                      r'^(std::result::|core::result::)?Result::map$', r'^<.* as (std::ops::|core::ops::)?(Try|FromResidual).*>::\w+$')

        # Result::map with the node-building closure: the answer keeps Ok / Err
        def m_map(e_, a, c):
            r = a[0]
            oty = norm_ty(c.dest_ty)
            out = e_.fresh(oty, e_.fresh_name('mapped'))
            if isinstance(r, EnumV) and isinstance(out, EnumV):
                e_.add_constraint((out.tag if not isinstance(out.tag, int) else bv(out.tag, 64)) == (r.tag if not isinstance(r.tag, int) else bv(r.tag, 64)))
            return out
        e.model(r'^(std::result::|core::result::)?Result::map$', m_map)

        def path(e, f=f, fname=fname):
            parser = e.fresh('compiler::parser::Parser', 'parser')
            d0 = parser.field(e, li, 'u16').get(e)
            args = [Ref(Cell(parser))]
            for i, (an, aty) in enumerate(f.args[1:]):
                args.append(e.fresh(aty, f'arg{i}'))
            r = e.call(f, args)
            d1 = parser.field(e, li, 'u16').get(e)
            err = None
            if isinstance(r, EnumV):
                err = (r.tag == 1) if isinstance(r.tag, int) else bool(e.fork_bool(r.tag == 1))
            e.check(d1 == d0, f'Parser::{fname}: the loop counter has its entry value again when the function returns', {'returns': 'a diagnostic' if err else 'a node'})
            return {'fn': fname, 'diagnostic': err}
        results = e.explore(path)
        for r in results:
            for lab, ok, info in list(r.checks):
                if not ok:
                    res.fail(f'C15.K4:Parser::{fname} leaves the loop counter changed on a diagnostic path',
                             f'Parser::{fname} sets the loop counter to 0 for the body and returns early (`?`) on a syntax error without restoring it: the enclosing loop then '
                             'decrements 0 (host panic in debug builds, 65535 in release so that `break` outside any loop is accepted)', info, replay=F62_REPLAY)
                    r.checks.remove((lab, ok, info))
            if r.kind in ('oob', 'unreachable', 'ub', 'diverge', 'depth', 'panic'):
                res.fail(f'C15.K4:{fname}:{r.kind}', f'Parser::{fname}: path ends in {r.kind}: {str(r.info)[:200]}', {'path': str(r.info)})
        summarize_paths(res, e, results, lambda r: r.info if isinstance(r.info, dict) else None, key_prefix=f'C15.K4:{fname}:', unwind_ok=False)


# ---------------------------------------------------------------------------------------------- K5 resolver and compiler agree on when a name starts to exist
F63_FOR_REPLAY = dict(kind='lay', source='for x in x {}\n', bad_exit=[101, 134, -6], bad_re=r'panicked at',
                      note='the resolver binds the iterable `x` to the loop variable, the compiler evaluates the iterable before the variable exists')
F63_CATCH_REPLAY = dict(kind='lay', source='try { } catch e: e { }\n', bad_exit=[101, 134, -6], bad_re=r'panicked at',
                        note='the resolver binds the class `e` to the catch variable, the compiler loads the class before the variable exists')


def _resolver_order(res, fname, node_ty, introduced, used_kind, replay):
    """run Resolver::<fname> from MIR; the name the construct introduces must be declared AFTER the expression / class the construct
    evaluates first has been resolved (the compiler lowers in that order: C02.K2 / C06.C1)"""
    P = get_program('vm')
    f = P.lookup('compiler::resolver::Resolver::' + fname)
    if f is None:
        res.inconclusive(f'Resolver::{fname} not located')
        return
    e = Engine(P, loop_bound=4, timeout_s=120, max_depth=40)

    def ev(kind):
        def m(e_, a, c):
            tgt = a[1] if len(a) > 1 else None
            cell = tgt.cell if isinstance(tgt, Ref) else None
            e_.path_state['order'].append((kind, id(cell) if cell is not None else None))
            e_.path_state.setdefault('keep', []).append(cell)
            return UNIT
        return m
    e.model(r'^(compiler::)?(resolver::)?Resolver::declare_variable$', ev('declare'))
    e.model(r'^(compiler::)?(resolver::)?Resolver::define_variable$', ev('define'))
    e.model(r'^(compiler::)?(resolver::)?Resolver::expr$', ev('expr'))
    e.model(r'^(compiler::)?(resolver::)?Resolver::resolve_variable$', ev('use'))
    e.model(r'^(compiler::)?(resolver::)?Resolver::block$', ev('block'))

    def m_scope(e_, a, c):
        e_.call_value(c.frame, a[1], [a[0]])
        return e_.fresh(norm_ty(c.dest_ty), e_.fresh_name('symbols')) if c.dest_ty else UNIT
    e.model(r'^(compiler::)?(resolver::)?Resolver::scope$', m_scope)
    e.allow_havoc(r'^(compiler::)?(ir::)?(token::)?Token::\w+$', r'^(compiler::)?(ir::)?(ast::)?\w+::(start|end|span)$', r'^<.* as (compiler::)?(ir::)?(ast::)?Spanned>::\w+$',
                  r'^<.* as (std::ops::|core::ops::)?Drop>::drop$', r'^(std::ptr::|core::ptr::)?drop_in_place$')
    sd = P.struct_def(node_ty)

    def path(e):
        e.path_state['order'] = []
        r = e.fresh('compiler::resolver::Resolver', 'resolver')
        node = e.fresh(node_ty, 'node')
        ic = node.field(e, sd.index_of(introduced), sd.fields[sd.index_of(introduced)][1])
        e.call(f, [Ref(Cell(r)), Ref(Cell(node))])
        order = e.path_state['order']
        decl = [i for i, (k, c) in enumerate(order) if k == 'declare' and c == id(ic)]
        uses = [i for i, (k, c) in enumerate(order) if k == used_kind]
        e.check(len(decl) == 1 and len(uses) >= 1, f'Resolver::{fname}: the construct declares its name once and resolves what it evaluates first', {'events': [k for k, _ in order]})
        if decl and uses:
            e.check(uses[0] < decl[0], f'Resolver::{fname}: what the construct evaluates before its name exists is resolved before the name is declared',
                    {'events': [k for k, _ in order]})
        return {'fn': fname, 'events': len(order)}
    results = e.explore(path)
    for r in results:
        for lab, ok, info in list(r.checks):
            if not ok and 'before the name is declared' in lab:
                res.fail(f'C15.K5:Resolver::{fname} declares the name before resolving what is evaluated first',
                         f'Resolver::{fname} puts the introduced name in scope before it resolves the expression the compiler lowers first: a use of the same name there is bound to a '
                         'local the compiler has not declared yet (host panic "Symbol not found")', info, replay=replay)
                r.checks.remove((lab, ok, info))
        if r.kind in ('oob', 'unreachable', 'ub', 'diverge', 'depth', 'panic'):
            res.fail(f'C15.K5:{fname}:{r.kind}', f'Resolver::{fname}: path ends in {r.kind}: {str(r.info)[:200]}', {'path': str(r.info)})
    summarize_paths(res, e, results, lambda r: r.info if isinstance(r.info, dict) else None, key_prefix=f'C15.K5:{fname}:', unwind_ok=False)


@obligation('C15.K5.resolver_name_order', 'C15', programs=('vm',), also=('C16', 'C02'))
def k5_resolver_name_order(res, tier):
    """Resolver::for_ and Resolver::catch from MIR with the sub-resolvers as events: the iterable of a for loop / the class of a catch
    clause is resolved before the loop variable / catch variable is declared, which is the order in which Compiler::for_ / catch lower
    them — otherwise `for x in x {}` / `catch e: e` bind a name to a local that does not exist yet when the compiler reaches the use"""
    res.bounds = {'constructs': 'for, catch (with and without a class)'}
    res.assumptions = ['Compiler::for_ lowers the iterable before it declares $iter and the loop variable; Compiler::catch loads the class before it declares the catch variable '
                       '(checked on the source text of compiler/mod.rs)']
    src = get_program('vm').items.files['laythe_vm/src/compiler/mod.rs']
    import re as _re
    mf = _re.search(r'\n  fn for_\(.*?\n  \}\n', src, _re.S)
    mc = _re.search(r'\n  fn catch\(.*?\n  \}\n', src, _re.S)
    okf = mf and 0 <= mf.group(0).find('self_.expr(&for_.iter)') < mf.group(0).find('declare_variable(')
    okc = mc and 0 <= mc.group(0).find('variable_get(catch.class') < mc.group(0).find('declare_variable(')
    if not (okf and okc):
        res.inconclusive('the lowering order of Compiler::for_ / catch is not the one this obligation compares the resolver with')
        return
    res.checks += 2
    _resolver_order(res, 'for_', 'compiler::ir::ast::For', 'item', 'expr', F63_FOR_REPLAY)
    _resolver_order(res, 'catch', 'compiler::ir::ast::Catch', 'name', 'use', F63_CATCH_REPLAY)


# ---------------------------------------------------------------------------------------------- K1 the stack simulation on unreachable code
F65_SRC = 'fn g() { return 1; for a in [] {} }\nprint(g());\n'
F65_REPLAY = dict(kind='lay', source=F65_SRC, bad_exit=[101, 134, -6], bad_re=r'panicked at', expect_stdout='1\n',
                  note='a loop behind a return: the dead-code pass removes the instructions that push the loop variables, the loop that pops them stays')


@obligation('C15.K1.stack_simulation_dead_code', 'C15', programs=('vm-dbg',), also=('C16',))
def k1_dead_code(res, tier):
    """apply_stack_effects (debug build: its own assertions compiled in) on what the dead-code pass leaves of a loop that follows a
    return / raise / jump: everything up to the loop's first label is removed (the instructions that push the loop variables), the
    loop and the drops of its variables stay.  The simulation must not hit a host panic on such a program (it is a valid program:
    the code is merely unreachable)"""
    from .c04 import _fun_builder_models, _arity_params, _panics
    P = get_program('vm-dbg')
    f = P.lookup('compiler::peephole::apply_stack_effects')
    INS = 'byte_code::SymbolicByteCode'
    ed = P.enum_def(INS)
    lab_sd = 'byte_code::Label'
    res.bounds = {'exit in front of the dead loop': 'Return, Raise, Jump', 'loop variables dropped behind the loop': '1..3', 'values pushed and popped in the loop body': '0..2'}
    res.assumptions = ['remove_dead_code removes the instructions between an unconditional transfer and the next label (C12)']
    e = Engine(P, loop_bound=60, timeout_s=120)
    _fun_builder_models(e, P)

    def ins(name, *ops):
        vi = ed.vindex[name]
        if not ops:
            return EnumV(INS, vi, None, None, ed)
        return EnumV(INS, vi, {name: {i: Cell(o) for i, o in enumerate(ops)}}, None, ed)

    def label(n):
        return Struct(lab_sd, {0: Cell(bv(n, 32))}, None)

    def path(e):
        xv = z3.BitVec('exit_kind', 64)
        e.add_constraint(z3.ULE(xv, 2))
        x = e.concretize(xv, [0, 1, 2])
        nv = z3.BitVec('loop_variables', 64)
        e.add_constraint(z3.And(z3.UGE(nv, 1), z3.ULE(nv, 3)))
        n = e.concretize(nv, [1, 2, 3])
        jv = z3.BitVec('body_values', 64)
        e.add_constraint(z3.ULE(jv, 2))
        j = e.concretize(jv, [0, 1, 2])
        prog = [ins('Nil')]
        prog += [[ins('Return')], [ins('Raise')], [ins('Drop'), ins('Jump', label(2))]][x]
        # the loop, entered only from its own back edge: test, body, back edge, exit label, the loop variables leave the scope
        prog += [ins('Label', label(0)), ins('Nil'), ins('JumpIfFalse', label(1))]
        prog += [ins('Nil')] * j + [ins('Drop')] * j
        prog += [ins('Loop', label(0)), ins('Label', label(1))] + [ins('Drop')] * n
        prog += [ins('Label', label(2)), ins('Nil'), ins('Return')]
        prog = [e.copy_value(p) for p in prog]
        seq = ConcSeq(INS, [Cell(p) for p in prog])
        fbuild = e.fresh('laythe_core::object::FunBuilder', 'fun_builder')
        _arity_params(e, P, fbuild)
        e.call(f, [Ref(Cell(fbuild)), SliceRef(seq, bv(0, 64), bv(len(prog), 64))])
        e.check(True, 'apply_stack_effects returns on a program with an unreachable loop')
        return {'exit': ['Return', 'Raise', 'Jump'][x], 'loop_variables': n, 'body_values': j}
    results = e.explore(path)
    seen = False
    for r in results:
        if r.kind == 'panic' and not seen:
            seen = True
            res.fail('C15.K1:the stack simulation asserts on an unreachable loop',
                     'apply_stack_effects keeps simulating behind a return / raise / jump: the dead-code pass has removed the pushes of the loop variables but not the loop, '
                     f'the drops behind it take the simulated depth below zero and the debug assertion fires ({str(r.info)[:100]})', {'path': str(r.info)}, replay=F65_REPLAY)
        elif r.kind in ('oob', 'unreachable', 'ub', 'diverge', 'depth'):
            res.fail(f'C15.K1:dead_code:{r.kind}', f'apply_stack_effects: path ends in {r.kind}: {str(r.info)[:200]}', {'path': str(r.info)})
    summarize_paths(res, e, results, lambda r: r.info if isinstance(r.info, dict) else None, key_prefix='C15.K1:dead_code:', unwind_ok=False)


# ---------------------------------------------------------------------------------------------- K1 a declaration always creates the local
@obligation('C15.K1.declaration_creates_local', 'C15', programs=('vm',), also=('C16',))
def k1_declaration_creates_local(res, tier):
    """Compiler::declare_local_variable and declare_and_define_parameter from MIR for any number of existing locals (the limit and
    beyond included): on every returning path, the one that reports "too many local variables" included, the local is created
    (push_local runs once) — the compiler goes on after a diagnostic and its later lookups of the name (variable_get / variable_set,
    resolve_local) end in a host panic when the local does not exist"""
    from .compabs import CompilerWorld
    P = get_program('vm')
    res.bounds = {'existing locals': 'any number', 'symbol state': 'any'}
    res.assumptions = ['the resolver has put the name into the innermost symbol table (the lookup in the table answers Some)']
    for fname in ('declare_local_variable', 'declare_and_define_parameter'):
        f = P.lookup('compiler::Compiler::' + fname)
        if f is None:
            res.inconclusive(f'Compiler::{fname} not located')
            continue
        e = Engine(P, loop_bound=4, timeout_s=120, max_depth=40)
        CW = CompilerWorld(e, P)

        def ev(kind, ret=None):
            def m(e_, a, c):
                e_.path_state['order'].append(kind)
                return UNIT if ret is None else ret(e_, a, c)
            return m
        e.model(r'^(compiler::)?Compiler::push_local$', ev('push_local'))
        e.model(r'^(compiler::)?Compiler::error$', ev('error'))
        e.model(r'^(compiler::)?Compiler::emit_byte$', ev('emit'))

        def m_get(e_, a, c):
            oty = norm_ty(c.dest_ty)
            return e_.mk_option(e_, oty, e_.fresh(ty_args(oty)[0], e_.fresh_name('symbol')))
        e.model(r'^(compiler::)?(ir::)?(symbol_table::)?SymbolTable::get$', m_get)

        def m_resolve_local(e_, a, c):
            # the local that was just pushed is found (a lookup before the push finds nothing: that is the panic the obligation is about)
            oty = norm_ty(c.dest_ty)
            if 'push_local' not in e_.path_state['order']:
                return e_.mk_option(e_, oty)
            return e_.mk_option(e_, oty, e_.fresh(ty_args(oty)[0], e_.fresh_name('slot')))
        e.model(r'^(compiler::)?Compiler::resolve_local$', m_resolve_local)
        e.allow_havoc(r'^(std|alloc|core)::fmt::', r'^format$', r'^must_use$', r'Arguments::', r'^<(std::string::|alloc::string::)?String as .*>::\w+$',
                      r'^(std::string::|alloc::string::)?String::\w+$', r'^(laythe_core::)?(object::)?(fun::)?FunBuilder::name$', r'^(compiler::)?(ir::)?(symbol_table::)?Symbol::\w+$',
                      r'^(std::ptr::|core::ptr::)?drop_in_place$')

        def path(e, f=f, fname=fname):
            c = CW.fresh_compiler(e)
            e.path_state['order'] = []
            # the assertion about the scope depth of parameters is the caller's business
            sdp = CW.field(e, c, 'scope_depth')
            e.assume(z3.UGT(sdp, 1))
            lt = CW.field(e, c, 'local_tables')
            if hasattr(lt, 'len'):
                e.assume(z3.UGE(lt.len, 1))
            args = [Ref(Cell(c))]
            for i, (an, aty) in enumerate(f.args[1:]):
                args.append(e.fresh(aty, f'arg{i}'))
            e.call(f, args)
            order = e.path_state['order']
            e.check(order.count('push_local') == 1, f'Compiler::{fname}: the local is created on every path, also after the too-many-locals diagnostic',
                    {'events': order})
            return {'fn': fname, 'diagnostic': 'error' in order}
        results = e.explore(path)
        for r in results:
            if r.kind in ('oob', 'unreachable', 'ub', 'diverge', 'depth'):
                res.fail(f'C15.K1:{fname}:{r.kind}', f'Compiler::{fname}: path ends in {r.kind}: {str(r.info)[:200]}', {'path': str(r.info)})
        if not any(isinstance(r.info, dict) and r.info.get('diagnostic') for r in results if r.kind == 'ok'):
            res.inconclusive(f'Compiler::{fname}: the path with the too-many-locals diagnostic was not reached')
        summarize_paths(res, e, results, lambda r: r.info if isinstance(r.info, dict) else None, key_prefix=f'C15.K1:{fname}:', unwind_ok=False)


# ---------------------------------------------------------------------------------------------- K2 counters of the scanner's loops
@obligation('C15.K2.scanner_escape_counter', 'C15', programs=('vm',), also=('C16',))
def k2_escape_counter(res, tier):
    """Scanner::string, ONE iteration of the loop that reads the digits of a `\\u{...}` escape, from ANY value of its u8 digit counter
    and any next character: the counter never overflows (the loop leaves with a diagnostic before it can), so an escape of any
    length — far beyond the texts the whole-scanner obligations can enumerate — ends in a diagnostic and not in a host panic"""
    from mirsym.mir import parsed_block
    P = get_program('vm')
    f = P.lookup('compiler::scanner::Scanner::string')
    if f is None:
        res.inconclusive('Scanner::string not located')
        return
    cnt = f.debug.get('len')
    head = None
    succ = {}
    for bb in f.blocks:
        stmts, term, _ = parsed_block(f, bb)
        succ[bb] = set(re.findall(r"'(bb\d+)'", repr(term)))
        if cnt and any(s[0] == 'assign' and s[1] == ('place', cnt, ()) and s[2] == ('use', ('const', '0_u8')) for s in stmts) and term[0] == 'goto':
            head = term[1]
            init_bb = bb
    if head is None:
        res.inconclusive('Scanner::string: the digit loop of the unicode escape was not found (counter `len` initialised to 0_u8)')
        return

    def reach(src):
        # inside the digit loop: paths that come back to the head without re-entering the loop through its initialisation
        seen, todo = set(), [src]
        while todo:
            b = todo.pop()
            for s in succ.get(b, ()):
                if s not in seen and s != init_bb:
                    seen.add(s)
                    todo.append(s)
        return seen
    body = {b for b in reach(head) if head in reach(b)} | {head}
    res.bounds = {'digits read so far': 'any u8', 'next character': 'any, or the end of the text', 'loop blocks': len(body)}
    res.assumptions = ['Scanner::next answers any character or the end of the text']
    e = Engine(P, loop_bound=3, timeout_s=60)
    opt = P.enum_def('Option')

    def m_next(e_, a, c):
        oty = norm_ty(c.dest_ty)
        if e_.fork_bool(z3.Bool(e_.fresh_name('end_of_text'))):
            return e_.mk_option(e_, oty)
        ch = z3.BitVec(e_.fresh_name('char'), 32)
        e_.add_constraint(z3.And(z3.ULE(ch, 0x10FFFF), z3.Or(z3.ULT(ch, 0xD800), z3.UGT(ch, 0xDFFF))))
        return e_.mk_option(e_, oty, ch)
    e.model(r'^(compiler::)?(scanner::)?Scanner::next$', m_next)
    e.allow_havoc(r'^(compiler::)?(scanner::)?Scanner::(?!string$|next$)\w+$')

    def path(e):
        k = z3.BitVec('digits_so_far', 8)
        q = z3.BitVec('quote_char', 32)
        e.add_constraint(z3.ULE(q, 0x7F))

        def stop(eng, fr):
            if fr.visits[head] >= 2:
                raise PathEnd('stop', fr)
        e.bb_hooks[(f.key, head)] = stop

        def left(eng, fr):
            raise PathEnd('left_loop', fr)
        for b in f.blocks:
            if b not in body:
                e.bb_hooks[(f.key, b)] = left
        me = Ref(Cell(e.fresh('compiler::scanner::Scanner', 'scanner')))
        preset = {cnt: k, f.debug['self']: me}
        if f.debug.get('quote_char'):
            preset[f.debug['quote_char']] = q
        if f.debug.get('start'):
            preset[f.debug['start']] = z3.BitVec('escape_start', 64)
        fargs = [me] + [e.fresh(aty, f'string_arg{i}') for i, (an, aty) in enumerate(f.args[1:])]
        try:
            e.exec_fn(f, fargs, 0, None, start_bb=head, preset=preset)
        except PathEnd as pe:
            if pe.kind not in ('stop', 'left_loop'):
                raise
            e.check(True, 'one iteration of the digit loop: the counter stayed in range')
            return {'iteration': 'next digit' if pe.kind == 'stop' else 'the loop was left (closing brace or diagnostic)'}
        e.check(True, 'one iteration of the digit loop: the counter stayed in range')
        return {'iteration': 'function returned'}
    results = e.explore(path)
    for r in results:
        if r.kind == 'panic':
            res.fail('C15.K2:the digit counter of a unicode escape overflows', 'Scanner::string counts the characters of a `\\u{...}` escape in a u8 and does not leave the loop before the counter '
                     f'can overflow: an escape of 256 characters ends the scanner in a host panic ({str(r.info)[:120]})', {'path': str(r.info)})
        elif r.kind in ('oob', 'unreachable', 'ub', 'diverge', 'depth'):
            res.fail(f'C15.K2:escape_counter:{r.kind}', f'Scanner::string: path ends in {r.kind}: {str(r.info)[:200]}', {'path': str(r.info)})
    summarize_paths(res, e, results, lambda r: r.info if isinstance(r.info, dict) else None, key_prefix='C15.K2:escape:', unwind_ok=True)


# ---------------------------------------------------------------------------------------------- `super` needs an instance method
F77_SRC = ('class Base { who() { return "Base.who on " + self.cls().name(); } }\nclass Outer {\n  m() {\n    class Inner : Base { static s() { return super.who(); } }\n    return Inner.s();\n  }\n}\n'
           'print(Outer().m());\n')
F77_REPLAY = dict(kind='lay', source=F77_SRC, bad_re=r'Base\.who on', bad_exit=[0], note='`super` in a static method must be rejected (there is no self); it binds the self of the enclosing method instead')


@obligation('C02.K2.super_needs_instance_method', 'C02', programs=('vm',), also=('C03',))
def k2_super_self(res, tier):
    """Resolver::super_ and Resolver::self_ from MIR for every kind of enclosing function (method, initialiser, static method, plain
    function inside a class body, none): the implicit `self` that `super.m()` loads is resolved only where an instance exists —
    elsewhere a diagnostic is reported, so the name can never be bound to the `self` of an unrelated enclosing method"""
    P = get_program('vm')
    fk = P.enum_def('laythe_core::object::FunKind') or P.enum_def('FunKind')
    res.bounds = {'enclosing function kind': 'none / Fun / Method / StaticMethod / Initializer / Script', 'class context': 'present or absent'}
    for fname, ast_ty in (('super_', 'compiler::ir::ast::Super'), ('self_', None)):
        f = P.lookup('compiler::resolver::Resolver::' + fname)
        if f is None:
            res.inconclusive(f'Resolver::{fname} not located')
            continue
        e = Engine(P, loop_bound=4, timeout_s=120, max_depth=40)

        def m_class_info(e_, a, c):
            oty = norm_ty(c.dest_ty)
            if not e_.fork_bool(z3.Bool('inside_a_class')):
                e_.path_state['kind'] = 'no class'
                return e_.mk_option(e_, oty)
            info = e_.path_state.get('class_info')
            if info is None:
                info = e_.path_state['class_info'] = e_.fresh('compiler::resolver::ClassInfo', 'class_info')
            return e_.mk_option(e_, oty, Ref(Cell(info)))
        e.model(r'^(compiler::)?(resolver::)?Resolver::class_info$', m_class_info)

        def m_resolve(e_, a, c):
            tok = a[1].cell.get(e_) if isinstance(a[1], Ref) else a[1]
            e_.path_state['order'].append(('resolve', tok))
            return UNIT
        e.model(r'^(compiler::)?(resolver::)?Resolver::resolve_variable$', m_resolve)

        def m_error(e_, a, c):
            e_.path_state['order'].append(('error', None))
            return UNIT
        e.model(r'^(compiler::)?(resolver::)?Resolver::error$', m_error)
        e.allow_havoc(r'^(compiler::)?(ir::)?(token::)?Token::(?!new$)\w+$', r'^(compiler::)?(ir::)?(ast::)?\w+::(start|end|span)$', r'^<.* as (compiler::)?(ir::)?(ast::)?Spanned>::\w+$',
                      r'^<.* as (std::ops::|core::ops::)?Drop>::drop$', r'^(std::ptr::|core::ptr::)?drop_in_place$')
        tk = P.enum_def('compiler::ir::token::TokenKind') or P.enum_def('TokenKind')

        def path(e, f=f, fname=fname, ast_ty=ast_ty):
            e.path_state['order'] = []
            r = e.fresh('compiler::resolver::Resolver', 'resolver')
            arg = e.fresh(ast_ty, 'node') if ast_ty else e.fresh('compiler::ir::token::Token', 'self_token')
            e.call(f, [Ref(Cell(r)), Ref(Cell(arg))])
            order = e.path_state['order']
            # was a `self` resolved?  (for self_: any resolve; for super_: a resolve of a token of kind Self_)
            self_resolved = False
            for k, tok in order:
                if k != 'resolve':
                    continue
                if fname == 'self_':
                    self_resolved = True
                else:
                    sd = P.struct_def('compiler::ir::token::Token')
                    kd = tok.field(e, sd.index_of('kind'), sd.fields[sd.index_of('kind')][1]).get(e) if isinstance(tok, Struct) else None
                    if isinstance(kd, EnumV) and (kd.tag == tk.vindex['Self_'] if isinstance(kd.tag, int) else e.is_valid(kd.tag == tk.vindex['Self_'])):
                        self_resolved = True
            errors = sum(1 for k, _ in order if k == 'error')
            info = e.path_state.get('class_info')
            instance = False
            if info is not None:
                sdi = P.struct_def('compiler::resolver::ClassInfo')
                fkv = info.field(e, sdi.index_of('fun_kind'), sdi.fields[sdi.index_of('fun_kind')][1]).get(e)
                tag = fkv.tag if not isinstance(fkv.tag, int) else bv(fkv.tag, 64)
                inner = fkv.field(e, 'Some', 0, fk.name).get(e) if e.sat(tag == 1) else None
                if inner is not None:
                    it = inner.tag if not isinstance(inner.tag, int) else bv(inner.tag, 64)
                    instance = e.is_valid(z3.And(tag == 1, z3.Or(it == fk.vindex['Method'], it == fk.vindex['Initializer'])))
            if self_resolved and errors == 0:
                e.check(instance, f'Resolver::{fname}: `self` is resolved without a diagnostic only inside a method or an initialiser',
                        {'inside a class': info is not None})
            return {'fn': fname, 'self resolved': self_resolved, 'diagnostics': errors, 'instance method': instance}
        results = e.explore(path)
        for r in results:
            for lab, ok, info in list(r.checks):
                if not ok:
                    res.fail(f'C02.K2:Resolver::{fname} resolves self outside an instance method',
                             f'Resolver::{fname} resolves the implicit `self` whatever the kind of the enclosing function: `super.m()` in a static method (or a plain function in a class body) '
                             'binds the `self` of an unrelated enclosing method and runs the super method on it', info, replay=F77_REPLAY)
                    r.checks.remove((lab, ok, info))
            if r.kind in ('oob', 'unreachable', 'ub', 'diverge', 'depth', 'panic'):
                res.fail(f'C02.K2:{fname}:{r.kind}', f'Resolver::{fname}: path ends in {r.kind}: {str(r.info)[:200]}', {'path': str(r.info)})
        summarize_paths(res, e, results, lambda r: r.info if isinstance(r.info, dict) else None, key_prefix=f'C02.K2:{fname}:', unwind_ok=False)
