"""C15 — the front end is total.  Kernels for the size limits of the lowering and of the assembler glue: whatever the counts (source
lines, jump labels, captures), the front end answers with a diagnostic and never with a panic."""
import re
import z3
from vfw.core import obligation, get_program, summarize_paths
from mirsym.engine import Engine
from mirsym.values import *
from mirsym.tys import *
from .compabs import CompilerWorld

F13_NOTE = 'a source with 65536 or more lines: `line as u16 + 1` overflows in emit_byte (debug panic, wrapped line numbers in release)'


def _many_lines():
    # the statement sits on 0-based line 65535: `65535 as u16 + 1` is the overflowing case
    return 'let x = 1;\n' + '\n' * 65534 + 'print(x);\n'


def _many_labels():
    return 'let x = 1;\n' + ' '.join(['if x == 2 { x = 3; }'] * 70000) + '\nprint(x);\n'


def _finish(res, e, results, prefix, replay=None):
    for r in results:
        if r.kind in ('oob', 'unreachable', 'ub', 'diverge', 'depth', 'panic'):
            res.fail(f'{prefix}{r.kind}', f'path ends in {r.kind}: {str(r.info)[:300]}', {'path': str(r.info)}, replay=replay)
    summarize_paths(res, e, results, lambda r: r.info if isinstance(r.info, dict) else None, key_prefix=prefix, unwind_ok=False)


@obligation('C15.K1.emit_byte_lines', 'C15', programs=('vm-dbg',), also=('C18',))
def k1_emit_byte(res, tier):
    """Compiler::emit_byte for an instruction on any source line (any usize the line table can answer): it records a line number for
    the instruction and does not panic, however long the file is"""
    P = get_program('vm-dbg')
    e = Engine(P, loop_bound=4, timeout_s=120, max_depth=30)
    CW = CompilerWorld(e, P)
    # the real emit_byte is the subject here (CompilerWorld records emissions instead of executing it)
    e.models = [mdl for mdl in e.models if 'emit_byte' not in mdl[2]]
    RES = P.enum_def('Result')
    res.bounds = {'source line of the instruction': 'any usize', 'build': 'debug assertions and overflow checks on (the release build wraps instead of panicking)'}

    def m_offset_line(e_, a, c):
        return EnumV('Result<usize, LineError>', 0, {'Ok': {0: Cell(z3.BitVec('line', 64))}}, None, RES)
    e.model(r'^(source::)?(files::)?LineOffsets::offset_line$', m_offset_line)

    def m_write(e_, a, c):
        e_.path_state['written'] = a[2]
        return UNIT
    e.model(r'^(compiler::)?Compiler::write_instruction$', m_write)
    f = P.lookup('compiler::Compiler::emit_byte')

    def path(e):
        c = CW.fresh_compiler(e, 'c')
        ins = e.fresh('byte_code::SymbolicByteCode', 'ins')
        e.call(f, [Ref(Cell(c)), ins, z3.BitVec('offset', 32)])
        w = e.path_state.get('written')
        e.check(w is not None, 'emit_byte: the instruction is written with a line number')
        if w is not None:
            line = z3.BitVec('line', 64)
            e.check(z3.Implies(z3.ULT(line, 65535), z3.ZeroExt(48, w) == line + 1), 'emit_byte: lines that fit the table are recorded exactly (1-based)')
        return {'fn': 'emit_byte'}
    _finish(res, e, e.explore(path), 'C15.K1:emit_byte:', replay=dict(kind='lay', source=_many_lines(), expect_stdout='1\n', note=F13_NOTE))


@obligation('C15.K1.assembler_limits', 'C15', programs=('vm-dbg',))
def k1_peephole_compile(res, tier):
    """peephole_compile (optimise, stack analysis, label resolution, encoding, packaging) with every stage summarised by an arbitrary
    result and any number of jump labels: it returns a function or diagnostics and has no panicking path of its own"""
    P = get_program('vm-dbg')
    e = Engine(P, loop_bound=4, timeout_s=120, max_depth=30)
    from .vmabs import VmWorld
    VmWorld(e, P)
    RES = P.enum_def('Result')
    res.bounds = {'jump labels in the function': 'any usize', 'instruction count': 'any'}
    res.assumptions = ['peephole_optimize (C12), apply_stack_effects (C04/C06), the encoder (C06) are summarised by arbitrary results; '
                       'the encoder yields one line entry per code byte (C06.K1)']
    nl = z3.BitVec('label_count', 64)
    e.model(r'^(compiler::)?(peephole::)?label_count$', lambda e_, a, c: nl)
    def seq(e_, ty, name):
        n = z3.BitVec(name + '_len', 64)
        e_.add_constraint(z3.ULT(n, 1 << 40))
        return e_.fresh_seq(ty, NameBacking(name), n)
    e.model(r'^(\w+::)*ChunkBuilder::take$', lambda e_, a, c: Struct('()', {0: Cell(seq(e_, 'byte_code::SymbolicByteCode', 'ins')), 1: Cell(seq(e_, 'laythe_core::value::Value', 'consts')), 2: Cell(seq(e_, 'u16', 'lines'))}, None))
    e.model(r'^(compiler::)?(peephole::)?peephole_optimize$', lambda e_, a, c: Struct('()', {0: Cell(seq(e_, 'byte_code::SymbolicByteCode', 'ins2')), 1: Cell(seq(e_, 'u16', 'lines2'))}, None))
    e.model(r'^(compiler::)?(peephole::)?(apply_stack_effects|compute_label_offsets)$', lambda e_, a, c: UNIT)

    def m_encode(e_, a, c):
        if e_.fork_bool(z3.Bool('encode_ok')):
            sd = P.struct_def('byte_code::EncodedChunk')
            ch = Struct('byte_code::EncodedChunk', {}, None)
            n = z3.BitVec('code_len', 64)
            for i, (nm, ty) in enumerate(sd.fields):
                ch.f[i] = Cell(e_.fresh_seq(ty_args(norm_ty(ty))[-1], NameBacking('encoded_' + nm), n))
            return EnumV('Result', 0, {'Ok': {0: Cell(ch)}}, None, RES)
        return EnumV('Result', 1, {'Err': {0: Cell(Opaque('Vec<Diagnostic>', 'errors'))}}, None, RES)
    e.model(r'^(byte_code::)?ByteCodeEncoder::encode$', m_encode)
    e.allow_havoc(r'^(byte_code::)?ByteCodeEncoder::new$', r'^bumpalo::', r'^(laythe_core::)?(hooks::)?GcHooks::\w+$', r'^(laythe_core::)?(\w+::)*(FunBuilder|Chunk)::\w+$',
                  r'^<.* as (std::ops::|core::ops::)?(Deref|DerefMut|Index|IndexMut)(<.*>)?>::\w+$', r'^(std::vec::|alloc::vec::)?Vec::len$',
                  r'^<.* as (std::ops::|core::ops::)?Try>::branch$', r'^(laythe_core::)?(\w+::)*Array::len$', r'^(std|core)::fmt::', r'Arguments::', r'^(codespan_reporting::)?(diagnostic::)?Diagnostic::\w+$')
    # lines.len() == instructions.len(): one line per code byte is established by C06.K1
    e.model(r'^(laythe_core::)?(collections::)?(array::)?Array::len$', lambda e_, a, c: z3.BitVec('packed_len', 64))
    # `bumpalo::vec![in alloc; 0; label_count]` is a loop that only fills the offsets vector with zeros: summarised (its content is
    # overwritten by compute_label_offsets, which is summarised too)
    e.model(r'^<(std::ops::|core::ops::)?Range as (std::iter::|core::iter::)?Iterator>::next$',
            lambda e_, a, c: EnumV('Option<usize>', 0, None, None, P.enum_def('Option')))
    def m_offsets_slice(e_, a, c):
        return SliceRef(e_.fresh_seq('usize', NameBacking(e_.fresh_name('label_offsets')), nl), bv(0, 64), nl)
    e.model(r'^<bumpalo::collections::Vec as (std::ops::|core::ops::)?Index(Mut)?>::index(_mut)?$', m_offsets_slice)
    f = P.lookup('peephole_compile')

    def path(e):
        e.path_state['events'] = []
        e.path_state['allocs'] = 0
        r = e.call(f, [Ref(Cell(Opaque('GcHooks', 'hooks'))), Opaque('FunBuilder', 'fun'), Opaque('ChunkBuilder', 'chunk'),
                       Ref(Cell(Opaque('Bump', 'alloc'))), Opaque('Rc<RefCell<CacheIdEmitter>>', 'ids')])
        e.check(isinstance(r, EnumV), 'peephole_compile: answers with a function or with diagnostics')
        return {'ok': isinstance(r, EnumV) and r.tag == 0}
    _finish(res, e, e.explore(path), 'C15.K1:peephole_compile:', replay=dict(kind='lay', source=_many_labels(),
            bad_re=r'not yet implemented|panicked', note='more than 65535 jump labels in one function'))


# ---------------------------------------------------------------------------------------------- K3 break / continue belong to a loop of the SAME function
F51_SRC = 'let i = 0;\nwhile i < 2 {\n  let f = || { break; };\n  i = i + 1;\n}\nprint(i);\n'
F51_REPLAY = dict(kind='lay', source=F51_SRC, bad_exit=[101, 134, -6], bad_re='panicked')


@obligation('C15.K3.function_bodies_start_outside_loops', 'C15', programs=('vm',), also=('C16',))
def k3_loop_depth(res, tier):
    """Parser::function and Parser::lambda: the body of a nested function is parsed with the loop depth reset to 0 (a `break` /
    `continue` in it is rejected by the parser unless the body has a loop of its own: the compiler of the nested function has no
    loop to jump to and relies on this - Compiler::break_ / continue_ `expect` it) and the depth of the enclosing function is
    restored afterwards"""
    from mirsym.engine import Engine
    P = get_program('vm')
    res.bounds = {'enclosing loop depth': 'any u16', 'body': 'opaque (any parse result)'}
    PARSER = 'compiler::parser::Parser'
    sd = P.struct_def(PARSER)
    if sd is None:
        res.inconclusive('Parser struct not found')
        return
    ix = {n: i for i, (n, _) in enumerate(sd.fields)}
    for fname in ('function', 'lambda'):
        e = Engine(P, loop_bound=4, timeout_s=120, max_depth=40, max_paths=400)
        f = P.lookup('compiler::parser::Parser::' + fname)

        def m_body(e_, a, c):
            p = a[0]
            while isinstance(p, Ref):
                p = p.cell.get(e_)
            e_.path_state.setdefault('depth_at_body', []).append(p.field(e_, ix['loop_depth'], 'u16').get(e_))
            return e_.fresh(norm_ty(c.dest_ty), e_.fresh_name('body'))
        e.model(r'^(compiler::)?(parser::)?Parser::(fun_body|block)$', m_body)
        e.allow_havoc(r'^(compiler::)?(parser::)?Parser::(call_signature|call_params|vec|table|node|atom_expr|consume|consume_basic|match_kind|check|error|error_at|error_current|advance|type_params|begin_scope|end_scope|declare_variable|define_variable|scope|push_table|pop_table)$',
                      r'^<.* as (std::clone::|core::clone::)?Clone>::clone$', r'^(compiler::ir::)?(ast::)?\w+::new$', r'^(compiler::ir::)?(token::)?Token::\w+$', r'^(std::mem::|core::mem::)?replace$',
                      r'^(std::result::|core::result::)?Result::(map|map_err|and_then|or_else)$', r'^(std|alloc|core)::fmt::', r'Arguments::', r'^format$', r'^must_use$', r'^<(std::string::|alloc::string::)?String as .*>::\w+$', r'^(std::string::|alloc::string::)?String::\w+$',
                      r'^(std::option::|core::option::)?Option::(map|and_then|take|replace|unwrap_or|unwrap_or_else|cloned)$')

        def path(e, f=f, fname=fname):
            p = e.fresh(PARSER, 'parser')
            d0 = p.field(e, ix['loop_depth'], 'u16').get(e)
            args = [Ref(Cell(p))]
            for (an, aty) in f.args[1:]:
                args.append(e.fresh(aty, 'arg_' + an))
            e.call(f, args)
            seen = e.path_state.get('depth_at_body', [])
            for d in seen:
                e.check(d == 0, f'Parser::{fname}: the body of the nested function is parsed with loop depth 0', {'enclosing_depth': str(d0)})
            d1 = p.field(e, ix['loop_depth'], 'u16').get(e)
            if seen:
                e.check(d1 == d0, f'Parser::{fname}: the loop depth of the enclosing function is restored once the body was parsed')
            return {'fn': fname, 'bodies': len(seen)}
        results = e.explore(path)
        for r in results:
            for lab, ok, info in list(r.checks):
                if not ok and 'parsed with loop depth 0' in lab:
                    res.fail(f'C15.K3:{fname}: the body of a nested function inherits the enclosing loop depth',
                             f'Parser::{fname} does not reset loop_depth: `break` / `continue` inside the nested function is accepted when the function sits in a loop, and the '
                             'compiler of the nested function panics (expect: "Parser should have caught the loop constraint")', info, replay=F51_REPLAY)
                    r.checks.remove((lab, ok, info))
        summarize_paths(res, e, results, lambda r: r.info if isinstance(r.info, dict) else None, key_prefix=f'C15.K3:{fname}:', unwind_ok=True)
        if not any(isinstance(r.info, dict) and r.info.get('bodies') for r in results if r.kind == 'ok'):
            res.inconclusive(f'vacuous: Parser::{fname} never reached fun_body')


# ---------------------------------------------------------------------------------------------- K1 the optimiser's run counters
F54_SRC = 'fn f() { let z = 7; if true {\n' + ''.join(f'let a{i} = {i};\n' for i in range(256)) + 'a0; } return z; }\nprint(f());\n'
F54_REPLAY = dict(kind='lay', source=F54_SRC, bad_re='panicked', bad_exit=[101, 134, -6])


@obligation('C15.K1.drop_run_counter', 'C15', programs=('vm',), also=('C12',))
def k1_drop_counter(res, tier):
    """peephole::drop, one iteration of its run loop from ANY counter value: merging one more Drop into the run never overflows the
    counter (the optimiser also runs on the instructions of a function that already has diagnostics, e.g. one with too many locals,
    whose scope exits emit more consecutive drops than a valid function can)"""
    from mirsym.engine import Engine
    from mirsym.mir import parsed_block
    P = get_program('vm')
    f = P.lookup('compiler::peephole::drop')
    if f is None:
        res.inconclusive('peephole::drop not located')
        return
    res.bounds = {'drops merged so far': 'any u8', 'next instruction': 'a Drop'}
    heads = [bb for bb in f.blocks if (lambda t: t[0] == 'call' and 'peek_next' in t[2])(parsed_block(f, bb)[1])]
    if len(heads) != 1:
        res.inconclusive('peephole::drop: loop head not found')
        return
    head = heads[0]
    cnt = f.debug.get('drop_count')
    # the loop condition may start with a test of the counter itself (a limit): then the iteration starts at that test
    for bb in f.blocks:
        stmts, term, _ = parsed_block(f, bb)
        txt = repr(stmts) + repr(term)
        if cnt and ("'" + cnt + "'") in txt and ('Lt' in txt or 'Ne' in txt or 'Le' in txt) and term[0] == 'switch' and bb != head:
            preds_to_head = head in repr(term) or True
            head = bb
            break
    e = Engine(P, loop_bound=3, timeout_s=60)
    INS = 'byte_code::SymbolicByteCode'
    ed = P.enum_def(INS)
    opt = P.enum_def('Option')
    e.model(r'^(compiler::)?(peephole::)?VecCursor::peek_next$', lambda e_, a, c: EnumV(norm_ty(c.dest_ty), 1, {'Some': {0: Cell(EnumV(INS, ed.vindex['Drop'], None, None, ed))}}, None, opt))
    e.allow_havoc(r'^(compiler::)?(peephole::)?VecCursor::(inc_reader|write|copy_cursors|read|peek)$')

    def path(e):
        k = z3.BitVec('drops_so_far', 8)
        e.add_constraint(z3.UGE(k, 1))

        def stop(eng, fr):
            if fr.visits[head] >= 2:
                raise PathEnd('stop', fr)
        e.bb_hooks[(f.key, head)] = stop
        ins = Ref(Cell(Opaque('VecCursor<SymbolicByteCode>', 'instructions')))
        lines = Ref(Cell(Opaque('VecCursor<u16>', 'lines')))
        preset = {cnt: k, f.args[0][0]: ins, f.args[1][0]: lines}
        try:
            e.exec_fn(f, [ins, lines], 0, None, start_bb=head, preset=preset)
        except PathEnd as pe:
            if pe.kind != 'stop':
                raise
        e.check(True, 'one more Drop merged into the run')
        return {'merged': 'one more'}
    results = e.explore(path)
    for r in results:
        if r.kind == 'panic' and 'overflow' in str(r.info):
            res.fail('C15.K1:the drop run counter overflows', 'peephole::drop counts a run of Drop instructions in a u8 without a limit: 256 consecutive drops (a function with too many '
                     'locals, already diagnosed) end the compiler in a host panic instead of the diagnostics', {'path': str(r.info)}, replay=F54_REPLAY)
        elif r.kind in ('oob', 'unreachable', 'ub', 'diverge', 'depth', 'panic'):
            res.fail(f'C15.K1:drop:{r.kind}', f'peephole::drop: path ends in {r.kind}: {str(r.info)[:200]}', {'path': str(r.info)})
    summarize_paths(res, e, results, lambda r: r.info if isinstance(r.info, dict) else None, key_prefix='C15.K1:drop:', unwind_ok=True, ok_kinds=('ok', 'panic', 'stop'))
