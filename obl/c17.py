"""C17 — modules run once and expose exactly their exports (import instruction kernels, module tree walk);
the compile-error arm of the import instructions also carries the C18 status clause."""
import re
import z3
from vfw.core import obligation, get_program, summarize_paths
from mirsym.engine import Engine
from mirsym.values import *
from mirsym.tys import *
from .vmabs import VmWorld, AbsObj, AbsGc, kind_of, object_of, install_gc_refs
from .c01 import END_KINDS, VALUE
from .c07 import _flat

BV64 = z3.BitVecSort(64)
is_exported = z3.Function('is_exported', BV64, BV64, z3.BoolSort())       # module id, name id
instance_of_module = z3.Function('module_instance', BV64, BV64)

F20_SRC = 'import self.bad;\nprint("after");\n'
F20_REPLAY = dict(kind='lay', source=F20_SRC, files={'bad.lay': 'let x = ;\n'}, bad_exit=[0],
                  note='importing a module that does not compile must end with a failing status')


class World:
    def __init__(self, P):
        self.P = P
        self.e = e = Engine(P, loop_bound=5, timeout_s=240, max_depth=60)
        self.W = W = VmWorld(e, P)
        W.havoc_objects(e)
        W.summarise_calls(e)
        # the module cache (a laythe Map over a hash map) is the subject: its methods run from MIR on the association-list model
        keep = []
        for rx in e.havoc:
            if '|Map|' in rx.pattern:
                keep.append(re.compile(rx.pattern.replace('|Map|', '|')))
            else:
                keep.append(rx)
        e.havoc = keep
        install_gc_refs(e, exclude=('Fiber',))
        self.install()

    def valsort(self, e):
        proto = e.memo.get('valproto')
        if proto is None:
            proto = e.fresh_seq(VALUE, NameBacking('valproto'), bv(0, 64))
            e.memo['valproto'] = proto
        return proto.arr.sort().range(), proto.tyname

    def exported_value(self, e, mod, name):
        so, ty = self.valsort(e)
        f = z3.Function('exported_value', BV64, BV64, so)
        return f(mod, name)

    def install(self):
        e, P, W = self.e, self.P, self.W
        m = e.model
        okind = P.enum_def('laythe_core::object::ObjectKind')
        ir = P.enum_def('vm::source_loader::ImportResult') or P.enum_def('ImportResult')
        self.ir = ir

        def mod_id(e_, v):
            while isinstance(v, Ref):
                o = e_.memo.get(('cellobj', id(v.cell)))
                if o is not None:
                    return o.id
                v = v.cell.get(e_)
            if isinstance(v, (AbsObj, AbsGc)):
                return v.id
            if isinstance(v, Struct):        # Ref<Module> materialised as a struct around an identity
                return object_of(e_, v).id
            raise Unsupported('module reference of type ' + type(v).__name__)
        self.mod_id = mod_id

        m(r'^(vm::)?Vm::full_import_path$', lambda e_, a, c: AbsObj(z3.BitVec('resolved_path', 64), 'LyStr'))
        m(r'^(vm::)?Vm::extract_import_path$', lambda e_, a, c: Opaque('Vec<LyStr>', 'segments'))
        m(r'^(vm::)?Vm::build_import$', lambda e_, a, c: Opaque('Ref<Import>', 'import'))
        m(r'^<(std::vec::|alloc::vec::)?Vec as (std::ops::|core::ops::)?Deref>::deref$',
          lambda e_, a, c: a[0] if not isinstance((a[0].cell.get(e_) if isinstance(a[0], Ref) else a[0]), Opaque) else Opaque('&[LyStr]', 'segments'), fallback=False)

        def m_read_string(e_, a, c):
            sid = z3.BitVec('symbol_name', 64)
            e_.add_constraint(kind_of(sid) == okind.vindex['String'])
            return AbsObj(sid, 'LyStr')
        m(r'^(vm::)?Vm::read_string$', m_read_string)

        def m_import_module(e_, a, c):
            e_.path_state['events'].append(('import_module',))
            kv = z3.BitVec('import_result', 64)
            e_.add_constraint(z3.ULT(kv, len(ir.variants)))
            k = e_.concretize(kv, list(range(len(ir.variants))))
            vn = ir.variants[k][0]
            if vn == 'Loaded':
                mod = e_.materialise('laythe_core::Ref<laythe_core::module::Module>', NameBacking('loaded_module'))
                return EnumV('ImportResult', k, {vn: {0: Cell(mod)}}, None, ir)
            if vn == 'Compiled':
                fun = e_.materialise('laythe_core::ObjRef<laythe_core::object::Fun>', NameBacking('compiled_fun'))
                return EnumV('ImportResult', k, {vn: {0: Cell(fun)}}, None, ir)
            return EnumV('ImportResult', k, None, None, ir)
        m(r'^(vm::)?Vm::import_module$', m_import_module)

        def m_module_instance(e_, a, c):
            mid = mod_id(e_, a[0])
            iid = instance_of_module(mid)
            e_.add_constraint(kind_of(iid) == okind.vindex['Instance'])
            return AbsObj(iid, 'Instance')
        m(r'^(laythe_core::)?(module::)?Module::module_instance$', m_module_instance)

        def m_get_exported(e_, a, c):
            mid = mod_id(e_, a[0])
            nid = object_of(e_, a[1]).id
            oty = norm_ty(c.dest_ty) if c.dest_ty else 'Option'
            e_.path_state['events'].append(('get_exported', mid, nid))
            if e_.fork_bool(is_exported(mid, nid)):
                so, ty = self.valsort(e_)
                return e_.mk_option(e_, oty, e_.materialise(VALUE, TermBacking(self.exported_value(e_, mid, nid), ty)))
            return e_.mk_option(e_, oty)
        m(r'^(laythe_core::)?(module::)?Module::get_exported_symbol_by_name$', m_get_exported)
        m(r'^(laythe_core::)?(module::)?Module::name$', lambda e_, a, c: AbsObj(z3.BitVec(e_.fresh_name('modname'), 64), 'LyStr'))

        def m_create_fiber(e_, a, c):
            e_.path_state['events'].append(('create_fiber', a[1], a[2]))
            return AbsGc(z3.BitVec(e_.fresh_name('import_fiber'), 64), 'fiber::Fiber')
        m(r'^(vm::)?Vm::create_fiber$', m_create_fiber)

        def m_push_back(e_, a, c):
            e_.path_state['events'].append(('queue_push', a[1]))
            return UNIT
        m(r'^(std::collections::)?(vec_deque::)?VecDeque::push_back$', m_push_back)

        # the working directory exists (Env::current_dir is Ok): a deleted cwd is an environment failure outside the property
        def m_current_dir(e_, a, c):
            return EnumV('Result<PathBuf, Error>', 0, {'Ok': {0: Cell(Opaque('PathBuf', 'cwd'))}}, None, P.enum_def('Result'))
        m(r'^(laythe_env::)?(\w+::)*Env::current_dir$', m_current_dir)

        def m_set_exit(e_, a, c):
            e_.path_state['outcome'] = ('set_exit', a[1])
            raise PathEnd('vm_exit', ('set_exit', str(a[1])))
        m(r'^(vm::)?Vm::set_exit$', m_set_exit)

    def cache(self, e, st):
        sd = self.P.struct_def('vm::Vm')
        i = sd.index_of('module_cache')
        return st.vm.field(e, i, sd.fields[i][1]).get(e)


def _cache_entries(Wd, e, cache):
    """[(key id, module id)] of the laythe Map wrapping the association list"""
    v = cache
    seen = 0
    while not hasattr(v, 'entries') and seen < 4:
        seen += 1
        if isinstance(v, Struct):
            sd = Wd.P.struct_def(v.ty)
            v = v.field(e, 0, subst_generics(sd.fields[0][1], sd, v.ty)).get(e)
        else:
            break
    if not hasattr(v, 'entries'):
        raise Unsupported('module cache is not a map: ' + type(v).__name__)
    out = []
    for k, c in v.entries:
        while isinstance(k, Ref):
            k = k.cell.get(e)
        out.append((object_of(e, k).id, Wd.mod_id(e, c.get(e))))
    return out


def _import_kernel(res, opname, with_symbol):
    P = get_program('vm')
    Wd = World(P)
    e, W = Wd.e, Wd.W
    f = P.lookup('vm::Vm::' + opname)
    oplen = 5 if with_symbol else 3
    import_key = W.field_key('vm::Vm', ['builtin', 'errors', 'import']) + '.id'

    def path(e):
        st = W.fresh_state(e)
        e.path_state['map_bound'] = 1
        cache = Wd.cache(e, st)
        before = _cache_entries(Wd, e, cache)
        resolved = z3.BitVec('resolved_path', 64)
        name = z3.BitVec('symbol_name', 64)
        sp0, ip0 = st.sp, st.ip
        outcome, sig = 'ok', None
        try:
            sig = e.call(f, [Ref(st.vm_cell)])
        except PathEnd as pe:
            if pe.kind not in END_KINDS:
                raise
            outcome = pe.kind
        ev = e.path_state['events']
        names = [x[0] for x in ev]
        after = _cache_entries(Wd, e, Wd.cache(e, st))
        hit = [m for k, m in before if e.is_valid(k == resolved)]
        sp1, ip1 = W.sp(e), W.ip(e)
        o = e.path_state['outcome']
        signame = sig.variant_name() if isinstance(sig, EnumV) else None
        imported = 'import_module' in names
        info = dict(op=opname, outcome=outcome, signal=signame, cache_hit=bool(hit), imported=imported)

        def pushed_is(term_fields):
            top = _flat(e, W.stack_at(e, z3.simplify(sp1 - 1)))
            return z3.And(*[x == y for x, y in zip(top, term_fields)])

        def instance_value(mid):
            v = e.materialise(VALUE, NameBacking(e.fresh_name('inst_value')))
            return v
        # ---- cache hit: no load, no second run
        if hit:
            e.check(not imported, f'{opname}: a module found in the cache is not looked up or loaded again')
            e.check('create_fiber' not in names, f'{opname}: a cached module is never run again')
            e.check(len(after) == len(before), f'{opname}: a cache hit leaves the cache unchanged')
        if 'create_fiber' in names:
            e.check(imported and signame == 'ContextSwitch', f'{opname}: a module body is started only for a freshly compiled module and the importer yields')
            e.check(ip1 == ip0 - 1, f'{opname}: the importer is rewound to retry this very instruction once the module has run', {'ip0': str(ip0), 'ip1': str(ip1)})
            e.check(sp1 == sp0, f'{opname}: nothing is pushed before the module has run')
            # parked = it stops running and is not queued itself; whether it is marked pending or blocked is the scheduler's
            # business (who may resume it: C17.K4)
            e.check(('sleep' in names or 'block' in names) and 'queue_push' in names, f'{opname}: the importer is parked and the module fiber is queued')
            cf = [x for x in ev if x[0] == 'create_fiber'][0]
            e.check(isinstance(cf[2], EnumV) and cf[2].tag == 1, f'{opname}: the module fiber has the importer as its parent (the importer continues only when it completes)')
            e.check(len(after) == len(before), f'{opname}: a module that has not run yet is not entered into the cache')
        if outcome == 'ok' and signame == 'Ok':
            e.check(sp1 == sp0 + 1, f'{opname}: exactly one value is pushed')
            e.check(ip1 == ip0 + (oplen - 1), f'{opname}: ip moves past the operands')
            if not hit:
                e.check(imported, f'{opname}: a value is produced only from a cached or a loaded module')
                mids = [m for k, m in after if e.is_valid(k == resolved)]
                e.check(len(mids) == 1 and len(after) == len(before) + 1, f'{opname}: a loaded module is cached under its fully resolved path')
        if outcome == 'vm_error':
            e.check(o is not None and o[0] == 'runtime_error' and import_key in str(o[1]) or (o is not None and import_key[:20] in str(o[1])),
                    f'{opname}: failures are import errors', {'outcome': str(o)})
            e.check(len(after) == len(before) or (imported and len(after) == len(before) + 1), f'{opname}: an error does not invent cache entries')
        if outcome == 'vm_exit' or signame == 'Exit':
            code = o[1] if (o and o[0] == 'set_exit') else None
            e.check(code is not None and e.is_valid(code != 0) if code is not None else False,
                    f'{opname}: a module that fails to compile ends the program with a failing status')
        if with_symbol and outcome == 'ok' and signame == 'Ok':
            ge = [x for x in ev if x[0] == 'get_exported']
            e.check(len(ge) == 1, f'{opname}: the symbol is taken from the export table')
            if ge:
                mid, nid = ge[0][1], ge[0][2]
                so, ty = Wd.valsort(e)
                want = _flat(e, e.materialise(VALUE, TermBacking(Wd.exported_value(e, mid, nid), ty)))
                e.check(z3.And(is_exported(mid, nid), nid == name, pushed_is(want)),
                        f'{opname}: the value pushed is the value the module exported under the requested name')
                if hit:
                    e.check(z3.Or(*[mid == m for m in hit]), f'{opname}: a cached lookup uses the cached module')
        return info
    results = e.explore(path)
    for r in results:
        if r.kind in ('panic', 'oob', 'unreachable', 'ub', 'diverge', 'depth'):
            s = str(r.info)
            if 'to_obj' in s or 'Expected object' in s or 'panic_fmt' in s:
                continue
            res.fail(f'C17.K2:{opname}:{r.kind}', f'{opname}: path ends in {r.kind}: {s[:200]}', {'path': s})
    summarize_paths(res, e, results, lambda r: r.info if isinstance(r.info, dict) else None, key_prefix=f'C17.K2:{opname}:', unwind_ok=False)
    for fd in res.findings:
        if 'fails to compile' in fd.key:
            fd.replay = F20_REPLAY


@obligation('C17.K2.op_import', 'C17', programs=('vm',), also=('C18',))
def k2_import(res, tier):
    """op_import from an arbitrary module cache with the loader summarised to its four outcomes: cached modules are not loaded or run
    again, a compiled module is run as a child of the importer which retries the instruction afterwards, a loaded module is cached
    under its resolved path, failures are import errors, a module that does not compile ends the program with a failing status"""
    res.bounds = {'module cache': 'arbitrary, <= 1 symbolic entry plus the inserted one', 'loader outcome': 'all four ImportResult variants'}
    res.assumptions = ['import_module summarised by its result; path strings are identities (interned, C09)', 'the working directory exists (Env::current_dir succeeds)']
    _import_kernel(res, 'op_import', False)


@obligation('C17.K2.op_import_symbol', 'C17', programs=('vm',), also=('C18',))
def k2_import_symbol(res, tier):
    """op_import_symbol: as op_import, and the value pushed is exactly what the module exported under the requested name; names
    that are not exported are import errors on the cached and on the freshly loaded path alike"""
    res.bounds = {'module cache': 'arbitrary, <= 1 symbolic entry', 'export table': 'uninterpreted (any)'}
    res.assumptions = ['import_module summarised by its result']
    _import_kernel(res, 'op_import_symbol', True)


has_child = z3.Function('has_child_module', BV64, BV64, z3.BoolSort())
child_of = z3.Function('child_module', BV64, BV64, BV64)

F10_REPLAY = dict(kind='lay', source='import self.x.y.z;\nprint("done");\n',
                  files={'x.lay': 'export let a = 1;\n', 'x/y.lay': 'export let b = 2;\n', 'x/y/z.lay': 'export let c = 3;\n'},
                  expect_stdout='done\n')


@obligation('C17.K1.find_missing_module', 'C17', programs=('vm',))
def k1_find_missing(res, tier):
    """find_missing_module over an arbitrary module tree (children as an uninterpreted function) and any path of up to 3 / 4 segments:
    it descends exactly along the path while the segments exist and splits the path at the first missing one"""
    P = get_program('vm')
    e = Engine(P, loop_bound=8, timeout_s=120, max_depth=40)
    VmWorld(e, P)
    install_gc_refs(e)
    f = P.lookup('find_missing_module')
    maxlen = 3 if tier == 'quick' else 4
    res.bounds = {'path length': f'0..{maxlen}', 'module tree': 'any (uninterpreted child relation)'}
    res.assumptions = ['precondition of the only caller: at least one segment of the path is missing (Package::import answered ModuleDoesNotExist)']

    def gid(e_, v):
        while isinstance(v, Ref):
            o = e_.memo.get(('cellobj', id(v.cell)))
            if o is not None:
                return o.id
            v = v.cell.get(e_)
        return v.id

    def m_get_module(e_, a, c):
        mid, nid = gid(e_, a[0]), object_of(e_, a[1]).id
        oty = norm_ty(c.dest_ty) if c.dest_ty else 'Option'
        e_.path_state['walk'].append((mid, nid))
        if e_.fork_bool(has_child(mid, nid)):
            return e_.mk_option(e_, oty, AbsGc(child_of(mid, nid), 'Module'))
        return e_.mk_option(e_, oty)
    e.model(r'^(laythe_core::)?(module::)?Module::get_module$', m_get_module)

    def path(e):
        nv = z3.BitVec('path_len', 64)
        e.add_constraint(z3.ULE(nv, maxlen))
        n = e.concretize(nv, list(range(maxlen + 1)))
        e.path_state['walk'] = []
        segs = [AbsObj(z3.BitVec(f'seg{i}', 64), 'LyStr') for i in range(n)]
        seq = ConcSeq('LyStr', [Cell(s) for s in segs])
        root = AbsGc(z3.BitVec('root_module', 64), 'Module')
        # expected walk
        cur = root.id
        exists = []
        for i in range(n):
            exists.append(has_child(cur, segs[i].id))
            cur = child_of(cur, segs[i].id)
        if n > 0:
            e.assume(z3.Not(z3.And(*exists)))          # some segment is missing
        r = e.call(f, [root, SliceRef(seq, bv(0, 64), bv(n, 64)), bv(0, 64)])
        mod = r.f[0].get(e)
        pair = r.f[1].get(e)
        found, rest = pair.f[0].get(e), pair.f[1].get(e)
        d_found = e.slice_len(found)
        d_rest = e.slice_len(rest)
        # depth d = number of leading segments that exist
        cur = root.id
        want_mod = root.id
        d = bv(0, 64)
        alive = z3.BoolVal(True)
        for i in range(n):
            alive = z3.And(alive, has_child(cur, segs[i].id))
            cur = child_of(cur, segs[i].id)
            want_mod = z3.If(alive, cur, want_mod)
            d = z3.If(alive, bv(i + 1, 64), d)
        e.check(gid(e, mod) == want_mod, 'find_missing_module: returns the deepest module that exists along the path', {'n': n})
        e.check(z3.And(d_found == d, d_rest == bv(n, 64) - d), 'find_missing_module: splits the path at the first missing segment', {'n': n})
        e.check(z3.And(found.start == 0, rest.start == d) if n > 0 else True, 'find_missing_module: the two parts are the prefix that exists and the remainder')
        return {'path_len': n, 'lookups': len(e.path_state['walk'])}
    results = e.explore(path)
    for r in results:
        if r.kind in ('panic', 'oob', 'unreachable', 'ub', 'diverge', 'depth'):
            res.fail(f'C17.K1:find_missing_module:{r.kind}', f'find_missing_module: path ends in {r.kind}: {str(r.info)[:200]}', {'path': str(r.info)}, replay=F10_REPLAY)
    summarize_paths(res, e, results, lambda r: r.info if isinstance(r.info, dict) else None, key_prefix='C17.K1:', unwind_ok=False)
    for fd in res.findings:
        fd.replay = F10_REPLAY


@obligation('C17.K2.full_import_path', 'C17', programs=('vm',))
def k2_full_path(res, tier):
    """Vm::full_import_path (the key of the module cache) for 1..3 path segments with arbitrary contents: the key is the segments
    joined by '/', the package segment included, so that modules of different packages or directories never share a cache entry"""
    from .vmabs import AbsStr, string_content, str_concat, lit, content_of, StrS, EMPTY
    P = get_program('vm')
    e = Engine(P, loop_bound=6, timeout_s=120, max_depth=40)
    W = VmWorld(e, P)
    W.havoc_objects(e)
    f = P.lookup('vm::Vm::full_import_path')
    res.bounds = {'segments': '1..3, arbitrary contents'}
    res.assumptions = ['string concatenation is uninterpreted (associative law not needed: the expected key is built in the same left-to-right order)']

    def m_push_char(e_, a, c):
        cell = a[0].cell
        cur = cell.get(e_)
        ch = conc(a[1])
        nxt = lit(chr(ch)) if ch is not None else z3.Const(e_.fresh_name('char'), StrS)
        cell.set(e_, AbsStr(nxt if cur.s.eq(EMPTY) else str_concat(cur.s, nxt)))
        return UNIT
    e.model(r'^(std::string::|alloc::string::)?String::push$', m_push_char)

    def path(e):
        st = W.fresh_state(e)
        nv = z3.BitVec('n_segments', 64)
        e.add_constraint(z3.And(z3.UGE(nv, 1), z3.ULE(nv, 3)))
        n = e.concretize(nv, [1, 2, 3])
        segs = [AbsObj(z3.BitVec(f'seg{i}', 64), 'LyStr') for i in range(n)]
        seq = ConcSeq('LyStr', [Cell(s) for s in segs])
        r = e.call(f, [Ref(st.vm_cell), SliceRef(seq, bv(0, 64), bv(n, 64))])
        want = None
        for i, s in enumerate(segs):
            c = string_content(e, s)
            want = c if want is None else str_concat(str_concat(want, lit('/')), c)
        got = string_content(e, object_of(e, r))
        e.check(got == want, 'full_import_path: the cache key is every segment of the path, the package included, joined by "/"', {'segments': n})
        return {'segments': n}
    results = e.explore(path)
    for r in results:
        if r.kind in ('panic', 'oob', 'unreachable', 'ub', 'diverge', 'depth'):
            res.fail(f'C17.K2:full_import_path:{r.kind}', f'full_import_path: path ends in {r.kind}: {str(r.info)[:200]}', {'path': str(r.info)})
    summarize_paths(res, e, results, lambda r: r.info if isinstance(r.info, dict) else None, key_prefix='C17.K2:', unwind_ok=False)


# ---------------------------------------------------------------------------------------------- loading a module file and the packages
F45_REPLAY = dict(kind='lay', source='import self.std as user;\nprint(user.mine);\nimport std.math;\nprint(math.abs(-3));\n', files={'std.lay': 'export let mine = 1;\n'},
                  expect_stdout='1\n3\n')


F75_REPLAY = dict(kind='repl', stdin='import self.syn;\nimport self.syn as again;\nprint(again);\nprint("end");\n', files={'syn.lay': 'export let x = ;\n'},
                  bad_re=r'<syn |<module|Pointer', note='the second import of a module that failed to compile must fail again, not bind an empty module object')
F76_REPLAY = dict(kind='lay', source='import self.util;\nimport std.util as u2;\nprint(u2.v);\n', files={'util.lay': 'print("util body");\nexport let v = 1;\n'},
                  expect_stdout='util body\n', bad_exit=[0], note='there is no std.util: the import must fail instead of loading ./util.lay a second time')


@obligation('C17.K2.only_own_package_loads_files', 'C17', programs=('vm',))
def k2_own_package(res, tier):
    """Vm::import_module from MIR with the package table and Package::import summarised (the package exists, the module is missing in
    it): the file loader is asked only when the package is the program's own (`self`) — a missing module of any other package (std) is
    not found, it is never looked up in the program's directory"""
    P = get_program('vm')
    e = Engine(P, loop_bound=4, timeout_s=120, max_depth=50)
    W = VmWorld(e, P)
    W.havoc_objects(e)
    install_gc_refs(e, exclude=('Fiber',))
    f = P.lookup('vm::Vm::import_module')
    res.bounds = {'package': 'any existing package', 'module': 'missing in it'}
    res.assumptions = ['the package exists and answers ModuleDoesNotExist (the other answers are decided by C17.K2.op_import)']
    ir = P.enum_def('vm::source_loader::ImportResult') or P.enum_def('ImportResult')
    ie = P.enum_def('laythe_core::module::ImportError') or P.enum_def('ImportError')
    RESd = P.enum_def('Result')

    def m_get(e_, a, c):
        oty = norm_ty(c.dest_ty) if c.dest_ty else 'Option'
        return e_.mk_option(e_, oty, Ref(Cell(e_.materialise('laythe_core::Ref<laythe_core::module::Package>', NameBacking('the_package')))))
    e.model(r'^(laythe_core::)?(object::)?(map::)?Map::get$', m_get)
    e.model(r'^(std::option::|core::option::)?Option::cloned$', lambda e_, a, c: e_.mk_option(e_, norm_ty(c.dest_ty), a[0].field(e_, 'Some', 0, None).get(e_).cell.get(e_)) if isinstance(a[0], EnumV) and a[0].tag == 1 else NotImplemented)

    def m_pkg_import(e_, a, c):
        oty = norm_ty(c.dest_ty) if c.dest_ty else 'Result'
        err = EnumV(ie.name, ie.vindex['ModuleDoesNotExist'], None, None, ie)
        return EnumV(oty, 1, {'Err': {0: Cell(err)}}, None, RESd)
    e.model(r'^(laythe_core::)?(module::)?(package::)?Package::import$', m_pkg_import)

    def m_load(e_, a, c):
        e_.path_state['file_loader_asked'] = True
        return EnumV(ir.name, ir.vindex['NotFound'], None, None, ir)
    e.model(r'^(vm::)?Vm::load_missing_module$', m_load)

    def m_str_eq(e_, a, c):
        b = e_.fork_bool(z3.Bool('package_is_self'))
        e_.path_state['compared'] = bool(b)
        return bool(b) if c.norm.endswith('eq') else (not bool(b))
    e.model(r'^core::str::traits::<impl (std::cmp::|core::cmp::)?PartialEq for str>::(eq|ne)$', m_str_eq)
    e.model(r'^<&?str as (std::cmp::|core::cmp::)?PartialEq(<.*>)?>::(eq|ne)$', m_str_eq)
    e.model(r'^<(laythe_core::)?(object::)?(\w+::)*LyStr as (std::cmp::|core::cmp::)?PartialEq<.*>>::(eq|ne)$', m_str_eq)
    e.allow_havoc(r'^(laythe_core::)?(module::)?(import::)?Import::\w+$', r'^<.* as (std::clone::|core::clone::)?Clone>::clone$',
                  r'^<(laythe_core::)?(object::)?(\w+::)*LyStr as (std::ops::|core::ops::)?Deref>::deref$')

    def path(e):
        st = W.fresh_state(e)
        imp = e.materialise('laythe_core::Ref<laythe_core::module::Import>', NameBacking('import'))
        e.call(f, [Ref(st.vm_cell), imp])
        asked = e.path_state.get('file_loader_asked', False)
        own = e.path_state.get('compared')            # None: the package name was never compared with `self`
        if asked:
            e.check(own is True, 'import_module: the file loader is asked only for a module of the program\'s own package', {'package compared with self': own})
        return {'file loader asked': asked, 'package is self': own}
    results = e.explore(path)
    for r in results:
        for lab, ok, info in list(r.checks):
            if not ok:
                res.fail('C17.K2:a missing module of another package is loaded from the program directory',
                         'import_module hands every missing module to the file loader, which resolves against the program\'s directory whatever the package: `import std.util` '
                         'loads ./util.lay (a second, independent module; its body runs again)', info, replay=F76_REPLAY)
                r.checks.remove((lab, ok, info))
        if r.kind in ('oob', 'unreachable', 'ub', 'diverge', 'depth', 'panic'):
            res.fail(f'C17.K2:import_module:{r.kind}', f'import_module: path ends in {r.kind}: {str(r.info)[:200]}', {'path': str(r.info)})
    summarize_paths(res, e, results, lambda r: r.info if isinstance(r.info, dict) else None, key_prefix='C17.K2:import_module:', unwind_ok=False)


@obligation('C17.K2.load_keeps_packages', 'C17', programs=('vm',))
def k2_load_keeps_packages(res, tier):
    """Vm::load_missing_module (a module file is read, registered under its parent module and compiled): the table of packages is the
    same afterwards - a module loaded from a file is reachable through its parent only and can neither add nor replace a package
    (`std`, `self`), whatever its name"""
    P = get_program('vm')
    e = Engine(P, loop_bound=5, timeout_s=120, max_depth=60)
    W = VmWorld(e, P)
    W.havoc_objects(e)
    install_gc_refs(e, exclude=('Fiber',))
    f = P.lookup('vm::Vm::load_missing_module')
    res.bounds = {'import path': 'any', 'file system': 'read succeeds or fails', 'compile': 'succeeds or fails'}
    res.assumptions = ['compile, the file system and the diagnostics printer are summarised by arbitrary results']
    e.allow_havoc(r'^(vm::)?Vm::compile$', r'^(vm::)?(source_loader::)?find_missing_module$', r'^(laythe_env::)', r'^(std::path::)?Path(Buf)?::\w+$', r'^<(std::path::)?PathBuf as .*>::\w+$',
                  r'^(std::ffi::)?(os_str::)?OsString::\w+$', r'^<.* as (std::clone::|core::clone::)?Clone>::clone$', r'^(source::)?(files::)?VmFiles::\w+$', r'^(source::)?Source::\w+$',
                  r'^(codespan_reporting::)?term::emit$', r'^(codespan_reporting::)?(term::)?(config::)?Config::\w+$', r'^<.*Config as .*Default>::default$', r'^(std|alloc|core)::fmt::',
                  r'^format$', r'Arguments::', r'^(cache::)?CacheIdEmitter::\w+$', r'^(vm::)?Vm::(push_root|pop_roots)$', r'^(laythe_core::)?(module::)?Package::\w+$',
                  r'^(laythe_core::)?(module::)?Module::new$', r'^(laythe_core::)?(object::)?(class::)?Class::with_inheritance$', r'^(laythe_core::)?(module::)?(import::)?Import::\w+$',
                  r'^<\[.*\] as .*>::\w+$', r'^(laythe_env::)?(\w+::)*(Fs|Io|Stdio)::\w+$',
                  r'^<(std::string::|alloc::string::)?String as .*>::\w+$', r'^(std::string::|alloc::string::)?String::\w+$')

    e.model(r'^(laythe_core::)?(hooks::)?(GcHooks|Hooks)::(push_root|pop_roots)$', lambda e_, a, c: UNIT)
    # find_missing_module hands back a non-empty remaining path when a module is missing (C17.K1.find_missing_module)
    e.model(r'^core::slice::<impl \[.*\]>::first$', lambda e_, a, c: e_.mk_option(e_, norm_ty(c.dest_ty) if c.dest_ty else 'Option', Ref(Cell(AbsObj(z3.BitVec('module_name', 64), 'LyStr')))))
    e.allow_havoc(r'^(laythe_core::)?(utils::)?IdEmitter::emit$', r'^(codespan_reporting::)?(term::)?emit$')
    # the parent has no module of that name: that is why it is being loaded (find_missing_module, C17.K1)
    RESd = P.enum_def('Result')
    def m_insert_module(e_, a, c):
        e_.path_state.setdefault('module_inserts', []).append(a[1])
        return EnumV(norm_ty(c.dest_ty) if c.dest_ty else 'Result', 0, {'Ok': {0: Cell(UNIT)}}, None, RESd)
    e.model(r'^(laythe_core::)?(module::)?Module::insert_module$', m_insert_module)

    def m_pk_insert(e_, a, c):
        e_.path_state.setdefault('package_inserts', []).append(a[1])
        return e_.mk_option(e_, norm_ty(c.dest_ty) if c.dest_ty else 'Option')
    e.model(r'^(laythe_core::)?(object::)?(map::)?Map::insert$', m_pk_insert)

    def path(e):
        st = W.fresh_state(e)
        pkg = e.materialise('laythe_core::Ref<laythe_core::module::Package>', NameBacking('existing_package'))
        imp = e.materialise('laythe_core::Ref<laythe_core::module::Import>', NameBacking('import'))
        r = None
        try:
            r = e.call(f, [Ref(st.vm_cell), pkg, imp])
        except PathEnd as pe:
            if pe.kind not in ('vm_error', 'vm_exit', 'internal_error'):
                raise
        ins = e.path_state.get('package_inserts', [])
        e.check(not ins, 'loading a module file does not add or replace a package', {'inserts': len(ins)})
        outcome = r.variant_name() if isinstance(r, EnumV) and isinstance(r.tag, int) else None
        mins = e.path_state.get('module_inserts', [])
        if outcome in ('CompileError', 'NotFound'):
            # a module whose file is missing or does not compile never ran: a later import must not find it as a loaded module
            e.check(not mins, 'a module that was not found or did not compile is not registered under its parent', {'outcome': outcome})
        elif outcome == 'Compiled':
            e.check(len(mins) == 1, 'a module that compiled is registered under its parent once (before its body runs: circular imports find it)')
        return {'package_inserts': len(ins), 'outcome': outcome}
    results = e.explore(path)
    for r in results:
        for lab, ok, info in list(r.checks):
            if not ok and 'does not add or replace a package' in lab:
                res.fail('C17.K2:a loaded module file is registered as a package under its bare name',
                         'Vm::module inserts every module it creates into the package table: a user file std.lay imported as self.std replaces the std package and every later '
                         'import of std.* fails (and `import a` works after `import self.a`)', info, replay=F45_REPLAY)
                r.checks.remove((lab, ok, info))
            elif not ok and 'not registered under its parent' in lab:
                res.fail('C17.K2:a module that did not compile stays registered under its parent',
                         'load_missing_module registers the module under its parent before it compiles it and leaves it there when the compilation fails: the next import of the '
                         'same path (interactive prompt) finds a loaded module whose body never ran and binds an empty module object', info, replay=F75_REPLAY)
                r.checks.remove((lab, ok, info))
        if r.kind in ('oob', 'unreachable', 'ub', 'diverge', 'depth'):
            res.fail(f'C17.K2:load_missing_module:{r.kind}', f'load_missing_module: path ends in {r.kind}: {str(r.info)[:200]}', {'path': str(r.info)})
    summarize_paths(res, e, results, lambda r: r.info if isinstance(r.info, dict) else None, key_prefix='C17.K2:load:', unwind_ok=True)
