"""C20 — garbage is reclaimed and heap accounting is exact after a collection (collector step over abstract handles);
C09 — interning; C05 — collector step frees exactly the unmarked (shared world in gcabs.py)."""
import z3
from vfw.core import obligation, get_program, summarize_paths
from mirsym.engine import Engine
from mirsym.values import *
from mirsym.tys import *
from .gcabs import GcWorld, Handle, size_of_id, ALLOC
from .vmabs import AbsObj, AbsStr, string_content, StrS, kind_of

BV64 = z3.BitVecSort(64)


def _engine(P):
    e = Engine(P, loop_bound=10, timeout_s=300, max_depth=80, max_paths=5000)
    W = GcWorld(e, P)
    return e, W


def _strip(e, v):
    while isinstance(v, Ref):
        v = v.cell.get(e)
    return v


def _intern_event(e):
    """make the intern-table sweep visible in the event order"""
    mdl = e.find_model('hashbrown::HashMap::retain')

    def m_retain(e_, a, c):
        e_.path_state['events'].append(('intern_sweep',))
        return mdl[0](e_, a, c)
    e.model(r'^(hashbrown::|std::collections::)?(hash_map::)?HashMap::retain$', m_retain)


def _collect_obligation(res, tier, prop, checks):
    P = get_program('core')
    e, W = _engine(P)
    _intern_event(e)
    f = P.lookup('Allocator::collect_garbage')
    n_old, n_nur, n_heap = (1, 2, 1) if tier == 'quick' else (2, 2, 2)

    def path(e):
        st = W.fresh_allocator(e, n_old, n_nur, n_heap, n_roots=1, n_strings=1)
        marks0 = W.marks(e)
        ctx = Ref(Cell(Opaque('Context', 'ctx')))
        e.call(f, [Ref(Cell(st.a)), ctx])
        ev = e.path_state['events']
        live = z3.Const('live_from_roots', z3.ArraySort(BV64, z3.BoolSort()))
        root_ids = [_strip(e, c.get(e)).id for c in W.field(e, st.a, 'temp_roots').cells]

        def marked_at_sweep(hid):
            return z3.Or(z3.Select(marks0, hid), z3.Select(live, hid), *[hid == r for r in root_ids])
        gc1 = st.gc_count0 + 1
        full = z3.URem(gc1, z3.BitVecVal(10, 128)) == 0
        obj_after = [c.get(e) for c in W.field(e, st.a, 'obj_heap').cells]
        nur_after = W.field(e, st.a, 'nursery_obj_heap').cells
        heap_after = [_strip(e, c.get(e)) for c in W.field(e, st.a, 'heap').cells]
        dropped = e.path_state['dropped']
        info = dict(old=n_old, nursery=n_nur, boxes=n_heap, survivors=len(obj_after), freed=len(dropped))
        checks(e, W, st, dict(marked=marked_at_sweep, full=full, obj_after=obj_after, nur_after=nur_after, heap_after=heap_after,
                              dropped=dropped, events=ev, root_ids=root_ids, info=info))
        return info
    results = e.explore(path)
    for r in results:
        if r.kind in ('panic', 'oob', 'unreachable', 'ub', 'diverge', 'depth'):
            res.fail(f'{prop}:collect:{r.kind}', f'collect_garbage: path ends in {r.kind}: {str(r.info)[:200]}', {'path': str(r.info)})
    summarize_paths(res, e, results, lambda r: r.info if isinstance(r.info, dict) else None, key_prefix=f'{prop}:', unwind_ok=False)


def _is_in(h, lst):
    return z3.Or(*[h.id == x.id for x in lst]) if lst else z3.BoolVal(False)


@obligation('C20.K3.accounting', 'C20', programs=('core',))
def k3_accounting(res, tier):
    """Allocator::collect_garbage on a heap of abstract handles with an arbitrary mark state: afterwards bytes_allocated equals the sum
    of the sizes of the surviving objects (both sweep kinds), next_gc is exactly twice that, survivors are unmarked again"""
    res.bounds = {'old objects': '1 (quick) / 2', 'nursery objects': 2, 'boxed allocations': '1 / 2', 'marks': 'arbitrary', 'gc_count': 'any (nursery and full sweeps)'}
    res.assumptions = ['handles are identities with a size and a mark bit; tracing marks an arbitrary superset of the temp roots']

    def checks(e, W, st, o):
        total = z3.BitVecVal(0, 64)
        for h in o['obj_after'] + o['heap_after']:
            total = total + size_of_id(h.id)
        bytes1 = W.field(e, st.a, 'bytes_allocated')
        e.check(z3.Implies(o['full'], bytes1 == total), 'full collection: bytes_allocated == sum of the sizes of the surviving objects', o['info'])
        e.check(z3.Implies(z3.Not(o['full']), bytes1 == total), 'nursery collection: bytes_allocated == sum of the sizes of the surviving objects (freed objects are not counted)', o['info'])
        e.check(W.field(e, st.a, 'next_gc') == 2 * bytes1, 'the next-collection threshold is exactly twice the live size (it tracks the live size, never drifts)')
        for h in o['obj_after'] + o['heap_after']:
            e.check(z3.Not(z3.Select(W.marks(e), h.id)), 'survivors are unmarked again for the next cycle')
        e.check(len(o['nur_after']) == 0, 'the nursery is empty after a collection (survivors are promoted)')
    _collect_obligation(res, tier, 'C20.K3', checks)


@obligation('C05.K2.collector_step', 'C05', programs=('core',))
def c05_collector(res, tier):
    """collect_garbage frees exactly the unmarked objects it is allowed to sweep, keeps every marked one, releases nothing twice,
    and only sweeps after all roots (context and temporary roots) have been traced"""
    res.bounds = {'old objects': '1 / 2', 'nursery objects': 2, 'boxed allocations': '1 / 2', 'temp roots': 1, 'marks': 'arbitrary'}
    res.assumptions = ['tracing is abstract: the context marks an arbitrary live set; per-type trace bodies are C05.K1']

    def checks(e, W, st, o):
        mk = o['marked']
        for h in st.nur:
            kept = _is_in(h, o['obj_after'])
            dropped = z3.Or(*[h.id == d for d in o['dropped']]) if o['dropped'] else z3.BoolVal(False)
            e.check(kept == mk(h.id), 'a nursery object survives exactly when it was marked')
            e.check(dropped == z3.Not(mk(h.id)), 'an unmarked nursery object is released')
        for h in st.old:
            kept = _is_in(h, o['obj_after'])
            e.check(z3.Implies(mk(h.id), kept), 'a marked old object is never released')
            e.check(z3.Implies(o['full'], kept == mk(h.id)), 'a full collection releases exactly the unmarked old objects')
        for h in st.heap:
            e.check(_is_in(h, o['heap_after']) == mk(h.id), 'a boxed allocation survives exactly when it was marked')
        e.check(len(set(str(d) for d in o['dropped'])) == len(o['dropped']), 'nothing is released twice')
        cache = W.field(e, st.a, 'intern_cache')
        for _, cell in cache.entries:
            sid = cell.get(e).id
            for d in o['dropped']:
                e.check(sid != d, 'no entry of the intern table points at a released string after the collection')
        names = [x[0] for x in o['events']]
        if 'unmark' in names:
            first_sweep = names.index('unmark')
            traces = [i for i, n in enumerate(names) if n in ('trace', 'trace_root')]
            e.check(bool(traces) and max(traces) < first_sweep, 'sweeping starts only after the context and every temporary root have been traced')
            e.check('trace_root' in names, 'the context roots are traced')
            traced = [x[1] for x in o['events'] if x[0] == 'trace']
            for rid in o['root_ids']:
                e.check(z3.Or(*[rid == t for t in traced if t is not None]) if traced else False, 'every temporary root is traced')
    _collect_obligation(res, tier, 'C05.K2', checks)


@obligation('C09.K1.intern_sweep', 'C09', programs=('core',))
def c09_intern_sweep(res, tier):
    """the intern table is pruned on every collection, after all roots are traced and before any object is released: an entry stays
    exactly when its string is marked, so no entry ever points at a released string and a live string is never un-interned"""
    res.bounds = {'interned strings': 1, 'objects': 'as C05.K2'}

    def checks(e, W, st, o):
        names = [x[0] for x in o['events']]
        e.check('intern_sweep' in names, 'every collection (nursery or full) prunes the intern table')
        if 'intern_sweep' in names:
            i = names.index('intern_sweep')
            traces = [k for k, n in enumerate(names) if n in ('trace', 'trace_root')]
            e.check(bool(traces) and max(traces) < i, 'the intern table is pruned only after every root (temporary roots included) has been traced')
            if 'unmark' in names:
                e.check(i < names.index('unmark'), 'the intern table is pruned before any object is released')
        cache = W.field(e, st.a, 'intern_cache')
        for key, cell in st.strings:
            sid = cell.get(e).id
            present = any(k is key for k, _ in cache.entries)
            e.check(z3.BoolVal(present) == o['marked'](sid), 'an interned string keeps its entry exactly when it is marked (reachable)')
    _collect_obligation(res, tier, 'C09.K1', checks)


@obligation('C05.K2.newborn_rooted', 'C05', programs=('core',))
def c05_newborn(res, tier):
    """collect_garbage_with_value: the object being allocated is a temporary root during the collection it triggers and the
    temporary root stack is balanced afterwards"""
    P = get_program('core')
    e, W = _engine(P)
    f = P.lookup('Allocator::collect_garbage_with_value')
    res.bounds = {'heap': '1 old, 1 nursery object'}

    def path(e):
        st = W.fresh_allocator(e, 1, 1, 0, n_roots=1)
        n0 = len(W.field(e, st.a, 'temp_roots').cells)
        item = AbsObj(z3.BitVec('newborn', 64), 'ObjectRef')
        e.call(f, [Ref(Cell(st.a)), Ref(Cell(Opaque('Context', 'ctx'))), item])
        traced = [x[1] for x in e.path_state['events'] if x[0] == 'trace']
        e.check(z3.Or(*[item.id == t for t in traced if t is not None]) if traced else False, 'the newborn object is traced as a root by the collection it triggers')
        e.check(len(W.field(e, st.a, 'temp_roots').cells) == n0, 'temporary roots are balanced after the collection')
        return {'fn': 'collect_garbage_with_value'}
    results = e.explore(path)
    for r in results:
        if r.kind in ('panic', 'oob', 'unreachable', 'ub', 'diverge', 'depth'):
            res.fail(f'C05.K2:newborn:{r.kind}', f'path ends in {r.kind}: {str(r.info)[:200]}', {'path': str(r.info)})
    summarize_paths(res, e, results, lambda r: r.info if isinstance(r.info, dict) else None, key_prefix='C05.K2:newborn:', unwind_ok=False)


def _install_alloc(e, W, P):
    """the per-type alloc(): a fresh identity (distinct from everything allocated before) with a symbolic size; the reference it
    returns names the same identity; a string's content is the content it was built from"""
    from .vmabs import content_of, str_term
    def m_alloc(e_, a, c):
        k = e_.path_state.get('n_alloc', 0)
        e_.path_state['n_alloc'] = k + 1
        hid = z3.BitVec(f'newobj{k}', 64)
        st = e_.path_state['gcst']
        for other in list(st.ids.values()):
            e_.add_constraint(hid != other)
        for key, cell in st.strings:
            e_.add_constraint(hid != cell.get(e_).id)
        st.ids[f'newobj{k}'] = hid
        e_.add_constraint(z3.ULT(size_of_id(hid), 1 << 32))
        e_.add_constraint(z3.Not(z3.Select(W.marks(e_), hid)))     # a fresh object is unmarked
        src = a[0]
        ref = AbsObj(hid, 'LyStr')
        try:
            e_.add_constraint(content_of(hid) == str_term(e_, src))
        except Unsupported:
            pass
        e_.path_state['events'].append(('alloc', hid))
        sd = P.struct_def('laythe_core::managed::allocate::AllocObjResult')
        ix = {nm: i for i, (nm, _) in enumerate(sd.fields)}
        s = Struct('laythe_core::managed::allocate::AllocObjResult<LyStr>', {}, None)
        s.f[ix['handle']] = Cell(Handle(hid, False))
        s.f[ix['size']] = Cell(size_of_id(hid))
        s.f[ix['reference']] = Cell(ref)
        return s
    e.model(r'^<.* as (laythe_core::)?(managed::)?(\w+::)?AllocateObj>::alloc$', m_alloc)
    e.model(r'^<.* as (std::convert::|core::convert::)?AsRef>::as_ref$', lambda e_, a, c: _strip(e_, a[0]))
    e.model(r'^<(laythe_core::)?(object::)?(ly_str::)?LyStr as (std::ops::|core::ops::)?Deref>::deref$',
            lambda e_, a, c: AbsStr(content_of(_strip(e_, a[0]).id)))


@obligation('C09.K1.manage_str', 'C09', programs=('core',), also=('C05',))
def c09_manage_str(res, tier):
    """Allocator::manage_str from an arbitrary consistent intern table (with or without a collection triggered by the allocation):
    equal content returns the one existing object and allocates nothing; new content returns a fresh object with that content which
    the table maps from then on (has_str finds exactly it) and which survives the collection its own allocation may trigger"""
    from .vmabs import content_of
    P = get_program('core')
    e, W = _engine(P)
    _intern_event(e)
    _install_alloc(e, W, P)
    f = P.lookup('Allocator::manage_str')
    g = P.lookup('Allocator::has_str')
    n_str = 1 if tier == 'quick' else 2
    res.bounds = {'interned strings before': n_str, 'nursery objects': 1, 'old objects': 1, 'string content/length': 'arbitrary (uninterpreted)',
                  'collection during the allocation': 'both (bytes_allocated vs next_gc symbolic)'}
    res.assumptions = ['table invariant assumed: keys pairwise distinct and each key equals the content of its string',
                       'alloc() returns a fresh identity whose content is the source text']

    def path(e):
        st = W.fresh_allocator(e, 1, 1, 0, n_roots=0, n_strings=n_str)
        e.path_state['gcst'] = st
        for key, cell in st.strings:
            e.add_constraint(key.s == content_of(cell.get(e).id))
        src = AbsStr(z3.Const('src', StrS))
        ctx = Ref(Cell(Opaque('Context', 'ctx')))
        nursery0 = len(W.field(e, st.a, 'nursery_obj_heap').cells)
        r = e.call(f, [Ref(Cell(st.a)), src, ctx])
        r = _strip(e, r)
        ev = e.path_state['events']
        allocs = [x[1] for x in ev if x[0] == 'alloc']
        collected = any(x[0] == 'trace_root' for x in ev)
        e.check(content_of(r.id) == src.s, 'the returned string has the requested content')
        existing = [cell.get(e).id for key, cell in st.strings]
        had = z3.Or(*[key.s == src.s for key, _ in st.strings]) if st.strings else z3.BoolVal(False)
        if not allocs:
            e.check(had, 'a string is only reused when the table already holds that content')
            e.check(z3.Or(*[z3.And(key.s == src.s, r.id == cell.get(e).id) for key, cell in st.strings]),
                    'equal content returns the one existing object')
            e.check(W.field(e, st.a, 'bytes_allocated') == st.bytes0, 'reusing an interned string allocates nothing')
        else:
            e.check(z3.Not(had), 'content that is already interned is never allocated a second time')
            e.check(len(allocs) == 1 and r.id is allocs[0] or r.id.eq(allocs[0]), 'new content returns the freshly allocated object')
            live = [c.get(e).id for c in W.field(e, st.a, 'nursery_obj_heap').cells + W.field(e, st.a, 'obj_heap').cells]
            e.check(z3.Or(*[r.id == x for x in live]) if live else False, 'the new string is owned by the heap (nursery or promoted)')
            for d in e.path_state['dropped']:
                e.check(r.id != d, 'the new string is not released by the collection its own allocation triggers')
            e.check(z3.Not(z3.Select(W.marks(e), r.id)), 'the new object is unmarked once the allocation returns (a stale mark would hide its children from the next collection)')
            n_owned = sum(1 for c in W.field(e, st.a, 'nursery_obj_heap').cells + W.field(e, st.a, 'obj_heap').cells if e.is_valid(c.get(e).id == r.id))
            e.check(n_owned == 1, 'the new object is owned by exactly one heap list')
        # the table afterwards: has_str (real code) finds exactly the returned object
        h = e.call(g, [Ref(Cell(st.a)), AbsStr(src.s)])
        e.check(isinstance(h, EnumV) and h.tag == 1, 'has_str finds the content afterwards')
        if isinstance(h, EnumV) and h.tag == 1:
            e.check(_strip(e, e.payload0(h, 'Some')).id == r.id, 'the table maps the content to exactly the returned object')
        cache = W.field(e, st.a, 'intern_cache')
        for key, cell in cache.entries:
            key = _strip(e, key)
            e.check(key.s == content_of(cell.get(e).id), 'every table key equals the content of its string (invariant preserved)')
        return {'reused': not allocs, 'collected': collected, 'entries': len(cache.entries)}
    results = e.explore(path)
    for r in results:
        if r.kind in ('panic', 'oob', 'unreachable', 'ub', 'diverge', 'depth'):
            res.fail(f'C09.K1:manage_str:{r.kind}', f'path ends in {r.kind}: {str(r.info)[:200]}', {'path': str(r.info)})
    summarize_paths(res, e, results, lambda r: r.info if isinstance(r.info, dict) else None, key_prefix='C09.K1:manage_str:', unwind_ok=False)
