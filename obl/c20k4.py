"""C20.K4 — a native that leaves with an error does not leave temporary roots behind.

Natives protect what they allocate with `hooks.push_root` and release it with `pop_roots` at the end of their body; the ones that
call back into the program leave early through `?` when the callback raises, without releasing.  `Allocator::temp_roots` is traced
at every collection and nobody else truncates it, so a root left behind keeps its object (and everything it reaches) alive for the
rest of the process although the program cannot reach it: after a full collection the runtime would hold more than the reachable
objects.  The boundary `Vm::call_native` is where this is settled: whatever the native returned, the number of temporary roots after
the call must be the number before it.  The native body is summarised by its result and an ARBITRARY number of roots left behind on
the error results (what a `?` after `push_root` does); on value results the natives themselves are balanced (debug assertion
`assert_roots`, and the sweep C05.K3 follows every push / pop)."""
import z3
from vfw.core import obligation, get_program, summarize_paths
from mirsym.engine import Engine
from mirsym.values import *
from mirsym.tys import *
from .vmabs import VmWorld, AbsObj

F66_SRC = ('let n = 0;\nlet i = 0;\nwhile i < 3000 {\n  try {\n    let big = [i, i, i, i, i, i, i, i, i, i, i, i, i, i, i, i];\n'
           '    [1].iter().each(|x| { raise Error("boom"); big; });\n  } catch e: Error {\n    n = n + 1;\n  }\n  i = i + 1;\n}\nprint(n);\n')


@obligation('C20.K4.native_error_releases_roots', 'C20', programs=('vm',), also=('C05',))
def k4_native_roots(res, tier):
    """Vm::call_native from MIR for both native environments, the native summarised by its result (value / error / exit) and, on the
    error result, by any number of temporary roots it pushed and did not release: when call_native hands the error to the fiber
    the number of temporary roots is the one before the call"""
    from .c01 import END_KINDS
    P = get_program('vm')
    e = Engine(P, loop_bound=5, timeout_s=240, max_depth=60)
    W = VmWorld(e, P)
    W.havoc_objects(e)
    W.summarise_calls(e)
    res.bounds = {'roots left behind by the native on an error': 'any number < 2^16', 'native environment': 'StackLess and Normal', 'frames': 'any below the limit'}
    res.assumptions = ['on value results the native released what it pushed (assert_roots in debug builds; C05.K3 follows the pushes and pops of every native)',
                       'the native body is summarised by its result', 'the signature gate lets the call through (C16.K1)']
    opt = P.enum_def('Option')
    RES = P.enum_def('Result')
    le = P.enum_def('laythe_core::LyError') or P.enum_def('LyError')
    e.model(r'^(vm::)?Vm::(check_arity|check_native_arity)$', lambda e_, a, c: EnumV('Option<ExecutionSignal>', 0, None, None, opt))
    e.model(r'^(vm::)?Vm::push_frame$', lambda e_, a, c: UNIT)
    e.model(r'^(vm::)?Vm::pop_frame$', lambda e_, a, c: EnumV('Option<ExecutionSignal>', 0, None, None, opt))
    e.allow_havoc(r'^(fiber::)?Fiber::stack_slice$', r'^(vm::)?(ops::)?assert_roots$',
                  r'^(std|core|alloc)::slice::<impl \[.*\]>::to_vec$', r'^(std::option::|core::option::)?Option::unwrap_or_else$', r'^(fiber::)?Fiber::(push|drop_n)$')
    e.models = [m_ for m_ in e.models if not any(x in m_[2] for x in ('push_root', 'pop_roots'))]
    e.havoc = [rx for rx in e.havoc if not any(x in rx.pattern for x in ('push_root', 'pop_roots', 'Vm::gc'))]

    def roots(e_):
        return e_.path_state['roots']

    def m_push(e_, a, c):
        e_.path_state['roots'] = z3.simplify(roots(e_) + 1)
        return UNIT
    e.model(r'^(vm::)?Vm::push_root$', m_push)
    e.model(r'^<(vm::)?Vm as (laythe_core::)?(\w+::)*GcContext>::push_root$', m_push)

    def m_pop(e_, a, c):
        n = a[1]
        n = n if z3.is_bv(n) else bv(int(n), 64)
        e_.check(z3.ULE(n, roots(e_)), 'pop_roots never releases more roots than there are')
        e_.path_state['roots'] = z3.simplify(roots(e_) - n)
        return UNIT
    e.model(r'^(vm::)?Vm::pop_roots$', m_pop)
    e.model(r'^<(vm::)?Vm as (laythe_core::)?(\w+::)*GcContext>::pop_roots$', m_pop)
    # the allocator behind the RefCell: only the count of its temporary roots matters here
    e.model(r'^(vm::)?Vm::gc$', lambda e_, a, c: Opaque('Allocator', 'allocator'))
    e.model(r'^<(vm::)?Vm as (laythe_core::)?(\w+::)*GcContext>::gc$', lambda e_, a, c: Opaque('Allocator', 'allocator'))
    e.model(r'^(laythe_core::)?(allocator::)?Allocator::temp_roots$', lambda e_, a, c: roots(e_))
    e.model(r'^<(std::cell::|core::cell::)?Ref(Mut)? as (std::ops::|core::ops::)?Deref(Mut)?>::deref(_mut)?$', lambda e_, a, c: a[0] if not isinstance(a[0], Ref) else a[0])
    e.allow_havoc(r'^(std::ptr::|core::ptr::)?drop_in_place$', r'^<(std::cell::|core::cell::)?Ref(Mut)? as (std::ops::|core::ops::)?Drop>::drop$')

    def m_native_call(e_, a, c):
        kv = z3.BitVec('native_result', 64)
        e_.add_constraint(z3.ULE(kv, 2))
        k = e_.concretize(kv, [0, 1, 2])
        e_.path_state['native_result'] = k
        if k == 0:
            return EnumV('Result<Value, LyError>', 0, {'Ok': {0: Cell(e_.fresh('laythe_core::value::Value', 'native_value'))}}, None, RES)
        left = z3.BitVec('roots_left_behind', 64)
        e_.add_constraint(z3.ULT(left, 1 << 16))
        e_.path_state['roots'] = z3.simplify(roots(e_) + left)
        if k == 1:
            err = EnumV('LyError', le.vindex['Exit'], {'Exit': {0: Cell(z3.BitVec('exit_code', 16))}}, None, le)
        else:
            err = EnumV('LyError', le.vindex['Err'], {'Err': {0: Cell(Opaque('Instance', 'raised'))}}, None, le)
        return EnumV('Result<Value, LyError>', 1, {'Err': {0: Cell(err)}}, None, RES)
    e.model(r'^(laythe_core::)?(object::)?(native::)?Native::call$', m_native_call)

    def m_set_exit(e_, a, c):
        raise PathEnd('vm_exit', ('set_exit',))
    e.model(r'^(vm::)?Vm::set_exit$', m_set_exit)

    def m_set_error(e_, a, c):
        e_.path_state['at_error'] = roots(e_)
        raise PathEnd('vm_error', ('set_error',))
    e.model(r'^(vm::)?Vm::set_error$', m_set_error)
    f = P.lookup('vm::Vm::call_native')

    def path(e):
        st = W.fresh_state(e)
        frames = st.fiber.f[W.fib_idx['frames']].get(e)
        e.add_constraint(z3.ULT(frames.len, 255))
        r0 = z3.BitVec('roots_before', 64)
        e.add_constraint(z3.ULT(r0, 1 << 32))
        e.path_state['roots'] = r0
        outcome = 'ok'
        try:
            e.call(f, [Ref(st.vm_cell), AbsObj(z3.BitVec('native', 64), 'ObjRef<Native>'), z3.BitVec('argc', 8)])
        except PathEnd as pe:
            if pe.kind not in END_KINDS:
                raise
            outcome = pe.kind
        k = e.path_state.get('native_result')
        if k == 2:
            e.check(outcome == 'vm_error', 'an error raised by a native is handed to the fiber')
            if outcome == 'vm_error':
                e.check(e.path_state['at_error'] == r0, 'call_native: when a native leaves with an error the temporary roots it left behind are released',
                        {'roots left': str(z3.simplify(e.path_state['at_error'] - r0))})
        elif k == 0:
            e.check(roots(e) == r0, 'call_native itself pushes and pops its own roots in pairs')
        return {'native_result': k, 'outcome': outcome}
    results = e.explore(path)
    seen = False
    for r in results:
        for lab, ok, info in list(r.checks):
            if not ok and 'left behind are released' in lab:
                if not seen:
                    seen = True
                    res.fail('C20.K4:roots left behind by a native that raised stay registered',
                             'natives that call back leave through `?` with their roots still pushed; call_native hands the error on without releasing them, so each caught '
                             'error keeps one more object (and what it reaches) alive for the rest of the process', info,
                             replay=dict(kind='none', note='growth of the resident set with the number of caught errors: see seeded/F66*/demo.lay (3000 iterations leak 3000 roots)'))
                r.checks.remove((lab, ok, info))
        if r.kind in ('oob', 'unreachable', 'ub', 'diverge', 'depth', 'panic'):
            res.fail(f'C20.K4:call_native:{r.kind}', f'call_native: path ends in {r.kind}: {str(r.info)[:200]}', {'path': str(r.info)})
    summarize_paths(res, e, results, lambda r: r.info if isinstance(r.info, dict) else None, key_prefix='C20.K4:', unwind_ok=False)
