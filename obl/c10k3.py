"""C10.K3 — a list that moved is followed by the rewriting of stale references.

Growing a list allocates a new block and leaves a forwarding stub behind; references on the fiber's stack still hold the old
address until `Hooks::scan_roots` rewrites them (`Fiber::scan_roots`).  Every native that can grow its receiver therefore asks
`has_moved()` AFTER the growing call and rewrites the roots when the answer is yes; asking before the call (or not at all) leaves
the stale address on the stack, where the next instruction stores it into other objects.  Each list native runs from MIR with the
growing calls, `has_moved` and `scan_roots` as events; on every solver-feasible path the events must be ordered
grow ... has_moved [-> scan_roots when it answered yes]."""
import re
import z3
from vfw.core import obligation
from mirsym.values import *
from mirsym.tys import *
from .vmabs import object_of
from .c16natives import NativeCastWorld, native_table, _call_fn, _arg_shapes
from .c01 import VALUE


def _world():
    W = NativeCastWorld()
    e, P = W.e, W.P

    def recv_is(e_, v):
        try:
            o = object_of(e_, v)
        except Unsupported:
            return False
        r = e_.path_state.get('receiver_id')
        return r is not None and e_.is_valid(o.id == r)

    def m_grow(e_, a, c):
        if not recv_is(e_, a[0]):
            return NotImplemented
        e_.path_state['order'].append(('grow', c.norm.split('::')[-1]))
        if c.norm.endswith('push'):
            return UNIT
        return e_.fresh(norm_ty(c.dest_ty), e_.fresh_name('insert_result')) if c.dest_ty else UNIT
    e.model(r'^(laythe_core::)?(object::)?(list::)?List::(push|insert)$', m_grow)

    def m_moved(e_, a, c):
        if not recv_is(e_, a[0]):
            return NotImplemented
        k = len(e_.path_state['order'])
        b = e_.fork_bool(z3.Bool(f'list_has_moved_{k}'))
        e_.path_state['order'].append(('moved', bool(b)))
        return bool(b)
    e.model(r'^(laythe_core::)?(object::)?(list::)?List::has_moved$', m_moved)

    def m_scan(e_, a, c):
        e_.path_state['order'].append(('scan',))
        return UNIT
    e.model(r'^(laythe_core::)?(hooks::)?(Hooks|GcHooks)::scan_roots$', m_scan)
    return W


@obligation('C10.K3.growth_then_root_rewrite', 'C10', programs=('vm',), also=('C11',))
def k3_growth_then_rewrite(res, tier):
    """every native of the List class, from MIR, any arguments the signature admits: on every path on which the receiver may have been
    grown (List::push / List::insert on the receiver), has_moved() is asked after the last such call and scan_roots runs when it answers
    yes — the stale addresses on the stack are rewritten before the program can copy them"""
    NW = NativeCastWorld()
    P = NW.P
    extra = 1
    decided, outside = [], []
    res.bounds = {'variadic arguments': f'0..{extra}', 'paths per native': '<= 400'}
    res.assumptions = ['List::push / List::insert are the only calls that relocate a list (the two List methods that take GC hooks; read from laythe_core/src/object/list.rs and checked here)',
                       'arguments constrained by the signature only (C16.K1)']
    core_src = P.items.files.get('laythe_core/src/object/list.rs', '')
    growers = set(re.findall(r'pub fn (\w+)\([^)]*hooks: &GcHooks', core_src))
    if growers != {'push', 'insert'}:
        res.inconclusive(f'the relocating methods of List are {sorted(growers)}, the obligation models push and insert')
        return
    res.checks += 1
    units = []
    for ent in native_table(P):
        if ent['meta'] is None or not ent['file'].endswith('primitives/list.rs') or not ent['meta']['is_method']:
            continue
        src = P.items.files[ent['file']]
        mm = re.search(r'^impl LyNative for ' + ent['struct'] + r'\b.*?^\}', src, re.M | re.S)
        if not mm or not re.search(r'\.(push|insert)\s*\(', mm.group(0)):
            continue            # no call of a relocating method in the body (textual pre-filter; helper calls are rare in list.rs)
        f = _call_fn(P, ent['file'], ent['struct'])
        if f is not None:
            units.append((ent, f))
    for ent, f in units:
        label = ent['struct']
        W = _world()
        e = W.e
        meta = ent['meta']
        shapes = _arg_shapes(meta, extra)
        sds = [d for d in P.items.structs.get(label, []) if d.file == ent['file']]

        def path(e, ent=ent, f=f):
            W.W.fresh_state(e)
            e.path_state['casts'] = []
            e.path_state['order'] = []
            me = Struct(label, None, NameBacking('native_self')) if sds and sds[0].fields else Struct(label, {}, None)
            hooks = Ref(Cell(Opaque('Hooks', 'hooks')))
            if len(shapes) > 1:
                sv = z3.BitVec('shape', 64)
                e.add_constraint(z3.ULT(sv, len(shapes)))
                si = e.concretize(sv, list(range(len(shapes))))
            else:
                si = 0
            kinds = list(shapes[si])
            v = e.fresh(VALUE, 'receiver')
            W.constrain(e, v, 'List')
            vals = [v]
            from .c01 import ValView
            ro = ValView(e, P, v).obj
            ro = ro() if callable(ro) else ro
            e.path_state['receiver_id'] = ro.id
            for j, k in enumerate(kinds):
                x = e.fresh(VALUE, f'arg{j}')
                W.constrain(e, x, k)
                vals.append(x)
            args = ConcSeq('Value', [Cell(x) for x in vals])
            e.call(f, [Ref(Cell(me)), hooks, SliceRef(args, bv(0, 64), bv(len(vals), 64))])
            order = e.path_state['order']
            grows = [i for i, ev in enumerate(order) if ev[0] == 'grow']
            if grows:
                after = order[grows[-1] + 1:]
                asked = [i for i, ev in enumerate(after) if ev[0] == 'moved']
                e.check(bool(asked), f'{label}: has_moved() is asked after the receiver may have grown', {'events': [ev[0] for ev in order]})
                if asked and after[asked[-1]][1]:
                    e.check(any(ev[0] == 'scan' for ev in after[asked[-1]:]), f'{label}: a receiver that moved is followed by scan_roots', {'events': [ev[0] for ev in order]})
            return {'unit': label, 'grows': len(grows), 'events': len(order)}
        try:
            results = e.explore(path)
        except Unsupported as ex:
            outside.append(f'{label}: {str(ex)[:140]}')
            continue
        unsup = [r for r in results if r.kind in ('unsupported', 'budget')]
        seen = set()
        for r in results:
            for lab, okc, info in r.checks:
                res.checks += 1
                if not okc and lab not in seen:
                    seen.add(lab)
                    res.fail(f'C10.K3:{label}: the receiver grows without the roots being rewritten afterwards', lab + ' fails', info)
        res.absorb(e)
        res.paths += len(results)
        oks = [r for r in results if r.kind == 'ok' and isinstance(r.info, dict)]
        if any(r.info.get('grows') for r in oks):
            res.nontrivial += 1
            decided.append(label + (' (some paths not encoded)' if unsup else ''))
        elif unsup:
            outside.append(f'{label}: {str(unsup[0].info)[:160]}')
    res.bounds['natives that grow their receiver (decided)'] = decided
    res.bounds['list natives examined'] = len(units)
    if not decided:
        res.inconclusive('no list native with a growing path was decided')
    res.outside = (res.outside or []) + ['not encoded: ' + x for x in outside]
