"""C01 — expressions, operators and control flow evaluate per the source semantics (VM kernels)."""
import z3
from vfw.core import obligation, get_program, summarize_paths
from mirsym.engine import Engine
from mirsym.values import *
from .vmabs import VmWorld, AbsObj, kind_of, string_content, str_concat, str_cmp, content_of

VALUE = 'laythe_core::value::Value'
END_KINDS = ('vm_error', 'vm_exit', 'internal_error')


QNAN = 0x7ffc_0000_0000_0000
TAG_OBJ = 0xc000_0000_0000_0000 | QNAN


class NanValView:
    """reference decoding of a NaN-boxed Value from the documented bit layout"""

    def __init__(self, e, P, v):
        bits = v.field(e, 0, 'u64').get(e)
        self.bits = bits
        self.is_num = (bits & QNAN) != QNAN
        self.is_nil = bits == (QNAN | 1)
        self.is_bool = z3.Or(bits == (QNAN | 2), bits == (QNAN | 3))
        self.boolean = bits == (QNAN | 3)
        self.is_undef = bits == (QNAN | 4)
        self.is_obj = (bits & TAG_OBJ) == TAG_OBJ
        self.num = z3.fpBVToFP(bits, F64)
        self.obj = AbsObj(bits & ~z3.BitVecVal(TAG_OBJ, 64), 'ObjectRef')
        self.tag = None

    def well_formed(self):
        canonical_nan = z3.Or(self.bits == 0x7ff8000000000000, self.bits == 0xfff8000000000000)
        return z3.And(z3.Or(self.is_num, self.is_nil, self.is_bool, self.is_undef, self.is_obj),
                      z3.Implies(self.is_obj, z3.And(self.obj.id != 0, (self.obj.id & 7) == 0)),
                      z3.Implies(z3.And(self.is_num, z3.fpIsNaN(self.num)), canonical_nan))

    def is_kind(self, P, kname):
        k = P.enum_def('laythe_core::object::ObjectKind').vindex[kname]
        return z3.And(self.is_obj, kind_of(self.obj.id) == k)

    def falsey(self):
        return z3.Or(self.is_nil, z3.And(self.is_bool, z3.Not(self.boolean)))


def ValView(e, P, v):
    if 'nan_boxing' in P.features:
        vw = NanValView(e, P, v)
        return vw
    return EnumValView(e, P, v)


class EnumValView:
    """reference reading of an enum-represented Value (tag + payload), independent of Value's own methods"""

    def __init__(self, e, P, v):
        vd = P.enum_def(VALUE)
        self.vd = vd
        self.v = v
        t = v.tag if not isinstance(v.tag, int) else bv(v.tag, 64)
        self.tag = t
        ix = vd.vindex
        self.is_num = t == ix['Number']
        self.is_bool = t == ix['Bool']
        self.is_nil = t == ix['Nil']
        self.is_undef = t == ix['Undefined']
        self.is_obj = t == ix['Obj']
        self._e = e

    @property
    def num(self):
        return self.v.field(self._e, 'Number', 0, 'f64').get(self._e)

    @property
    def boolean(self):
        return to_z3_bool(self.v.field(self._e, 'Bool', 0, 'bool').get(self._e))

    @property
    def obj(self):
        return self.v.field(self._e, 'Obj', 0, 'laythe_core::ObjectRef').get(self._e)

    def is_kind(self, P, kname):
        k = P.enum_def('laythe_core::object::ObjectKind').vindex[kname]
        return z3.And(self.is_obj, kind_of(self.obj.id) == k)

    def falsey(self):
        return z3.Or(self.is_nil, z3.And(self.is_bool, z3.Not(self.boolean)))

    def well_formed(self):
        return z3.BoolVal(True)


def _run_op(opname, check_fn, res, tier, program='vm', nops=2):
    P = get_program(program)
    e = Engine(P, loop_bound=6, timeout_s=120, max_depth=60)
    W = VmWorld(e, P)
    W.havoc_objects(e)
    f = P.lookup('vm::Vm::' + opname)
    rt_key = W.field_key('vm::Vm', ['builtin', 'errors', 'runtime']) + '.id'

    def path(e):
        st = W.fresh_state(e)
        ops = []
        for i in range(nops):
            v = st.stack.load(e, z3.simplify(st.sp - 1 - i))
            vv = ValView(e, P, v)
            e.assume(z3.Not(vv.is_undef))     # Undefined never reaches an operator (module-symbol reads raise first)
            e.assume(vv.well_formed())
            ops.append(vv)
        # ops[0] is the top of the stack (right operand), ops[1] the one below (left operand)
        outcome = 'ok'
        try:
            sig = e.call(f, [Ref(st.vm_cell)])
        except PathEnd as pe:
            if pe.kind not in END_KINDS:
                raise
            outcome = pe.kind
            sig = None
        sp2, ip2 = W.sp(e), W.ip(e)
        q = z3.BitVec('q_frame', 64)
        lowest = z3.simplify(st.sp - nops)
        e.check(z3.Implies(z3.ULT(q, lowest), z3.Select(st.stack.arr, q) == z3.Select(st.stack0, q)),
                'stack below the operands untouched')
        return check_fn(e, P, W, st, ops, outcome, sig, sp2, ip2, rt_key)

    results = e.explore(path)
    for r in results:
        if r.kind in ('panic', 'oob', 'unreachable', 'ub', 'diverge', 'depth'):
            res.fail(f'{res.id}:{opname}:{r.kind}', f'{opname} can end in {r.kind}: {r.info}', {'path': str(r.info)})
    summarize_paths(res, e, results, lambda r: {'op': opname, 'case': r.info} if isinstance(r.info, dict) else None,
                    key_prefix=f'{res.id}:{opname}:', unwind_ok=False)


def _signal_is(sig, name):
    return isinstance(sig, EnumV) and sig.variant_name() == name


def _result_view(e, P, W, sp2):
    return ValView(e, P, W.stack_at(e, z3.simplify(sp2 - 1)))


def _both(a, b, pred):
    return z3.And(pred(a), pred(b))


def _check_error(e, st, outcome, rt_key, expected_when, what):
    """on an error path the operands must be ones for which the language prescribes the runtime error"""
    o = e.path_state['outcome']
    e.check(o is not None and o[0] == 'runtime_error', f'{what}: wrong operand kinds end in a runtime error (got {o and o[0]})')
    if o and o[0] == 'runtime_error':
        e.check(o[1] == rt_key, f'{what}: error class is the documented RuntimeError', {'class': o[1]})
        e.check(o[2] is not None and len(o[2]) > 0, f'{what}: error carries a message')
    e.check(expected_when, f'{what}: error raised only for operand kinds without a defined result')


ARITH = {'op_add': lambda a, b: z3.fpAdd(RNE, a, b), 'op_sub': lambda a, b: z3.fpSub(RNE, a, b),
         'op_mul': lambda a, b: z3.fpMul(RNE, a, b), 'op_div': lambda a, b: z3.fpDiv(RNE, a, b)}


def _arith_check(opname):
    def chk(e, P, W, st, ops, outcome, sig, sp2, ip2, rt_key):
        r, l = ops[0], ops[1]
        both_num = z3.And(l.is_num, r.is_num)
        both_str = z3.And(l.is_kind(P, 'String'), r.is_kind(P, 'String')) if opname == 'op_add' else z3.BoolVal(False)
        e.check(ip2 == st.ip, f'{opname}: consumes no operand bytes')
        if outcome != 'ok':
            _check_error(e, st, outcome, rt_key, z3.Not(z3.Or(both_num, both_str)), opname)
            return {'outcome': 'error', 'msg': e.path_state['outcome']}
        e.check(_signal_is(sig, 'Ok'), f'{opname}: signals Ok')
        e.check(sp2 == st.sp - 1, f'{opname}: two operands replaced by one result')
        res = _result_view(e, P, W, sp2)
        e.check(z3.Or(both_num, both_str), f'{opname}: a value is produced only for two numbers' + (' or two strings' if opname == 'op_add' else ''))
        e.check(z3.Implies(both_num, z3.And(res.is_num, res.num == ARITH[opname](l.num, r.num))),
                f'{opname}: IEEE result of left op right (operand order)')
        if opname == 'op_add':
            if e.sat(both_str):
                lc, rc = string_content(e, l.obj), string_content(e, r.obj)
                e.check(z3.Implies(both_str, z3.And(res.is_kind(P, 'String'), content_of(res.obj.id) == str_concat(lc, rc))),
                        'op_add: string concatenation left then right')
        return {'outcome': 'value'}
    return chk


CMPS = {'op_less': (z3.fpLT, lambda c: c == 0), 'op_less_equal': (z3.fpLEQ, lambda c: z3.ULE(c, 1)),
        'op_greater': (z3.fpGT, lambda c: c == 2), 'op_greater_equal': (z3.fpGEQ, lambda c: z3.UGE(c, 1))}


def _cmp_check(opname):
    fpop, strpred = CMPS[opname]

    def chk(e, P, W, st, ops, outcome, sig, sp2, ip2, rt_key):
        r, l = ops[0], ops[1]
        both_num = z3.And(l.is_num, r.is_num)
        both_str = z3.And(l.is_kind(P, 'String'), r.is_kind(P, 'String'))
        e.check(ip2 == st.ip, f'{opname}: consumes no operand bytes')
        if outcome != 'ok':
            _check_error(e, st, outcome, rt_key, z3.Not(z3.Or(both_num, both_str)), opname)
            return {'outcome': 'error', 'msg': e.path_state['outcome']}
        e.check(_signal_is(sig, 'Ok'), f'{opname}: signals Ok')
        e.check(sp2 == st.sp - 1, f'{opname}: two operands replaced by one result')
        res = _result_view(e, P, W, sp2)
        e.check(z3.Or(both_num, both_str), f'{opname}: a value is produced only for two numbers or two strings')
        e.check(res.is_bool, f'{opname}: result is a boolean')
        e.check(z3.Implies(both_num, res.boolean == fpop(l.num, r.num)), f'{opname}: IEEE comparison of left with right (NaN compares false)')
        if e.sat(both_str):
            lc, rc = string_content(e, l.obj), string_content(e, r.obj)
            c = str_cmp(lc, rc)
            e.add_constraint(z3.ULE(c, 2))
            e.add_constraint((c == 1) == (lc == rc))
            e.check(z3.Implies(both_str, res.boolean == strpred(c)), f'{opname}: string ordering of left with right')
        return {'outcome': 'value'}
    return chk


def _lang_equal(P, l, r):
    """language equality of two values (numbers by IEEE ==, booleans, nil, objects by identity; strings are interned)"""
    return z3.Or(z3.And(l.is_num, r.is_num, z3.fpEQ(l.num, r.num)),
                 z3.And(l.is_bool, r.is_bool, l.boolean == r.boolean),
                 z3.And(l.is_nil, r.is_nil),
                 z3.And(l.is_obj, r.is_obj, l.obj.id == r.obj.id))


def _eq_check(opname):
    def chk(e, P, W, st, ops, outcome, sig, sp2, ip2, rt_key):
        r, l = ops[0], ops[1]
        e.check(outcome == 'ok', f'{opname}: defined for every pair of values')
        if outcome != 'ok':
            return {'outcome': 'error'}
        e.check(z3.And(ip2 == st.ip, sp2 == st.sp - 1), f'{opname}: two operands replaced by one result')
        res = _result_view(e, P, W, sp2)
        want = _lang_equal(P, l, r)
        if opname == 'op_not_equal':
            want = z3.Not(want)
        both_num = z3.And(l.is_num, r.is_num)
        zeros = z3.And(both_num, z3.fpIsZero(l.num), z3.fpIsZero(r.num), z3.fpIsNegative(l.num) != z3.fpIsNegative(r.num))
        nans = z3.And(both_num, z3.fpIsNaN(l.num), z3.fpIsNaN(r.num))
        for cname, cc in (('0 and -0', zeros), ('NaN with NaN', nans), ('other numbers', z3.And(both_num, z3.Not(zeros), z3.Not(nans))),
                          ('non-numbers', z3.Not(both_num))):
            e.check(z3.Implies(cc, z3.And(res.is_bool, res.boolean == want)), f'{opname}: language equality [{cname}]')
        return {'outcome': 'value'}
    return chk


def _not_check(e, P, W, st, ops, outcome, sig, sp2, ip2, rt_key):
    v = ops[0]
    e.check(outcome == 'ok', 'op_not: defined for every value')
    if outcome != 'ok':
        return {'outcome': 'error'}
    e.check(z3.And(ip2 == st.ip, sp2 == st.sp), 'op_not: operand replaced by result')
    res = _result_view(e, P, W, sp2)
    e.check(z3.And(res.is_bool, res.boolean == v.falsey()), 'op_not: true exactly for nil and false')
    return {'outcome': 'value'}


def _negate_check(e, P, W, st, ops, outcome, sig, sp2, ip2, rt_key):
    v = ops[0]
    e.check(ip2 == st.ip, 'op_negate: consumes no operand bytes')
    if outcome != 'ok':
        _check_error(e, st, outcome, rt_key, z3.Not(v.is_num), 'op_negate')
        return {'outcome': 'error', 'msg': e.path_state['outcome']}
    e.check(sp2 == st.sp, 'op_negate: operand replaced by result')
    res = _result_view(e, P, W, sp2)
    e.check(v.is_num, 'op_negate: a value is produced only for a number')
    e.check(z3.And(res.is_num, res.num == z3.fpNeg(v.num)), 'op_negate: IEEE negation')
    return {'outcome': 'value'}


def _mk(opname, chk, nops=2, tiers=('quick', 'thorough'), prop='C01', program='vm'):
    oid = f'C01.K1.{opname}' if prop == 'C01' else f'C14.D2.{opname}'

    @obligation(oid, prop, tiers=tiers, programs=(program,))
    def ob(res, tier, opname=opname, chk=chk, nops=nops, program=program):
        res.bounds = {'operands': 'every Value (all 2^64 number bit patterns, bool, nil, any object kind and identity)'}
        res.assumptions = ['operands are not the internal Undefined marker',
                           'object references are abstract identities with a kind; strings are interned (C09)',
                           'the stack has room for the pushes of one op (C06.K2)']
        _run_op(opname, chk, res, tier, program=program, nops=nops)
    ob.__doc__ = f'{opname}: result, operand order, stack and ip effect, error class for every operand pair'
    return ob


for _op in ARITH:
    _mk(_op, _arith_check(_op))
for _op in CMPS:
    _mk(_op, _cmp_check(_op))
_mk('op_equal', _eq_check('op_equal'))
_mk('op_not_equal', _eq_check('op_not_equal'))
_mk('op_not', _not_check, nops=1)
_mk('op_negate', _negate_check, nops=1)


# ---------------------------------------------------------------------------------------------- K2 branching ops
def _operand16(st):
    return z3.Concat(z3.Select(st.code.arr, st.ip + 1), z3.Select(st.code.arr, st.ip))


def _branch_check(opname):
    def chk(e, P, W, st, ops, outcome, sig, sp2, ip2, rt_key):
        e.check(outcome == 'ok' and _signal_is(sig, 'Ok'), f'{opname}: total, signals Ok')
        if outcome != 'ok':
            return {'outcome': 'error'}
        jump = z3.ZeroExt(48, _operand16(st))
        nxt = st.ip + 2
        if opname == 'op_jump':
            e.check(z3.And(ip2 == nxt + jump, sp2 == st.sp), 'op_jump: ip = after operand + distance, stack unchanged')
        elif opname == 'op_loop':
            e.check(z3.And(ip2 == nxt - jump, sp2 == st.sp), 'op_loop: ip = after operand - distance, stack unchanged')
        else:
            v = ops[0]
            f = v.falsey()
            if opname == 'op_jump_if_false':
                e.check(ip2 == z3.If(f, nxt + jump, nxt), 'op_jump_if_false: jumps exactly on nil/false')
                e.check(sp2 == st.sp - 1, 'op_jump_if_false: condition always dropped')
            elif opname == 'op_and':
                e.check(ip2 == z3.If(f, nxt + jump, nxt), 'op_and: short-circuits exactly on nil/false')
                e.check(sp2 == z3.If(f, st.sp, st.sp - 1), 'op_and: falsey operand stays as the result, truthy operand dropped')
            elif opname == 'op_or':
                e.check(ip2 == z3.If(f, nxt, nxt + jump), 'op_or: short-circuits exactly on a truthy value')
                e.check(sp2 == z3.If(f, st.sp - 1, st.sp), 'op_or: truthy operand stays as the result, falsey operand dropped')
            # the surviving operand is the very same value
            top0 = z3.Select(st.stack0, st.sp - 1)
            e.check(z3.Implies(sp2 == st.sp, z3.Select(st.stack.arr, st.sp - 1) == top0), f'{opname}: the operand itself is yielded')
        return {'outcome': 'ok'}
    return chk


def _mk2(opname, nops, prop='C01', program='vm'):
    oid = f'C01.K2.{opname}' if prop == 'C01' else f'C14.D2.{opname}'

    @obligation(oid, prop, programs=(program,))
    def ob(res, tier, opname=opname, nops=nops, program=program):
        res.bounds = {'operand': 'every 16-bit distance, every Value on top of the stack, any ip'}
        res.assumptions = ['operands are not the internal Undefined marker']
        _run_op(opname, _branch_check(opname), res, tier, program=program, nops=nops)
    ob.__doc__ = f'{opname}: ip and stack effect for every operand and every condition value'
    return ob


for _op, _n in (('op_jump', 0), ('op_loop', 0), ('op_jump_if_false', 1), ('op_and', 1), ('op_or', 1)):
    _mk2(_op, _n)


# ---------------------------------------------------------------------------------------------- C14.D2: the same obligations on the NaN-boxed build
for _op in ARITH:
    _mk(_op, _arith_check(_op), prop='C14', program='vm-nan')
for _op in CMPS:
    _mk(_op, _cmp_check(_op), prop='C14', program='vm-nan')
_mk('op_equal', _eq_check('op_equal'), prop='C14', program='vm-nan')
_mk('op_not_equal', _eq_check('op_not_equal'), prop='C14', program='vm-nan')
_mk('op_not', _not_check, nops=1, prop='C14', program='vm-nan')
_mk('op_negate', _negate_check, nops=1, prop='C14', program='vm-nan')
for _op, _n in (('op_jump_if_false', 1), ('op_and', 1), ('op_or', 1)):
    _mk2(_op, _n, prop='C14', program='vm-nan')
