"""Abstract machine state for executing Vm ops / one step of Vm::execute from MIR.

What is real (executed from MIR): the ops themselves, Vm helpers (read_byte/short/slot, update_ip, push_frame...),
the Fiber stack primitives (push/pop/drop/peek/.. over a pointer model into a symbolic stack vector), CallFrame
accessors, Value methods, is_falsey, Ref<T> deref.
What is abstract (models below): managed object references (ObjectRef / ObjRef<T> / LyStr / List / Tuple /
Instance are identities with a kind), allocation (fresh identity), error raising (ends the path with a tag),
hash maps and everything reached through them (havoc).
"""
import re
import z3
from mirsym.values import *
from mirsym.tys import *
from mirsym.engine import Engine, bvadd, bvsub

OBJ_TYPES = r'^(laythe_core::)?(reference::)?(obj_reference::)?(object::)?(\w+::)*(ObjectRef|ObjRef<.*>|LyStr|List|Tuple|Instance)$'
KIND_OF_TY = {'LyStr': 'String', 'List': 'List', 'Tuple': 'Tuple', 'Instance': 'Instance'}

kind_of = z3.Function('kind_of', z3.BitVecSort(64), z3.BitVecSort(64))
allocated0 = z3.Function('allocated0', z3.BitVecSort(64), z3.BoolSort())   # existed before the step under analysis


class AbsObj:
    """identity of a managed object"""
    __slots__ = ('id', 'ty')

    def __init__(self, oid, ty='ObjectRef'):
        self.id = oid
        self.ty = ty

    @property
    def rust_ty(self):
        return self.ty

    def copy_value(self, eng):
        return self

    def bind_elem(self, eng, backing):
        eng.add_constraint(backing.child('id').leaf(eng, z3.BitVecSort(64)) == self.id)

    def data_cell(self, eng, ty):
        """the object's data: a struct view whose fields live in per-(type, field) heap arrays indexed by identity,
        so that aliasing between symbolic references is decided by the solver"""
        key = ('objdata', self.id.sexpr(), norm_ty(ty))
        c = eng.memo.get(key)
        if c is None:
            c = Cell(HeapObjStruct(norm_ty(ty), self.id))
            eng.memo[key] = c
            eng.memo[('cellobj', id(c))] = self
        return c

    def ptr_binop(self, eng, op, a, b):
        if isinstance(a, AbsObj) and isinstance(b, AbsObj):
            if op == 'Eq':
                return as_bool(z3.simplify(a.id == b.id))
            if op == 'Ne':
                return as_bool(z3.simplify(a.id != b.id))
        raise Unsupported('object reference binop ' + op)

    def __repr__(self):
        return f'obj<{self.ty}>({_short(self.id)})'


class _HeapBacking:
    def key(self):
        return 'heap'

    def child(self, k):
        return self


HEAP = _HeapBacking()


def heap_seq(eng, ty, idx, fty):
    key = ('heap', ty_head(norm_ty(ty)), idx)
    sq = eng.memo.get(key)
    if sq is None:
        sq = eng.fresh_seq(fty, NameBacking(f'heap[{sort_name(ty)}.{idx}]'), bv((1 << 64) - 1, 64))
        eng.memo[key] = sq
    return sq


class HeapObjStruct(Struct):
    """data of a managed object addressed by identity"""
    __slots__ = ('oid',)

    def __init__(self, ty, oid):
        Struct.__init__(self, ty, {}, HEAP)
        self.oid = oid

    def field(self, eng, idx, fty):
        c = self.f.get(idx)
        if c is None:
            sd = eng.P.struct_def(self.ty)
            if sd is not None and idx < len(sd.fields):
                fty = subst_generics(sd.fields[idx][1], sd, self.ty) if ty_kind(norm_ty(fty or '')) in ('param', None) else fty
            c = SeqElemCell(heap_seq(eng, self.ty, idx, fty), self.oid)
            self.f[idx] = c
        return c

    def copy_value(self, eng):
        sd = eng.P.struct_def(self.ty)
        out = {}
        if sd is not None:
            for i, (_, fty) in enumerate(sd.fields):
                out[i] = Cell(eng.copy_value(self.field(eng, i, subst_generics(fty, sd, self.ty)).get(eng)))
        return Struct(self.ty, out, None)


def object_of(e, v):
    """the managed object a value denotes: an object reference, or a reference to the data of one (after auto-deref)"""
    while True:
        if isinstance(v, AbsObj):
            return v
        if isinstance(v, Ref):
            o = e.memo.get(('cellobj', id(v.cell)))
            if o is not None:
                return o
            v = v.cell.get(e)
            continue
        raise Unsupported('expected a managed object, got ' + type(v).__name__)


def _short(t):
    s = str(t)
    return s if len(s) < 40 else s[:37] + '...'


StrS = z3.DeclareSort('Str')
content_of = z3.Function('content_of', z3.BitVecSort(64), StrS)
str_concat = z3.Function('str_concat', StrS, StrS, StrS)
str_cmp = z3.Function('str_cmp', StrS, StrS, z3.BitVecSort(64))    # 0 Less, 1 Equal, 2 Greater
str_len = z3.Function('str_len', StrS, z3.BitVecSort(64))
str_lit = z3.Function('str_lit', z3.IntSort(), StrS)
EMPTY = z3.Const('str_empty', StrS)
_lits = {}


def lit(sv):
    if sv == '':
        return EMPTY
    if sv not in _lits:
        _lits[sv] = len(_lits)
    return str_lit(_lits[sv])


class AbsStr:
    """&str / String value with symbolic content (z3 string)"""
    __slots__ = ('s',)

    def __init__(self, s):
        self.s = s

    def copy_value(self, eng):
        return AbsStr(self.s)

    def value_eq(self, eng, other):
        return as_bool(z3.simplify(self.s == str_term(eng, other)))

    def deref_cell(self, eng):
        return Cell(self)     # &str is its own referent (str is unsized: only ever seen behind the reference)

    def __repr__(self):
        return f'str({self.s})'


def str_term(e, v):
    while isinstance(v, Ref):
        v = v.cell.get(e)
    if isinstance(v, AbsStr):
        return v.s
    if isinstance(v, StrV):
        return lit(v.s)
    if isinstance(v, AbsObj):
        return string_content(e, v)
    raise Unsupported('expected a string, got ' + type(v).__name__)


def string_content(e, o):
    """content of a string object + interning: equal content <=> same object, for all strings seen on the path"""
    seen = e.path_state.setdefault('strings', {})
    k = o.id.sexpr()
    if k not in seen:
        c = content_of(o.id)
        for k2, (id2, c2) in seen.items():
            e.add_constraint((o.id == id2) == (c == c2))
        seen[k] = (o.id, c)
    return seen[k][1]


def _len(e, t):
    n = str_len(t)
    e.add_constraint(z3.ULT(n, 1 << 40))
    return n


arr_len = z3.Function('arr_len', z3.BitVecSort(64), z3.BitVecSort(64))


class AbsArr:
    """managed immutable-length array Array<T, H>: identity, length and an element sequence per identity"""
    __slots__ = ('id', 'elem_ty')
    rust_ty = 'Array'

    def __init__(self, aid, elem_ty):
        self.id = aid
        self.elem_ty = elem_ty

    def copy_value(self, eng):
        return self

    def bind_elem(self, eng, backing):
        eng.add_constraint(backing.child('id').leaf(eng, z3.BitVecSort(64)) == self.id)

    def length(self, eng):
        n = arr_len(self.id)
        eng.add_constraint(z3.ULT(n, 1 << 32))
        return n

    def seq(self, eng):
        """element sequence of this array: one row of a two-level heap (array identity -> index -> element), so that two
        references that may denote the same array see the same elements"""
        ety = norm_ty(self.elem_ty)
        key = ('arrheap', ety)
        h = eng.memo.get(key)
        if h is None:
            proto = eng.fresh_seq(ety, NameBacking('arrproto[' + sort_name(ety) + ']'), bv(0, 64))
            rowsort = proto.arr.sort()
            h = dict(H=z3.Const('arrheap[' + sort_name(ety) + ']', z3.ArraySort(z3.BitVecSort(64), rowsort)),
                     scalar=proto.scalar_sort, tyname=proto.tyname)
            eng.memo[key] = h
        return RowSeq(ety, h, self.id, self.length(eng))

    def slice(self, eng):
        return SliceRef(self.seq(eng), bv(0, 64), self.length(eng))

    def __repr__(self):
        return f'arr({_short(self.id)})'


class RowSeq(SymSeq):
    """a SymSeq whose array is row `rid` of a shared two-level heap"""

    def __init__(self, elem_ty, heap, rid, length):
        self._heap = heap
        self._rid = rid
        self.elem_ty = elem_ty
        self.len = length
        self.scalar_sort = heap['scalar']
        self.tyname = heap['tyname']

    @property
    def arr(self):
        return z3.Select(self._heap['H'], self._rid)

    @arr.setter
    def arr(self, value):
        self._heap['H'] = z3.Store(self._heap['H'], self._rid, value)

    def copy(self):
        return self


class AbsGc:
    """identity of a managed non-object allocation Ref<T> (fibers' waiters, channel queues, modules, ...)"""
    __slots__ = ('id', 'ty')
    is_pointer_like = True      # Box<dyn T> / NonNull wrappers around it project to the identity itself

    def transmute(self, eng, to):
        if norm_ty(to).startswith('*') or 'NonNull' in to:
            return self
        raise Unsupported(f'transmute of a managed reference to {to}')

    def deref_cell(self, eng):
        return self.data_cell(eng) if norm_ty(self.ty) != 'dyn' else Cell(self)

    def __init__(self, gid, ty):
        self.id = gid
        self.ty = ty

    @property
    def rust_ty(self):
        return 'Ref<' + self.ty + '>'

    def copy_value(self, eng):
        return self

    def bind_elem(self, eng, backing):
        eng.add_constraint(backing.child('id').leaf(eng, z3.BitVecSort(64)) == self.id)

    def data_cell(self, eng):
        key = ('gcdata', self.id.sexpr(), norm_ty(self.ty))
        c = eng.memo.get(key)
        if c is None:
            c = Cell(HeapObjStruct(norm_ty(self.ty), self.id))
            eng.memo[key] = c
            eng.memo[('cellobj', id(c))] = self
        return c

    def ptr_binop(self, eng, op, a, b):
        if isinstance(a, AbsGc) and isinstance(b, AbsGc):
            if op == 'Eq':
                return as_bool(z3.simplify(a.id == b.id))
            if op == 'Ne':
                return as_bool(z3.simplify(a.id != b.id))
        raise Unsupported('Ref binop ' + op)

    def __repr__(self):
        return f'gc<{self.ty}>({_short(self.id)})'


def install_gc_refs(eng, exclude=()):
    """Ref<T> as identities with heap-indexed data (for every T except those listed)"""
    def mat_gc(e, ty, backing):
        t = norm_ty(ty)
        inner = ty_args(t)[0]
        if ty_head(inner) in exclude:
            return NotImplemented
        return AbsGc(backing.child('id').leaf(e, z3.BitVecSort(64)), inner)
    eng.materialiser(r'^(laythe_core::)?(reference::)?Ref<.*>$', mat_gc)

    def m_deref(e, a, c):
        v = a[0]
        while isinstance(v, Ref):
            v = v.cell.get(e)
        if not isinstance(v, AbsGc):
            return NotImplemented
        return Ref(v.data_cell(e))
    eng.model(r'^<(laythe_core::)?(reference::)?Ref as (std::ops::|core::ops::)?Deref(Mut)?>::deref(_mut)?$', m_deref)

    def m_eq(e, a, c):
        x, y = a
        while isinstance(x, Ref):
            x = x.cell.get(e)
        while isinstance(y, Ref):
            y = y.cell.get(e)
        if not isinstance(x, AbsGc):
            return NotImplemented
        r = as_bool(z3.simplify(x.id == y.id))
        return r if c.norm.endswith('::eq') else b_not(r)
    eng.model(r'^<(laythe_core::)?(reference::)?Ref as (std::cmp::|core::cmp::)?PartialEq>::(eq|ne)$', m_eq)


class AbsUVec:
    """UniqueVector<T, H>: buffer (SymSeq whose len is the capacity) + length"""
    rust_ty = 'UniqueVector'

    def __init__(self, seq, length):
        self.seq = seq
        self.len = length

    def copy_value(self, eng):
        return self        # UniqueVector is a Copy handle to one buffer


class VmWorld:
    """builds the symbolic Vm and installs the abstraction on an engine"""

    def __init__(self, eng, P, depth_room=8):
        self.eng = eng
        self.P = P
        self.install(eng)

    # ------------------------------------------------------------------ per-path state
    def fresh_state(self, e, code=None, ip=None, room=16):
        P = self.P
        vm_sd = P.struct_def('vm::Vm')
        self.vm_idx = {n: i for i, (n, _) in enumerate(vm_sd.fields)}
        fib_sd = P.struct_def('fiber::Fiber')
        self.fib_idx = {n: i for i, (n, _) in enumerate(fib_sd.fields)}
        cf_sd = P.struct_def('fiber::call_frame::CallFrame')
        self.cf_idx = {n: i for i, (n, _) in enumerate(cf_sd.fields)}
        st = type('S', (), {})()
        st.cap = z3.BitVec('stack_cap', 64)
        st.sp = z3.BitVec('sp', 64)
        st.fb = z3.BitVec('fb', 64)
        e.assume(z3.ULT(st.cap, 1 << 40))
        e.assume(z3.UGE(st.fb, 1 << 17))                 # room below the frame: under-reads show up as depth, not wrap
        e.assume(z3.ULE(st.fb, st.sp))
        e.assume(z3.ULT(st.sp, 1 << 40))
        e.assume(z3.ULE(st.sp + room, st.cap))           # C06.K2 establishes the reservation; here: room for 16 pushes
        st.stack = e.fresh_seq('laythe_core::value::Value', NameBacking('stack'), st.cap)
        st.stack0 = st.stack.arr
        st.code_len = z3.BitVec('code_len', 64)
        st.code = code if code is not None else e.fresh_seq('u8', NameBacking('code'), st.code_len)
        st.ip = ip if ip is not None else z3.BitVec('ip', 64)
        if code is None:
            e.assume(z3.ULT(st.code_len, 1 << 32))
            e.assume(z3.ULT(st.ip, 1 << 32))
            e.assume(z3.ULE(st.ip + 16, st.code_len))
        frame = Struct('fiber::call_frame::CallFrame', None, NameBacking('frame'))
        frame.f[self.cf_idx['stack_start']] = Cell(SeqPtr(st.stack, st.fb))
        frame.f[self.cf_idx['ip']] = Cell(SeqPtr(st.code, z3.BitVec('frame_ip', 64)))
        st.frame = frame
        # the frame lives in the frames vector: *mut CallFrame points at its last element
        st.nframes = z3.BitVec('nframes', 64)
        e.assume(z3.And(z3.UGE(st.nframes, 1), z3.ULE(st.nframes, 255)))
        fiber = Struct('fiber::Fiber', None, NameBacking('fiber'))
        fiber.f[self.fib_idx['stack_top']] = Cell(SeqPtr(st.stack, st.sp))
        st.frames_cap = z3.BitVec('frames_cap', 64)
        e.assume(z3.And(z3.ULE(st.nframes, st.frames_cap), z3.ULE(st.frames_cap, 512)))
        st.frames = e.fresh_seq('fiber::call_frame::CallFrame', NameBacking('frames'), st.frames_cap)
        frame.f[self.cf_idx['fun']] = Cell(e.materialise('laythe_core::ObjRef<laythe_core::object::Fun>', NameBacking('frame.fun')))
        frame.f[self.cf_idx['captures']] = Cell(e.materialise('laythe_core::Captures', NameBacking('frame.captures')))
        st.frames.store(e, z3.simplify(st.nframes - 1), frame)
        fiber.f[self.fib_idx['frames']] = Cell(AbsUVec(st.frames, st.nframes))
        fiber.f[self.fib_idx['frame']] = Cell(SeqPtr(st.frames, z3.simplify(st.nframes - 1)))
        st.fiber = fiber
        alloc = Struct('laythe_core::managed::allocation::Allocation<fiber::Fiber>', None, NameBacking('fiber_alloc'))
        alloc.f[1] = Cell(fiber)
        st.fiber_alloc_cell = Cell(alloc)
        gcref = Struct('laythe_core::Ref<fiber::Fiber>', {0: Cell(Ref(st.fiber_alloc_cell))}, None)
        vm = Struct('vm::Vm', None, NameBacking('vm'))
        vm.f[self.vm_idx['fiber']] = Cell(gcref)
        vm.f[self.vm_idx['ip']] = Cell(SeqPtr(st.code, st.ip))
        st.vm = vm
        st.vm_cell = Cell(vm)
        e.path_state['vm'] = st
        e.path_state['accesses'] = []
        e.path_state['slices'] = []
        e.path_state['outcome'] = None
        e.path_state['allocs'] = 0
        e.path_state['events'] = []
        return st

    def sp(self, e):
        st = e.path_state['vm']
        p = st.fiber.f[self.fib_idx['stack_top']].get(e)
        return p.idx

    def ip(self, e):
        st = e.path_state['vm']
        p = st.vm.f[self.vm_idx['ip']].get(e)
        return p.idx

    def stack_at(self, e, idx):
        st = e.path_state['vm']
        return st.stack.load(e, idx)

    def field_key(self, root_ty, names, root='vm'):
        """backing key of a nested field path, e.g. ('builtin','errors','runtime') -> 'vm.7.2.1'"""
        ty = root_ty
        key = root
        for n in names:
            sd = self.P.struct_def(ty)
            i = sd.index_of(n)
            key += f'.{i}'
            ty = sd.fields[i][1]
        return key

    # ------------------------------------------------------------------ models
    def install(self, eng):
        m = eng.model
        P = self.P
        okind = P.enum_def('laythe_core::object::ObjectKind')

        def mat_obj(e, ty, backing):
            t = norm_ty(ty)
            h = ty_head(t)
            if h == 'ObjRef':
                a = ty_args(t)
                h = 'ObjRef<' + (ty_head(a[0]) if a else '?') + '>'
            oid = backing.child('id').leaf(e, z3.BitVecSort(64))
            if not str(backing.key()).startswith('new'):
                e.add_constraint(allocated0(oid))
            if 'nan_boxing' in P.features:
                e.add_constraint(z3.And(z3.ULT(oid, 1 << 48), (oid & 7) == 0, oid != 0))
            return AbsObj(oid, h)
        eng.materialiser(OBJ_TYPES, mat_obj)

        def mat_nonnull(e, ty, backing):
            inner = ty_args(norm_ty(ty))[0]
            key = ('pointee', backing.key())
            c = e.memo.get(key)
            if c is None:
                c = Cell(Lazy(inner, backing.child('*')))
                e.memo[key] = c
            return Ref(c)
        eng.materialiser(r'^(std::ptr::|core::ptr::)?NonNull<.*>$', mat_nonnull)

        def mat_stack_ptr(e, ty, backing):
            st = e.path_state.get('vm')
            if st is None:
                return NotImplemented
            return SeqPtr(st.stack, backing.child('idx').leaf(e, z3.BitVecSort(64)))
        eng.materialiser(r'^\*(mut|const) (laythe_core::)?(value::)?(\w+::)?Value$', mat_stack_ptr)

        def mat_code_ptr(e, ty, backing):
            st = e.path_state.get('vm')
            if st is None:
                return NotImplemented
            return SeqPtr(st.code, backing.child('idx').leaf(e, z3.BitVecSort(64)))
        eng.materialiser(r'^\*const u8$', mat_code_ptr)

        def mat_uvec(e, ty, backing):
            a = ty_args(norm_ty(ty))
            cap = backing.child('cap').leaf(e, z3.BitVecSort(64))
            ln = backing.child('len').leaf(e, z3.BitVecSort(64))
            e.add_constraint(z3.And(z3.ULE(ln, cap), z3.ULT(cap, 1 << 32)))
            return AbsUVec(e.fresh_seq(a[0], backing.child('buf'), cap), ln)
        eng.materialiser(r'^(laythe_core::)?(collections::)?(unique_vector::)?UniqueVector<.*>$', mat_uvec)

        def uv(e, v):
            while isinstance(v, Ref):
                v = v.cell.get(e)
            if not isinstance(v, AbsUVec):
                raise Unsupported('expected UniqueVector, got ' + type(v).__name__)
            return v
        UV = r'^(laythe_core::)?(collections::)?(unique_vector::)?UniqueVector::'
        m(UV + r'len$', lambda e, a, c: uv(e, a[0]).len)
        m(UV + r'cap$', lambda e, a, c: uv(e, a[0]).seq.len)
        m(UV + r'is_empty$', lambda e, a, c: as_bool(z3.simplify(uv(e, a[0]).len == 0)))
        m(r'^<(laythe_core::)?(collections::)?(unique_vector::)?UniqueVector as (std::ops::|core::ops::)?Deref(Mut)?>::deref(_mut)?$',
          lambda e, a, c: SliceRef(uv(e, a[0]).seq, bv(0, 64), uv(e, a[0]).len))

        def m_uv_push(e, a, c):
            v = uv(e, a[0])
            val = a[-1]
            if not e.fork_bool(z3.ULT(v.len, v.seq.len)):
                # growth: the buffer is reallocated; pointer rebasing is the subject of C06.K2
                v.seq.len = z3.simplify(v.seq.len * 2 + 1)
                e.path_state['events'].append(('uvec_grow',))
            v.seq.store(e, v.len, val)
            v.len = z3.simplify(v.len + 1)
            return UNIT
        m(UV + r'(push|push_with_hooks)$', m_uv_push)

        def m_uv_pop(e, a, c):
            v = uv(e, a[0])
            oty = norm_ty(c.dest_ty) if c.dest_ty else 'Option'
            if e.fork_bool(v.len == 0):
                return e.mk_option(e, oty)
            v.len = z3.simplify(v.len - 1)
            return e.mk_option(e, oty, v.seq.load(e, v.len))
        m(UV + r'pop$', m_uv_pop)

        def m_uv_truncate(e, a, c):
            v = uv(e, a[0])
            n = a[1]
            v.len = z3.simplify(z3.If(z3.ULT(n, v.len), n, v.len))
            return UNIT
        m(UV + r'truncate$', m_uv_truncate)
        m(UV + r'clear$', lambda e, a, c: (setattr(uv(e, a[0]), 'len', bv(0, 64)), UNIT)[1])

        def mat_string(e, ty, backing):
            return AbsStr(backing.child('str').leaf(e, StrS))
        eng.materialiser(r'^(&(mut )?)?(std::string::|alloc::string::)?String$', mat_string)
        eng.materialiser(r'^&(mut )?str$', mat_string)

        def mat_vec(e, ty, backing):
            a = ty_args(norm_ty(ty))
            ln = backing.child('len').leaf(e, z3.BitVecSort(64))
            e.add_constraint(z3.ULT(ln, 1 << 32))
            return e.fresh_seq(a[-1], backing.child('buf'), ln)
        eng.materialiser(r'^(std::vec::|alloc::vec::)?Vec<.*>$', mat_vec)

        def m_to_vec(e, a, c):
            s_ = a[0]
            if not isinstance(s_, SliceRef) or not isinstance(s_.seq, SymSeq):
                raise Unsupported('to_vec of ' + type(s_).__name__)
            i = z3.BitVec('i!tv', 64)
            arr = z3.Lambda([i], z3.Select(s_.seq.arr, s_.start + i))
            return SymSeq(s_.seq.elem_ty, arr, e.slice_len(s_), s_.seq.scalar_sort, s_.seq.tyname)
        m(r'^(std|core|alloc)::slice::<impl \[T\]>::to_vec$', m_to_vec)

        # managed arrays: identity + (length, elements) ------------------------------------------------
        def mat_array(e, ty, backing):
            return AbsArr(backing.child('id').leaf(e, z3.BitVecSort(64)), ty_args(norm_ty(ty))[0])
        eng.materialiser(r'^(laythe_core::)?(collections::)?(array::)?Array<.*>$', mat_array)

        def arr_of(e, v):
            while isinstance(v, Ref):
                v = v.cell.get(e)
            if not isinstance(v, AbsArr):
                raise Unsupported('expected managed array, got ' + type(v).__name__)
            return v
        m(r'^<(laythe_core::)?(collections::)?(array::)?Array as (std::ops::|core::ops::)?Deref(Mut)?>::deref(_mut)?$',
          lambda e, a, c: arr_of(e, a[0]).slice(e))
        m(r'^(laythe_core::)?(collections::)?(array::)?Array::len$', lambda e, a, c: arr_of(e, a[0]).length(e))
        m(r'^(laythe_core::)?(collections::)?(array::)?Array::is_empty$', lambda e, a, c: as_bool(z3.simplify(arr_of(e, a[0]).length(e) == 0)))
        m(r'^<(laythe_core::)?(collections::)?(array::)?Array as (std::cmp::|core::cmp::)?PartialEq>::(eq|ne)$',
          lambda e, a, c: (lambda r: r if c.norm.endswith('::eq') else b_not(r))(as_bool(z3.simplify(arr_of(e, a[0]).id == arr_of(e, a[1]).id))))

        # object references ------------------------------------------------
        def obj_of(e, v):
            while isinstance(v, Ref):
                v = v.cell.get(e)
            if not isinstance(v, AbsObj):
                raise Unsupported('expected object reference, got ' + type(v).__name__)
            return v

        def m_kind(e, a, c):
            o = obj_of(e, a[0])
            k = kind_of(o.id)
            e.add_constraint(z3.ULT(k, len(okind.variants)))
            return EnumV('laythe_core::object::ObjectKind', k, None, None, okind)
        m(r'^(laythe_core::)?(reference::)?(obj_reference::)?ObjectRef::kind$', m_kind)

        def m_is_kind(e, a, c):
            o = obj_of(e, a[0])
            k = a[1]
            kt = k.tag if not isinstance(k.tag, int) else bv(k.tag, 64)
            return as_bool(z3.simplify(kind_of(o.id) == kt))
        m(r'^(laythe_core::)?(reference::)?(obj_reference::)?ObjectRef::is_kind$', m_is_kind)

        CAST = {'to_str': ('String', 'LyStr'), 'to_tuple': ('Tuple', 'Tuple'), 'to_box': ('LyBox', 'ObjRef<LyBox>'),
                'to_channel': ('Channel', 'ObjRef<Channel>'), 'to_class': ('Class', 'ObjRef<Class>'),
                'to_closure': ('Closure', 'ObjRef<Closure>'), 'to_fun': ('Fun', 'ObjRef<Fun>'),
                'to_instance': ('Instance', 'Instance'), 'to_enumerator': ('Enumerator', 'ObjRef<Enumerator>'),
                'to_list': ('List', 'List'), 'to_map': ('Map', 'ObjRef<Map>'), 'to_method': ('Method', 'ObjRef<Method>'),
                'to_native': ('Native', 'ObjRef<Native>')}

        def m_cast(e, a, c):
            o = obj_of(e, a[0])
            name = c.norm.rsplit('::', 1)[1]
            kname, ty = CAST[name]
            want = okind.vindex[kname]
            casts = e.path_state.setdefault('casts', [])
            established = not e.sat(kind_of(o.id) != want)
            casts.append((name, _short(o.id), established, c.frame.fn.name if c.frame else None))
            # after an unchecked cast the program proceeds as if the kind were right
            e.add_constraint(kind_of(o.id) == want)
            return AbsObj(o.id, ty)
        m(r'^(laythe_core::)?(reference::)?(obj_reference::)?ObjectRef::to_(str|tuple|box|channel|class|closure|fun|instance|enumerator|list|map|method|native)$', m_cast)

        def m_degrade(e, a, c):
            o = obj_of(e, a[0])
            return AbsObj(o.id, 'ObjectRef')
        m(r'^(laythe_core::)?(reference::)?(obj_reference::)?ObjRef::degrade$', m_degrade)
        m(r'^(laythe_core::)?(object::)?(\w+::)*(LyStr|List|Tuple|Instance)::degrade$', m_degrade)

        def m_obj_eq(e, a, c):
            x, y = obj_of(e, a[0]), obj_of(e, a[1])
            r = as_bool(z3.simplify(x.id == y.id))
            return r if c.norm.endswith('::eq') else b_not(r)
        m(r'^<(laythe_core::)?(\w+::)*(ObjectRef|ObjRef|LyStr|List|Tuple|Instance) as (std::cmp::|core::cmp::)?PartialEq>::(eq|ne)$', m_obj_eq)

        def m_objref_deref(e, a, c):
            o = obj_of(e, a[0])
            # the pointee type is the generic argument of ObjRef<T>
            r = a[0]
            g = re.search(r'ObjRef<(.*)> as', norm_ty(c.callee))
            ty = g.group(1) if g else None
            if ty is None or ty_kind(norm_ty(ty)) == 'param':
                ty = {'ObjRef<Fun>': 'laythe_core::object::Fun', 'ObjRef<Class>': 'laythe_core::object::Class',
                      'ObjRef<Closure>': 'laythe_core::object::Closure', 'ObjRef<Method>': 'laythe_core::object::Method',
                      'ObjRef<Native>': 'laythe_core::object::Native', 'ObjRef<LyBox>': 'laythe_core::object::LyBox',
                      'ObjRef<Channel>': 'laythe_core::object::Channel', 'ObjRef<Enumerator>': 'laythe_core::object::Enumerator',
                      'ObjRef<Map>': 'laythe_core::object::Map<laythe_core::value::Value, laythe_core::value::Value>'}.get(o.ty)
                if ty is None:
                    raise Unsupported('deref of ' + o.ty)
            return Ref(o.data_cell(e, ty))
        m(r'^<(laythe_core::)?(reference::)?(obj_reference::)?ObjRef as (std::ops::|core::ops::)?Deref(Mut)?>::deref(_mut)?$', m_objref_deref)

        if 'nan_boxing' in P.features:
            # NaN-boxed build: pointer <-> integer conversions carry the object identity
            class AddrPtr:
                def __init__(self, a):
                    self.a = a

                def copy_value(self, eng_):
                    return self
            eng.ptr_from_addr = lambda a, to: AddrPtr(a)
            m(r'^(std::ptr::|core::ptr::)?NonNull::new_unchecked$', lambda e, a, c: a[0])
            m(r'^(laythe_core::)?(reference::)?(obj_reference::)?ObjectRef::new$',
              lambda e, a, c: AbsObj(a[0].a, 'ObjectRef') if isinstance(a[0], AddrPtr) else AbsObj(obj_of(e, a[0]).id, 'ObjectRef'))
            m(r'^(laythe_core::)?(\w+::)*(ObjRef|ObjectRef|LyStr|List|Tuple|Instance)::to_usize$', lambda e, a, c: obj_of(e, a[0]).id)

        # Value <- object conversions:  <Value as From<X>>::from  where X is an object reference
        def m_value_from_obj(e, a, c):
            v = a[0]
            if isinstance(v, AbsObj):
                vd = P.enum_def('laythe_core::value::Value')
                if vd is not None and 'Obj' in vd.vindex:
                    return EnumV('laythe_core::value::Value', vd.vindex['Obj'], {'Obj': {0: Cell(AbsObj(v.id, 'ObjectRef'))}}, None, vd)
                raise Unsupported('Value::from(object) in the nan-boxed representation is executed from MIR')
            return NotImplemented
        self._value_from_obj = m_value_from_obj

        # strings -----------------------------------------------------------------
        def m_lystr_len(e, a, c):
            n = z3.BitVec(e.fresh_name('lystr_len'), 64)
            e.add_constraint(z3.ULT(n, 1 << 40))
            return n
        m(r'^(laythe_core::)?(object::)?(\w+::)*LyStr::len$', m_lystr_len)
        m(r'^<(laythe_core::)?(object::)?(\w+::)*LyStr as (std::ops::|core::ops::)?Deref>::deref$',
          lambda e, a, c: AbsStr(string_content(e, obj_of(e, a[0]))))
        m(r'^(std::string::|alloc::string::)?String::(with_capacity|new)$', lambda e, a, c: AbsStr(EMPTY))

        def m_push_str(e, a, c):
            cell = a[0].cell
            cur = cell.get(e)
            nxt = str_term(e, a[1])
            cell.set(e, AbsStr(nxt if cur.s.eq(EMPTY) else str_concat(cur.s, nxt)))
            return UNIT
        m(r'^(std::string::|alloc::string::)?String::push_str$', m_push_str)

        def m_join(e, a, c):
            v = a[0]
            while isinstance(v, Ref):
                v = v.cell.get(e)
            if isinstance(v, SliceRef):
                n = conc(z3.simplify(e.slice_len(v)))
                if n is None:
                    raise Unsupported('join over a slice of symbolic length')
                items = [e.seq_cell(v.seq, z3.simplify(v.start + i)).get(e) for i in range(n)]
            elif isinstance(v, ConcSeq):
                items = [cc.get(e) for cc in v.cells]
            else:
                raise Unsupported('join over ' + type(v).__name__)
            sep = str_term(e, a[1])
            out = None
            for it in items:
                t = str_term(e, it)
                out = t if out is None else str_concat(str_concat(out, sep), t)
            return AbsStr(out if out is not None else EMPTY)
        m(r'^(alloc::|std::)?(slice|str)::<impl \[.*\]>::join$', m_join)
        m(r'^<(std::string::|alloc::string::)?String as (std::ops::|core::ops::)?Deref>::deref$',
          lambda e, a, c: AbsStr(str_term(e, a[0])))
        m(r'^core::str::<impl str>::len$', lambda e, a, c: _len(e, str_term(e, a[0])))

        def m_str_cmp(e, a, c):
            x, y = str_term(e, a[0]), str_term(e, a[1])
            tag = str_cmp(x, y)
            e.add_constraint(z3.ULE(tag, 2))
            e.add_constraint((tag == 1) == (x == y))
            return EnumV('std::cmp::Ordering', tag, None, None, P.enum_def('std::cmp::Ordering'))
        m(r'^<str as (std::cmp::|core::cmp::)?Ord>::cmp$', m_str_cmp)
        m(r'^core::str::traits::<impl (std::cmp::|core::cmp::)?Ord for str>::cmp$', m_str_cmp)

        def m_ordering_eq(e, a, c):
            x, y = a
            while isinstance(x, Ref):
                x = x.cell.get(e)
            while isinstance(y, Ref):
                y = y.cell.get(e)
            dx, dy = e.discriminant(x, 64), e.discriminant(y, 64)
            r = as_bool(z3.simplify(dx == dy))
            return r if c.norm.endswith('::eq') else b_not(r)
        m(r'^<(std::cmp::|core::cmp::)?Ordering as (std::cmp::|core::cmp::)?PartialEq>::(eq|ne)$', m_ordering_eq)

        # allocation ---------------------------------------------------------
        def m_manage(e, a, c):
            n = e.path_state.get('allocs', 0)
            e.path_state['allocs'] = n + 1
            e.path_state['events'].append(('alloc', c.norm))
            dty = norm_ty(c.dest_ty) if c.dest_ty else 'ObjectRef'
            o = e.materialise(dty, NameBacking(f'new{n}'))
            new_ids = e.path_state.setdefault('new_ids', [])
            oid = getattr(o, 'id', None)
            if oid is not None:
                e.add_constraint(z3.Not(allocated0(oid)))
                for other in new_ids:
                    e.add_constraint(oid != other)
                new_ids.append(oid)
            if isinstance(o, AbsArr):
                src = a[1]
                while isinstance(src, Ref):
                    src = src.cell.get(e)
                if isinstance(src, ConcSeq):
                    src = SliceRef(src, bv(0, 64), bv(len(src.cells), 64))
                if isinstance(src, SliceRef):
                    ln = e.slice_len(src)
                    e.add_constraint(arr_len(o.id) == ln)
                    cn = conc(z3.simplify(ln))
                    if cn is not None:
                        sq = o.seq(e)
                        for i in range(cn):
                            sq.store(e, bv(i, 64), e.copy_value(e.seq_cell(src.seq, z3.simplify(src.start + i)).get(e)))
                    else:
                        e.note('array allocated from a slice of symbolic length: contents unconstrained')
            if c.norm.endswith('manage_str') and isinstance(o, AbsObj):
                # interned: the result is the string object whose content is the argument
                e.add_constraint(string_content(e, o) == str_term(e, a[1]))
                e.add_constraint(kind_of(o.id) == okind.vindex['String'])
            return o
        m(r'^(vm::)?Vm::(manage|manage_obj|manage_str)$', m_manage)
        m(r'^(laythe_core::)?(hooks::)?(GcHooks|Hooks)::(manage|manage_obj|manage_str)$', m_manage)
        m(r'^(vm::)?Vm::(push_root|pop_roots)$', lambda e, a, c: UNIT)

        # error exits ------------------------------------------------------------
        def m_runtime_error(e, a, c):
            cls = a[1]
            msg = a[2].s if len(a) > 2 and isinstance(a[2], StrV) else None
            e.path_state['outcome'] = ('runtime_error', _short(cls.id) if isinstance(cls, AbsObj) else str(cls), msg)
            raise PathEnd('vm_error', e.path_state['outcome'])
        m(r'^(vm::)?Vm::(runtime_error|runtime_error_from_str)$', m_runtime_error)

        def m_set_error(e, a, c):
            e.path_state['outcome'] = ('set_error',)
            raise PathEnd('vm_error', e.path_state['outcome'])
        m(r'^(vm::)?Vm::set_error$', m_set_error)

        def m_set_exit(e, a, c):
            e.path_state['outcome'] = ('set_exit',)
            raise PathEnd('vm_exit', e.path_state['outcome'])
        m(r'^(vm::)?Vm::set_exit$', m_set_exit)

        def m_internal_error(e, a, c):
            msg = a[1].s if len(a) > 1 and isinstance(a[1], StrV) else None
            e.path_state['outcome'] = ('internal_error', msg)
            raise PathEnd('internal_error', msg)
        m(r'^(vm::)?Vm::internal_error$', m_internal_error)

        # formatting is never the subject
        eng.allow_havoc(r'^(std|alloc|core)::fmt::', r'^alloc::fmt::format', r'::fmt$', r'^std::fmt::',
                        r'Arguments::', r'^format$', r'^must_use$', r'^<.* as (std::string::|alloc::string::)?ToString>::to_string$',
                        r'^core::fmt::rt::')

    def summarise_calls(self, eng):
        """call boundary: resolve_call replaces callee+args by one result (or raises); handler registration and
        capture counts are recorded as events"""
        P = self.P
        sig = P.enum_def('vm::ExecutionSignal')

        def m_resolve_call(e, a, c):
            vm, callee, argc = a
            st = e.path_state['vm']
            sp = self.sp(e)
            argc64 = z3.ZeroExt(56, argc)
            e.path_state['events'].append(('resolve_call', callee, argc, sp))
            kcall = sum(1 for ev in e.path_state['events'] if ev[0] == 'resolve_call')
            ok = e.fork_bool(z3.Bool(f'call_returns_{kcall}'))
            if not ok:
                e.path_state['outcome'] = ('callee_error',)
                raise PathEnd('vm_error', e.path_state['outcome'])
            newsp = z3.simplify(sp - argc64)
            res = e.fresh('laythe_core::value::Value', f'call_result_{kcall}')
            st.stack.store(e, z3.simplify(newsp - 1), res)
            st.fiber.f[self.fib_idx['stack_top']].set(e, SeqPtr(st.stack, newsp))
            return EnumV('vm::ExecutionSignal', sig.vindex['OkReturn'], None, None, sig)
        eng.model(r'^(vm::)?Vm::resolve_call$', m_resolve_call)

        def m_push_handler(e, a, c):
            e.path_state['events'].append(('push_handler', a[2], a[3]))
            return UNIT
        eng.model(r'^(fiber::)?Fiber::push_exception_handler$', m_push_handler)

        def m_capture_count(e, a, c):
            n = z3.BitVec(e.fresh_name('capture_count'), 64)
            e.add_constraint(z3.ULE(n, 255))
            e.path_state['capture_count'] = n
            return n
        eng.model(r'^(laythe_core::)?(object::)?(fun::)?Fun::capture_count$', m_capture_count)

        def m_instructions(e, a, c):
            st = e.path_state['vm']
            return SliceRef(st.code, bv(0, 64), st.code.len)
        eng.model(r'^(laythe_core::)?(chunk::)?Chunk::instructions$', m_instructions)

        def m_block(e, a, c):
            e.path_state['events'].append((c.norm.rsplit('::', 1)[1],))
            return UNIT
        eng.model(r'^(fiber::)?Fiber::(block|sleep)$', m_block)

    def havoc_objects(self, eng):
        """summarise everything that lives behind managed objects (tables, caches, channels, natives)"""
        eng.allow_havoc(
            r'^(laythe_core::)?(object::)?(\w+::)*(Class|Fun|Closure|Method|Native|LyBox|Channel|Enumerator|Map|Module|Package|Import)::\w+$',
            r'^(laythe_core::)?(object::)?(\w+::)*(LyStr|List|Tuple|Instance)::\w+$',
            r'^<(laythe_core::)?(object::)?(\w+::)*(LyStr|List|Tuple|Instance) as .*>::\w+$',
            r'^(cache::)?InlineCache::\w+$',
            r'^(laythe_lib::)?(\w+::)*(BuiltIn\w*|Primitives\w*)::\w+$',
            r'^(vm::)?Vm::(value_class|inline_cache|inline_cache_mut|read_constant|read_string|queue_blocked_fiber|create_fiber|'
            r'import_module|extract_import_path|full_import_path|build_import|stack_unwind|context_switch)$',
            r'^(laythe_core::)?(hooks::)?(GcHooks|Hooks)::new$',
            r'^(fiber::)?Fiber::(add_used_channel|waiter|get_runnable|block|sleep|unblock|activate|complete|error|set_error|'
            r'error_while_handling|finish_unwind|push_exception_handler|pop_exception_handler|split|ensure_stack)$',
            r'^RefCell::borrow(_mut)?$', r'^(laythe_env::)?(io::)?Io::\w+$', r'^(laythe_env::)?(\w+::)*Env::\w+$', r'^VecDeque::\w+$', r'^Diagnostic::\w+$',
            r'^(codespan_reporting::)?(diagnostic::)?Diagnostic::\w+$', r'^(std::collections::)?(vec_deque::)?VecDeque::\w+$', r'^(vm::)?Vm::gc$', r'^<(laythe_core::)?(object::)?(\w+::)*Instance as (std::ops::|core::ops::)?Index(Mut)?>::index(_mut)?$',
        )
