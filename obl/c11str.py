"""C11.K4 — strings are sequences of Unicode characters: indexing counts characters, never bytes.

The receiver is a string of up to 3 arbitrary Unicode characters (each any scalar value, so 1-4 bytes); the character iterators of
the standard library are modelled exactly on that representation (as in the scanner obligations)."""
import z3
from vfw.core import obligation, get_program, summarize_paths
from mirsym.engine import Engine
from mirsym.values import *
from mirsym.tys import *
from .vmabs import VmWorld, AbsObj, kind_of, object_of
from .c01 import ValView, VALUE
from .c15scan import Src, Chars, _width
from .c11list import _integral, _fp_of

MAXC = 3


class RevChars:
    def __init__(self, src, lo, hi):
        self.src, self.lo, self.hi = src, lo, hi      # character indices [lo, hi) still to yield, from the back

    def copy_value(self, eng):
        return RevChars(self.src, self.lo, self.hi)


class OneChar:
    """the &str produced by char::encode_utf8"""
    def __init__(self, c):
        self.c = c

    def copy_value(self, eng):
        return self


class StrWorld:
    def __init__(self):
        self.P = P = get_program('vm')
        self.e = e = Engine(P, loop_bound=8, timeout_s=300, max_depth=50, max_paths=4000)
        self.W = VmWorld(e, P)
        m = e.model
        OPT = P.enum_def('Option')
        RES = P.enum_def('Result')
        le = P.enum_def('laythe_core::LyError') or P.enum_def('LyError')

        def some(ty, v):
            return EnumV(ty, 1, {'Some': {0: Cell(v)}}, None, OPT)

        def none(ty):
            return EnumV(ty, 0, None, None, OPT)

        def val(e_, v):
            while isinstance(v, Ref):
                v = v.cell.get(e_)
            return v
        # the receiver's text
        m(r'^<(laythe_core::)?(object::)?(\w+::)*LyStr as (std::ops::|core::ops::)?Deref>::deref$', lambda e_, a, c: e_.path_state['text'])
        m(r'^core::str::<impl str>::chars$', lambda e_, a, c: Chars(val(e_, a[0]), 0, val(e_, a[0]).len) if isinstance(val(e_, a[0]), Src) else NotImplemented)
        m(r'^core::str::<impl str>::len$', lambda e_, a, c: val(e_, a[0]).len if isinstance(val(e_, a[0]), Src) else NotImplemented)

        def has(e_, src, k):
            return k < len(src.chars) and e_.fork_bool(z3.ULT(bv(k, 64), src.n))

        def m_nth(e_, a, c):
            it = val(e_, a[0])
            k = a[1]
            if isinstance(it, Chars):
                # skip k characters, yield the next
                rem = z3.simplify(it.src.n - it.pos)
                if not e_.fork_bool(z3.ULT(k, rem)):
                    it.pos = len(it.src.chars)
                    return none('Option<char>')
                kk = e_.concretize(k, list(range(len(it.src.chars) + 1)))
                ch = it.src.chars[it.pos + kk]
                it.pos = it.pos + kk + 1
                return some('Option<char>', ch)
            if isinstance(it, RevChars):
                rem = z3.simplify(it.hi - it.lo)
                if not e_.fork_bool(z3.ULT(k, rem)):
                    return none('Option<char>')
                kk = e_.concretize(k, list(range(len(it.src.chars) + 1)))
                hi = e_.concretize(it.hi, list(range(len(it.src.chars) + 1)))
                return some('Option<char>', it.src.chars[hi - 1 - kk])
            return NotImplemented
        m(r'^<((std|core)::str::)?Chars as (std::iter::|core::iter::)?Iterator>::nth$', m_nth)
        m(r'^<((std::iter::|core::iter::)?(adapters::)?(\w+::)?)?Rev as (std::iter::|core::iter::)?Iterator>::nth$', m_nth)
        m(r'^<((std|core)::str::)?Chars as (std::iter::|core::iter::)?Iterator>::rev$', lambda e_, a, c: RevChars(val(e_, a[0]).src, bv(val(e_, a[0]).pos, 64), val(e_, a[0]).src.n))
        m(r'^<((std|core)::str::)?Chars as (std::iter::|core::iter::)?Iterator>::count$', lambda e_, a, c: z3.simplify(val(e_, a[0]).src.n - val(e_, a[0]).pos))
        m(r'^(core::)?char::methods::<impl char>::encode_utf8$', lambda e_, a, c: OneChar(a[0]))
        m(r'^(core::)?char::methods::<impl char>::len_utf8$', lambda e_, a, c: _width(a[0]))

        def m_manage_str(e_, a, c):
            e_.path_state['made'] = val(e_, a[1])
            return AbsObj(z3.BitVec(e_.fresh_name('newstr'), 64), 'LyStr')
        m(r'^(laythe_core::)?(hooks::)?(Hooks|GcHooks)::manage_str$', m_manage_str)

        def m_call_error(e_, a, c):
            er = EnumV('LyError', le.vindex['Err'], {'Err': {0: Cell(Opaque('Instance', 'raised'))}}, None, le)
            return EnumV('Result<Value, LyError>', 1, {'Err': {0: Cell(er)}}, None, RES)
        m(r'^(laythe_lib::)?(\w+::)*\w+::call_error$', m_call_error)
        e.allow_havoc(r'^(std|alloc|core)::fmt::', r'Arguments::', r'^format$', r'^must_use$', r'^<.* as (std::string::|alloc::string::)?ToString>::to_string$')

    def start(self, e):
        e.path_state['text'] = Src(e, '', MAXC)
        e.path_state['made'] = None
        e.path_state['events'] = []
        e.path_state['allocs'] = 0
        return e.path_state['text']


def _native(P, name):
    f = P.lookup(f'<{name} as LyNative>::call')
    if f is None:
        raise Unsupported('no MIR for native ' + name)
    return f


@obligation('C11.K4.string_index', 'C11', programs=('vm',))
def k4_string_index(res, tier):
    """string[x] for every number x on a string of 0..3 arbitrary Unicode characters: for integral x with -len <= x < len (len counted
    in characters) the result is the one-character string holding character x (negative x from the end); otherwise it raises"""
    W = StrWorld()
    e, P = W.e, W.P
    f = _native(P, 'StringIndexGet')
    res.bounds = {'text': f'0..{MAXC} characters, each any Unicode scalar value (1-4 bytes)', 'x': 'every f64'}
    res.assumptions = ['the new string holds exactly the bytes encode_utf8 produced (manage_str copies its argument: C09.K1)']

    def path(e):
        src = W.start(e)
        recv = AbsObj(z3.BitVec('text_obj', 64), 'LyStr')
        fv = P.lookup('<Value as From<LyStr>>::from')
        rv = e.exec_fn(fv, [recv], 0, None)
        x = z3.FP('x', z3.Float64())
        xv = e.exec_fn(P.lookup('<Value as From<f64>>::from'), [x], 0, None)
        args = ConcSeq('Value', [Cell(rv), Cell(xv)])
        me = Struct('StringIndexGet', None, NameBacking('native_self'))
        r = e.call(f, [Ref(Cell(me)), Ref(Cell(Opaque('Hooks', 'hooks'))), SliceRef(args, bv(0, 64), bv(2, 64))])
        ok = isinstance(r, EnumV) and r.tag == 0
        n = src.n
        valid = z3.And(_integral(x), z3.fpGEQ(x, z3.fpNeg(_fp_of(n))), z3.fpLT(x, _fp_of(n)))
        e.check(z3.BoolVal(ok) == valid, 'string[x]: succeeds exactly when x is an integer with -len <= x < len, len counted in characters', {'x': str(x)})
        if ok:
            made = e.path_state['made']
            e.check(isinstance(made, OneChar), 'string[x]: the result is a one-character string')
            if isinstance(made, OneChar):
                zero = z3.FPVal(0.0, z3.Float64())
                pos = z3.fpToUBV(z3.RTZ(), z3.fpAbs(x), z3.BitVecSort(64))
                idx = z3.If(z3.fpLT(x, zero), n - pos, pos)
                want = src.chars[-1] if src.chars else bv(0, 32)
                for k in range(len(src.chars) - 1, -1, -1):
                    want = z3.If(idx == k, src.chars[k], want)
                e.check(z3.Implies(valid, made.c == want), 'string[x]: the result is character x of the text (negative x counts characters from the end)')
        return {'ok': ok}
    results = e.explore(path)
    for r in results:
        if r.kind in ('oob', 'unreachable', 'ub', 'diverge', 'depth', 'panic'):
            res.fail(f'C11.K4:string_index:{r.kind}', f'string[x]: path ends in {r.kind}: {str(r.info)[:200]}', {'path': str(r.info)})
    summarize_paths(res, e, results, lambda r: r.info if isinstance(r.info, dict) else None, key_prefix='C11.K4:', unwind_ok=False)


# ---------------------------------------------------------------------------------------------- slice bounds by characters
class _CI:
    """str::CharIndices (forward) / Rev<CharIndices>: character positions [lo, hi) still to yield"""
    def __init__(self, src, lo, hi, rev=False):
        self.src, self.lo, self.hi, self.rev = src, lo, hi, rev

    def copy_value(self, eng):
        return _CI(self.src, self.lo, self.hi, self.rev)


@obligation('C11.K4.string_slice_bounds', 'C11', programs=('vm',))
def k4_string_slice(res, tier):
    """StringSlice::string_index(text, x) for every number x on a text of 0..3 arbitrary Unicode characters: an integral x >= 0 names the
    byte offset of character x (the end of the text when x >= len), an integral x < 0 the byte offset of character len - |x| (the start
    when |x| > len), len counted in CHARACTERS; the offset is always a character boundary; a fractional x raises"""
    W = StrWorld()
    e, P = W.e, W.P
    OPT = P.enum_def('Option')
    src_rs = P.items.files['laythe_lib/src/global/primitives/string.rs']
    import re as _re
    mm = _re.search(r'^impl StringSlice \{', src_rs, _re.M)
    line = src_rs.count('\n', 0, mm.start()) + 1
    fs = [f for f in P.fns if f.name.endswith('::string_index') and f'<impl at laythe_lib/src/global/primitives/string.rs:{line}:' in f.name]
    if len(fs) != 1:
        res.inconclusive('StringSlice::string_index not located')
        return
    f = fs[0]
    m = e.model

    def val(e_, v):
        while isinstance(v, Ref):
            v = v.cell.get(e_)
        return v
    m(r'^core::str::<impl str>::char_indices$', lambda e_, a, c: _CI(val(e_, a[0]), bv(0, 64), val(e_, a[0]).n))
    m(r'^<((std|core)::str::)?CharIndices as (std::iter::|core::iter::)?Iterator>::rev$', lambda e_, a, c: _CI(val(e_, a[0]).src, val(e_, a[0]).lo, val(e_, a[0]).hi, True))

    def m_nth(e_, a, c):
        it = val(e_, a[0])
        if not isinstance(it, _CI):
            return NotImplemented
        k = a[1]
        oty = norm_ty(c.dest_ty) if c.dest_ty else 'Option<(usize, char)>'
        rem = z3.simplify(it.hi - it.lo)
        if not e_.fork_bool(z3.ULT(k, rem)):
            return EnumV(oty, 0, None, None, OPT)
        nmax = len(it.src.chars)
        pos = z3.simplify(it.hi - 1 - k) if it.rev else z3.simplify(it.lo + k)
        p = e_.concretize(pos, list(range(nmax)))
        tup = Struct('()', {0: Cell(it.src.off[p]), 1: Cell(it.src.chars[p])}, None)
        return EnumV(oty, 1, {'Some': {0: Cell(tup)}}, None, OPT)
    m(r'^<((std|core)::str::)?CharIndices as (std::iter::|core::iter::)?Iterator>::nth$', m_nth)
    m(r'^<((std::iter::|core::iter::)?(adapters::)?(\w+::)?)?Rev as (std::iter::|core::iter::)?Iterator>::nth$', m_nth)
    res.bounds = {'text': f'0..{MAXC} characters, each any Unicode scalar value (1-4 bytes)', 'x': 'every f64'}

    def path(e):
        src = W.start(e)
        x = z3.FP('x', z3.Float64())
        me = Struct('StringSlice', None, NameBacking('native_self'))
        r = e.call(f, [Ref(Cell(me)), Ref(Cell(Opaque('Hooks', 'hooks'))), src, x])
        ok = isinstance(r, EnumV) and r.tag == 0
        e.check(z3.BoolVal(ok) == _integral(x), 'slice bound: accepted exactly when x is an integer', {'x': str(x)})
        if ok:
            off = e.payload0(r, 'Ok')
            n = src.n
            zero = z3.FPVal(0.0, z3.Float64())
            big = z3.fpGEQ(z3.fpAbs(x), _fp_of(n + 1))
            mag = z3.If(big, n + 1, z3.fpToUBV(z3.RTZ(), z3.fpAbs(x), z3.BitVecSort(64)))
            idx = z3.If(z3.fpLT(x, zero), z3.If(z3.UGT(mag, n), bv(0, 64), n - mag), z3.If(z3.UGT(mag, n), n, mag))
            want = src._sel(idx)
            e.check(z3.Implies(_integral(x), off == want), 'slice bound: the byte offset is that of the character the bound names, counted in characters (negative bounds from the end)',
                    {'x': str(x)})
            e.check(z3.Implies(_integral(x), src.boundary(off)), 'slice bound: the offset is a character boundary')
        return {'ok': ok}
    results = e.explore(path)
    for r in results:
        if r.kind in ('oob', 'unreachable', 'ub', 'diverge', 'depth', 'panic'):
            res.fail(f'C11.K4:string_slice:{r.kind}', f'slice bound: path ends in {r.kind}: {str(r.info)[:200]}', {'path': str(r.info)})
    summarize_paths(res, e, results, lambda r: r.info if isinstance(r.info, dict) else None, key_prefix='C11.K4:slice:', unwind_ok=False)
