"""C11.K5 / C16 — list natives read the list's storage only through views taken after the last callback.

`<List as Deref>` hands out a slice into the list's element block.  A callback into the program (an element's `str()`, a comparator)
may clear, shrink or grow the list: the elements leave the list (and are collected once nothing else holds them) or the block moves,
while a slice taken before the callback still points at the old cells.  Every native of the List class that calls back runs from MIR;
each slice view is stamped with the number of callbacks made so far and every element the native takes out of a view through an
iterator must come from a view stamped with the current number."""
import re
import z3
from vfw.core import obligation
from mirsym.values import *
from mirsym.tys import *
from .c16natives import NativeCastWorld, native_table, _call_fn, _arg_shapes
from .c04k4 import CALLBACK_RX
from .c01 import VALUE

F71_SRC = ('let l = [];\nclass A { str() { l.clear(); let j = []; for i in 3000.times() { j.push("x" + i.str()); } return "A"; } }\n'
           'class B { init() { self.name = "bee"; } str() { return "B:" + self.name; } }\nl.push(A()); l.push(B()); l.push(B());\nprint(l.str());\nprint(l);\n')
F71_REPLAY = dict(kind='lay', source=F71_SRC, expect_stdout='[A]\n[]\n', note='the first element\'s str() clears the list: the native goes on reading the two elements it saw before')


@obligation('C11.K5.list_storage_across_callbacks', 'C11', programs=('vm',), also=('C16', 'C05'))
def k5_list_storage(res, tier):
    """every native of the List class that calls back (hooks.call / call_method), from MIR: an element is taken out of a slice view of
    the receiver only if the view was obtained after the last callback — a callback may clear, shrink or move the list"""
    NW = NativeCastWorld()
    P = NW.P
    extra = 1
    decided, outside = [], []
    res.bounds = {'variadic arguments': f'0..{extra}', 'callbacks per activation': 'loops unrolled 4 times', 'reads observed': 'through slice iterators (direct reads of a kept reference are not observed)'}
    res.assumptions = ['a callback may run any program: it may clear, shrink or grow the receiver']
    units = []
    for ent in native_table(P):
        if ent['meta'] is None or not ent['file'].endswith('primitives/list.rs') or not ent['meta']['is_method']:
            continue
        src = P.items.files[ent['file']]
        mm = re.search(r'^impl LyNative for ' + ent['struct'] + r'\b.*?^\}', src, re.M | re.S)
        if not mm or not CALLBACK_RX.search(mm.group(0)):
            continue
        f = _call_fn(P, ent['file'], ent['struct'])
        if f is not None:
            units.append((ent, f))
    for ent, f in units:
        label = ent['struct']
        W = NativeCastWorld()
        e = W.e
        meta = ent['meta']
        shapes = _arg_shapes(meta, extra)
        sds = [d for d in P.items.structs.get(label, []) if d.file == ent['file']]

        def observer(norm, args, r, how, e=e):
            ps = e.path_state
            if 'views' not in ps:
                return
            hooks_made = sum(1 for x in ps['events'] if x and x[0] == 'hook')
            if re.search(r'(List|RawSharedVector) as (std::ops::|core::ops::)?Deref(Mut)?>::deref', norm) and isinstance(r, SliceRef):
                ps['views'][id(r.seq)] = hooks_made
                ps.setdefault('keep', []).append(r.seq)
            elif re.search(r'slice::Iter(Mut)? as (std::iter::|core::iter::)?Iterator>::next$', norm) and isinstance(r, EnumV):
                it = args[0].cell.get(e) if isinstance(args[0], Ref) else args[0]
                s = getattr(it, 's', None)
                some = r.tag == 1 if isinstance(r.tag, int) else False
                if s is not None and some and id(s.seq) in ps['views'] and ps['views'][id(s.seq)] < hooks_made:
                    ps['stale_reads'].append((ps['views'][id(s.seq)], hooks_made))
        e.call_observer = observer

        def path(e, ent=ent, f=f):
            W.W.fresh_state(e)
            e.path_state['casts'] = []
            e.path_state['views'] = {}
            e.path_state['stale_reads'] = []
            me = Struct(label, None, NameBacking('native_self')) if sds and sds[0].fields else Struct(label, {}, None)
            hooks = Ref(Cell(Opaque('Hooks', 'hooks')))
            if len(shapes) > 1:
                sv = z3.BitVec('shape', 64)
                e.add_constraint(z3.ULT(sv, len(shapes)))
                si = e.concretize(sv, list(range(len(shapes))))
            else:
                si = 0
            kinds = list(shapes[si])
            v = e.fresh(VALUE, 'receiver')
            W.constrain(e, v, 'List')
            vals = [v]
            for j, k in enumerate(kinds):
                x = e.fresh(VALUE, f'arg{j}')
                W.constrain(e, x, k)
                vals.append(x)
            args = ConcSeq('Value', [Cell(x) for x in vals])
            e.call(f, [Ref(Cell(me)), hooks, SliceRef(args, bv(0, 64), bv(len(vals), 64))])
            stale = e.path_state['stale_reads']
            hooks_made = sum(1 for x in e.path_state['events'] if x and x[0] == 'hook')
            if hooks_made:
                e.check(not stale, f'{label}: after a callback the elements are read through a fresh view of the list, not one taken before it',
                        {'view taken after n callbacks, read after m': stale[:2]})
            return {'unit': label, 'callbacks': hooks_made, 'stale reads': len(stale)}
        try:
            results = e.explore(path)
        except Unsupported as ex:
            outside.append(f'{label}: {str(ex)[:140]}')
            continue
        unsup = [r for r in results if r.kind in ('unsupported', 'budget')]
        seen = set()
        for r in results:
            for lab, okc, info in r.checks:
                res.checks += 1
                if not okc and lab not in seen:
                    seen.add(lab)
                    res.fail(f'C11.K5:{label}: elements are read through a view of the list taken before a callback', lab + ' fails', info,
                             replay=F71_REPLAY if label == 'ListStr' else None)
        res.absorb(e)
        res.paths += len(results)
        oks = [r for r in results if r.kind == 'ok' and isinstance(r.info, dict)]
        if any(r.info.get('callbacks') for r in oks):
            res.nontrivial += 1
            decided.append(label + (' (some paths not encoded)' if unsup else ''))
        elif unsup:
            outside.append(f'{label}: {str(unsup[0].info)[:160]}')
    res.bounds['natives decided'] = decided
    if not decided:
        res.inconclusive('no list native with a callback was decided')
    res.outside = (res.outside or []) + ['not encoded: ' + x for x in outside]


F72_SRC = 'let n = 0;\nlet l = 30.times().list();\nprint(l.sort(|a, b| { n = n + 1; return (n / 2).floor() * 2 == n ? 1 : -1; }).len());\n'
F72_REPLAY = dict(kind='lay', source=F72_SRC, expect_stdout='30\n', bad_re='panicked', bad_exit=[101, 134, -6], note='a comparator that is not a total order')


@obligation('C16.K7.no_program_comparator_in_std_sort', 'C16', programs=('vm',), also=('C11',))
def k7_std_sort(res, tier):
    """every native of the List class from MIR: the comparator handed to a sort of the standard library (slice::sort_by and relatives,
    which are allowed to panic when the order is not total) never calls back into the program — a program decides what its
    comparator returns, so it could make the host panic"""
    from .c04k4 import _world
    P = NativeCastWorld().P
    extra = 1
    decided = []
    res.bounds = {'variadic arguments': f'0..{extra}'}
    res.assumptions = ['slice::sort_by / sort_unstable_by may panic when the comparator is not a total order (documented since Rust 1.81)']
    for ent in native_table(P):
        if ent['meta'] is None or not ent['file'].endswith('primitives/list.rs') or not ent['meta']['is_method']:
            continue
        src = P.items.files[ent['file']]
        mm = re.search(r'^impl LyNative for ' + ent['struct'] + r'\b.*?^\}', src, re.M | re.S)
        if not mm or 'sort' not in mm.group(0):
            continue
        f = _call_fn(P, ent['file'], ent['struct'])
        if f is None:
            continue
        label = ent['struct']
        W = _world()
        e = W.e
        meta = ent['meta']
        shapes = _arg_shapes(meta, extra)
        sds = [d for d in P.items.structs.get(label, []) if d.file == ent['file']]

        def m_std_sort(e_, a, c):
            s_, cmp_ = a
            while isinstance(s_, Ref):
                s_ = s_.cell.get(e_)
            ln = e_.slice_len(s_)
            if e_.fork_bool(z3.UGE(ln, 2)):
                before = len(e_.path_state.get('callbacks', []))
                x = Ref(e_.seq_cell(s_.seq, z3.simplify(s_.start + 0)))
                y = Ref(e_.seq_cell(s_.seq, z3.simplify(s_.start + 1)))
                e_.call_value(c.frame, cmp_, [x, y])
                if len(e_.path_state.get('callbacks', [])) > before:
                    e_.path_state['program_comparator'] = c.norm
            return UNIT
        e.model(r'^((core|alloc|std)::)?slice::<impl \[.*\]>::sort(_unstable)?_by(_key|_cached_key)?$', m_std_sort)

        def path(e, ent=ent, f=f):
            W.W.fresh_state(e)
            e.path_state['casts'] = []
            me = Struct(label, None, NameBacking('native_self')) if sds and sds[0].fields else Struct(label, {}, None)
            hooks = Ref(Cell(Opaque('Hooks', 'hooks')))
            if len(shapes) > 1:
                sv = z3.BitVec('shape', 64)
                e.add_constraint(z3.ULT(sv, len(shapes)))
                si = e.concretize(sv, list(range(len(shapes))))
            else:
                si = 0
            v = e.fresh(VALUE, 'receiver')
            W.constrain(e, v, 'List')
            vals = [v]
            for j, k in enumerate(list(shapes[si])):
                x = e.fresh(VALUE, f'arg{j}')
                W.constrain(e, x, k)
                vals.append(x)
            args = ConcSeq('Value', [Cell(x) for x in vals])
            e.call(f, [Ref(Cell(me)), hooks, SliceRef(args, bv(0, 64), bv(len(vals), 64))])
            pc = e.path_state.get('program_comparator')
            e.check(pc is None, f'{label}: no callback into the program runs inside a sort of the standard library', {'sort': pc})
            return {'unit': label, 'callbacks': len(e.path_state.get('callbacks', []))}
        try:
            results = e.explore(path)
        except Unsupported as ex:
            res.outside = (res.outside or []) + [f'not encoded: {label}: {str(ex)[:140]}']
            continue
        seen = set()
        for r in results:
            for lab, okc, info in r.checks:
                res.checks += 1
                if not okc and lab not in seen:
                    seen.add(lab)
                    res.fail(f'C16.K7:{label}: a program comparator runs inside a standard library sort', lab + ' fails: the sort may panic on an order that is not total', info, replay=F72_REPLAY)
        res.absorb(e)
        res.paths += len(results)
        oks = [r for r in results if r.kind == 'ok' and isinstance(r.info, dict)]
        if oks:
            res.nontrivial += 1
            decided.append(label + (' (comparator called)' if any(r.info.get('callbacks') for r in oks) else '') + (' (some paths not encoded)' if any(r.kind in ('unsupported', 'budget') for r in results) else ''))
        else:
            res.outside = (res.outside or []) + [f'not encoded: {label}: {str([r.info for r in results if r.kind in ("unsupported", "budget")][:1])[:160]}']
    res.bounds['natives decided'] = decided
    if not decided:
        res.inconclusive('no sorting native was decided')
