"""helpers shared by obligations"""
import z3
from mirsym.values import *
from mirsym.tys import *
from mirsym.engine import Engine


def flatten(e, v, ty):
    """leaf z3 terms of a by-value aggregate, in field order"""
    if type(v) is Lazy:
        v = v.force(e)
    if isinstance(v, (z3.ExprRef,)):
        return [v]
    if isinstance(v, bool):
        return [z3.BoolVal(v)]
    if isinstance(v, Struct):
        out = []
        if v.ty == '()':
            tys = split_top_ty(ty) if ty else [None] * len(v.f)
            n = max(len(tys), (max(v.f) + 1) if v.f else 0)
            for i in range(n):
                fty = tys[i] if i < len(tys) else None
                out += flatten(e, v.field(e, i, fty).get(e) if v.backing is not None else v.f[i].get(e), fty)
            return out
        sd = e.P.struct_def(v.ty)
        for i, (_, fty) in enumerate(sd.fields):
            fty = subst_generics(fty, sd, v.ty)
            c = v.field(e, i, fty) if v.backing is not None else v.f[i]
            out += flatten(e, c.get(e), fty)
        return out
    if isinstance(v, EnumV):
        name, ops = decode_enum(e, v)
        return [bv(v.edef.vindex[name], 64)] + ops
    raise Unsupported('flatten ' + type(v).__name__)


def split_top_ty(ty):
    from mirsym.mir import split_top
    t = norm_ty(ty)
    if t.startswith('(') and t.endswith(')'):
        return split_top(t[1:-1])
    return [t]


def decode_enum(e, v):
    """(variant name, [flattened operand leaf terms]); forks on the variant if it is symbolic"""
    ed = v.edef
    t = v.tag
    if not isinstance(t, int):
        t = e.concretize(t, list(range(len(ed.variants))))
    vn, kind, fields, _ = ed.variants[t]
    ops = []
    for i, (_, fty) in enumerate(fields):
        fty = subst_generics(fty, ed, v.ty)
        c = v.field(e, vn, i, fty) if v.backing is not None else v.payload[vn][i]
        ops += flatten(e, c.get(e), fty)
    return vn, ops


def elem_value(e, seq, term):
    """materialise the element value behind a term of a symbolic sequence"""
    if seq.scalar_sort is not None:
        return term
    return e.materialise(seq.elem_ty, TermBacking(term, seq.tyname))


def tag_term(e, seq, term):
    return TermBacking(term, seq.tyname).child('tag').leaf(e, z3.BitVecSort(64))
