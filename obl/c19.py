"""C19 — an interactive session behaves like one file.  Kernel: Vm::compile (the function every prompt entry and every module goes
through) keeps inline-cache slot ids valid and unambiguous across repeated compiles of one module."""
import re
import z3
from vfw.core import obligation, get_program, summarize_paths
from mirsym.engine import Engine
from mirsym.values import *
from mirsym.tys import *
from .vmabs import VmWorld, AbsObj, AbsGc, install_gc_refs

F11_STDIN = ('class A { foo() { return 1; } bar() { return 2; } }\n'
             'fn f(a) { return a.foo(); }\n'
             'let a = A();\n'
             'fn g(x) { return x.bar(); } print(g(a)); print(f(a));\n')
F11_REPLAY = dict(kind='repl', stdin=F11_STDIN, expect_stdout_re=r'2\s*\n1\s*\n',
                  note='f calls foo (1); with shared slot ids it is answered from g\'s cache entry (2)')


@obligation('C19.K1.cache_ids_across_compiles', 'C19', programs=('vm',), also=('C13',))
def k1_cache_ids(res, tier):
    """Vm::compile with parser / resolver / compiler summarised by their results: the cache ids handed out by a compile start where
    the module's existing inline cache ends (so a later prompt entry never shares a slot with a call site compiled earlier), and
    after a successful compile the module's cache holds every id ever handed out for it"""
    P = get_program('vm')
    e = Engine(P, loop_bound=6, timeout_s=240, max_depth=60)
    W = VmWorld(e, P)
    W.havoc_objects(e)
    install_gc_refs(e, exclude=('Fiber',))
    e.havoc = [rx for rx in e.havoc if 'InlineCache' not in rx.pattern]      # the cache is the subject: executed from MIR
    res.bounds = {'existing caches': '2 modules with caches of any sizes; the compiled module is one of them or a new one', 'module id': 'any', 'ids handed out by this compile': 'any number'}
    res.assumptions = ['parser, resolver and the lowering are summarised by their results; the compiler hands out consecutive ids '
                       'starting from the emitter state it was created with (CacheIdEmitter unit semantics, executed from MIR)']
    m = e.model
    RES = P.enum_def('Result')
    e.allow_havoc(r'^(compiler::)?(parser::)?Parser::new$', r'^(compiler::)?(resolver::)?Resolver::new$', r'^Bump::new$', r'^bumpalo::Bump::new$',
                  r'^<.* as (std::clone::|core::clone::)?Clone>::clone$', r'^(laythe_core::)?(allocator::)?Allocator::\w+$',
                  r'^<(laythe_core::)?(allocator::)?Allocator as (std::default::|core::default::)?Default>::default$',
                  r'^(compiler::)?FunBuilder::new$', r'^(laythe_core::)?(\w+::)*FunBuilder::new$', r'^<.*Arity as .*Default>::default$',
                  r'^(vm::)?Vm::manage_obj$')

    def ok(v):
        return EnumV('Result', 0, {'Ok': {0: Cell(v)}}, None, RES)

    def err():
        return EnumV('Result', 1, {'Err': {0: Cell(Opaque('Vec<Diagnostic>', 'errors'))}}, None, RES)

    def m_parse(e_, a, c):
        r = ok(Opaque('ast::Module', 'ast')) if e_.fork_bool(z3.Bool('parse_ok')) else err()
        return Struct('()', {0: Cell(r), 1: Cell(Opaque('LineOffsets', 'line_offsets'))}, None)
    m(r'^(compiler::)?(parser::)?Parser::parse$', m_parse)
    m(r'^(\w+::)*VmFiles::update_line_offsets$', lambda e_, a, c: ok(UNIT))
    m(r'^(compiler::)?(resolver::)?Resolver::resolve$', lambda e_, a, c: ok(UNIT) if e_.fork_bool(z3.Bool('resolve_ok')) else err())
    m(r'^(std::cell::|core::cell::)?RefCell::replace$', lambda e_, a, c: Opaque('Allocator', 'gc'))
    m(r'^(std::cell::|core::cell::)?RefCell::new$', lambda e_, a, c: a[0])
    m(r'^(std::rc::|alloc::rc::)?Rc::new$', lambda e_, a, c: e_.RcRefCell(Cell(a[0])))

    def m_take(e_, a, c):
        v = a[0]
        while isinstance(v, Ref):
            v = v.cell.get(e_)
        if isinstance(v, e_.RcRefCell):
            return v.inner.get(e_)
        return NotImplemented
    m(r'^(std::cell::|core::cell::)?RefCell::take$', m_take)
    m(r'^(laythe_core::)?(module::)?Module::id$', lambda e_, a, c: z3.BitVec('module_id', 64))

    emit_sd = P.struct_def('cache::CacheIdEmitter')
    comp_sd = P.struct_def('compiler::Compiler')

    def counts(e_, em):
        out = []
        for i, (nm, ty) in enumerate(emit_sd.fields):
            ide = em.field(e_, i, ty).get(e_)
            out.append(ide.field(e_, 0, 'usize').get(e_))
        return out

    def m_compile(e_, a, c):
        comp = a[0]
        while isinstance(comp, Ref):
            comp = comp.cell.get(e_)
        i = comp_sd.index_of('cache_id_emitter')
        rc = comp.field(e_, i, comp_sd.fields[i][1]).get(e_)
        em = rc.inner.get(e_)
        p0, i0 = counts(e_, em)
        e_.path_state['emitter_start'] = (p0, i0)
        kp, ki = z3.BitVec('ids_property', 64), z3.BitVec('ids_invoke', 64)
        e_.add_constraint(z3.And(z3.ULT(kp, 1 << 31), z3.ULT(ki, 1 << 31), z3.ULT(p0, 1 << 31), z3.ULT(i0, 1 << 31)))
        em2 = e_.fresh('cache::CacheIdEmitter', 'emitter_after')
        q0, q1 = counts(e_, em2)
        e_.add_constraint(z3.And(q0 == p0 + kp, q1 == i0 + ki))
        e_.path_state['emitter_end'] = (p0 + kp, i0 + ki)
        okc = e_.fork_bool(z3.Bool('compile_ok'))
        r = ok(Opaque('Fun', 'fun')) if okc else err()
        return Struct('()', {0: Cell(r), 1: Cell(Opaque('Allocator', 'gc')), 2: Cell(em2)}, None)
    m(r'^(compiler::)?Compiler::compile$', m_compile)

    f = P.lookup('vm::Vm::compile') or [x for x in P.fns if x.name.endswith('::compile') and 'source_loader' in x.name and 'closure' not in x.name][0]
    vm_sd = P.struct_def('vm::Vm')
    ic_i = vm_sd.index_of('inline_cache')
    ic_sd = P.struct_def('cache::InlineCache')

    def cache_lens(e_, caches, idx):
        c = caches.cells[idx].get(e_)
        out = []
        for k in ('property', 'invoke'):
            j = ic_sd.index_of(k)
            v = c.field(e_, j, ic_sd.fields[j][1]).get(e_)
            out.append(v.len)
        return out

    def path(e):
        st = W.fresh_state(e)
        # two existing modules with arbitrary caches (what other modules hold is irrelevant to the module being compiled)
        caches = ConcSeq('cache::InlineCache', [Cell(e.fresh('cache::InlineCache', f'cache{k}')) for k in range(2)])
        st.vm.f[ic_i] = Cell(caches)
        n0 = 2
        midv = z3.BitVec('module_id', 64)
        # an existing module has its own index; a new module has an id at or BEYOND the number of caches: Vm::module hands out an id for
        # every module it creates, also for one whose compile then fails and that never gets a cache
        e.add_constraint(z3.ULE(midv, n0 + 1))
        mid = e.concretize(midv, [0, 1, 2, 3])
        had = mid < n0
        pre = cache_lens(e, caches, mid) if had else [bv(0, 64), bv(0, 64)]
        for x in pre:
            e.add_constraint(z3.ULT(x, 1 << 31))
        repl = z3.Bool('repl')
        module = AbsGc(z3.BitVec('module', 64), 'Module')
        r = e.call(f, [Ref(st.vm_cell), repl, module, Ref(Cell(Opaque('Source', 'source'))), Opaque('VmFileId', 'file_id')])
        caches2 = st.vm.field(e, ic_i, vm_sd.fields[ic_i][1]).get(e)
        succeeded = isinstance(r, EnumV) and r.tag == 0
        start = e.path_state.get('emitter_start')
        info = {'existing_cache': had, 'compiled': start is not None, 'ok': succeeded}
        if start is not None:
            e.check(z3.And(start[0] == pre[0], start[1] == pre[1]),
                    'ids handed out by this compile start where the ids of earlier compiles of the module end (no call site shares a slot with an earlier one)',
                    {'existing_cache': had})
        if succeeded:
            end = e.path_state['emitter_end']
            e.check(mid < len(caches2.cells), 'the module has a cache at the index of its id (ids skipped by modules that failed to compile included)',
                    {'module_id': mid, 'caches': len(caches2.cells)})
            if mid < len(caches2.cells):
                post = cache_lens(e, caches2, mid)
                e.check(z3.And(z3.UGE(post[0], end[0]), z3.UGE(post[1], end[1])), 'after a successful compile every id handed out is inside the module\'s cache')
                e.check(z3.And(z3.UGE(post[0], pre[0]), z3.UGE(post[1], pre[1])), 'the ids of earlier compiles of the module stay inside its cache')
        else:
            e.check(len(caches2.cells) == n0, 'a failed compile adds no cache')
            if had:
                post = cache_lens(e, caches2, mid)
                e.check(z3.And(post[0] == pre[0], post[1] == pre[1]), 'a failed compile leaves the module\'s cache usable for the earlier definitions')
        return info
    results = e.explore(path)
    for r in results:
        if r.kind in ('panic', 'oob', 'unreachable', 'ub', 'diverge', 'depth'):
            res.fail(f'C19.K1:compile:{r.kind}', f'Vm::compile: path ends in {r.kind}: {str(r.info)[:200]}', {'path': str(r.info)})
    summarize_paths(res, e, results, lambda r: r.info if isinstance(r.info, dict) else None, key_prefix='C19.K1:', unwind_ok=False)
    for fd in res.findings:
        if 'start where the ids of earlier compiles' in fd.key:
            fd.replay = F11_REPLAY
        if 'has a cache at the index of its id' in fd.key:
            fd.replay = F52_REPLAY


F52_REPLAY = dict(kind='repl', stdin='import self.bad;\nimport self.good;\nprint(good.mk());\n',
                  files={'bad.lay': 'let x = ;\n', 'good.lay': 'export class G { init() { self.v = 3; } get() { return self.v; } }\nexport fn mk() { let g = G(); return g.get() + g.v; }\n'},
                  expect_stdout_re=r'(^|\n)6', bad_re='panicked|unsafe precondition', bad_exit=[101, 134, -6, -11])


@obligation('C19.K2.unhandled_error_keeps_session', 'C19', programs=('vm',))
def k2_unhandled(res, tier):
    """Vm::stack_unwind with the fiber's unwind summarised to its three outcomes: an error nobody handles is printed and reported as
    a runtime error, and the state a session carries from one prompt entry to the next (run queue of launched fibers, packages,
    module cache, inline caches) is left exactly as it was"""
    P = get_program('vm')
    e = Engine(P, loop_bound=5, timeout_s=120, max_depth=40)
    W = VmWorld(e, P)
    W.havoc_objects(e)
    install_gc_refs(e, exclude=('Fiber',))
    res.bounds = {'unwind outcome': 'all UnwindResult variants', 'execution mode': 'Normal and CallingNativeCode(any depth)'}
    res.assumptions = ['Fiber::stack_unwind summarised by its result (its own behaviour is C04.K2)']
    ur = P.enum_def('fiber::UnwindResult')
    e.havoc = [rx for rx in e.havoc if 'VecDeque' not in rx.pattern and 'stack_unwind' not in rx.pattern]

    def m_fiber_unwind(e_, a, c):
        kv = z3.BitVec('unwind_result', 64)
        e_.add_constraint(z3.ULT(kv, len(ur.variants)))
        k = e_.concretize(kv, list(range(len(ur.variants))))
        vn = ur.variants[k][0]
        e_.path_state['unwind'] = vn
        if ur.variants[k][2]:
            fr = e_.fresh('fiber::call_frame::CallFrame', 'handler_frame')
            return EnumV('fiber::UnwindResult', k, {vn: {0: Cell(Ref(Cell(fr)))}}, None, ur)
        return EnumV('fiber::UnwindResult', k, None, None, ur)
    e.model(r'^(fiber::)?Fiber::stack_unwind$', m_fiber_unwind)

    def m_queue_op(e_, a, c):
        e_.path_state['events'].append(('queue', c.norm.rsplit('::', 1)[1]))
        return e_.fresh(c.dest_ty, e_.fresh_name('queue_op')) if c.dest_ty and norm_ty(c.dest_ty) != '()' else UNIT
    e.model(r'^(std::collections::)?(vec_deque::)?VecDeque::\w+$', m_queue_op)
    e.model(r'^(vm::)?Vm::print_error$', lambda e_, a, c: e_.path_state['events'].append(('print_error',)) or UNIT)
    e.model(r'^(vm::)?Vm::store_ip$', lambda e_, a, c: UNIT)
    f = P.lookup('vm::Vm::stack_unwind')
    vm_sd = P.struct_def('vm::Vm')
    keep = ['fiber_queue', 'packages', 'module_cache', 'inline_cache']
    mode_ed = P.enum_def('vm::ExecutionMode')
    er = P.enum_def('vm::ExecutionResult')

    def path(e):
        st = W.fresh_state(e)
        before = {}
        for k in keep:
            i = vm_sd.index_of(k)
            before[k] = st.vm.field(e, i, vm_sd.fields[i][1])
        snap = {k: before[k].get(e) for k in keep}
        mode = e.fresh('vm::ExecutionMode', 'mode')
        r = e.call(f, [Ref(st.vm_cell), Opaque('Instance', 'error'), mode])
        vn = e.path_state.get('unwind')
        ev = e.path_state['events']
        if vn == 'Unhandled':
            e.check(('print_error',) in ev, 'an unhandled error is printed')
            e.check(isinstance(r, EnumV) and r.tag == 1 and e.payload0(r, 'Some').variant_name() == 'RuntimeError', 'an unhandled error ends the entry with a runtime error')
            e.check(not [x for x in ev if x[0] == 'queue'], 'an unhandled error leaves the run queue (fibers launched by earlier entries) untouched', {'events': str(ev)})
            for k in keep:
                i = vm_sd.index_of(k)
                e.check(st.vm.f[i] is before[k] and st.vm.f[i].get(e) is snap[k], f'an unhandled error leaves {k} untouched')
        elif vn == 'PotentiallyHandled':
            e.check(isinstance(r, EnumV) and r.tag == 0, 'a handled error continues execution')
        return {'unwind': vn}
    results = e.explore(path)
    for r in results:
        if r.kind in ('panic', 'oob', 'unreachable', 'ub', 'diverge', 'depth'):
            res.fail(f'C19.K2:stack_unwind:{r.kind}', f'Vm::stack_unwind: path ends in {r.kind}: {str(r.info)[:200]}', {'path': str(r.info)})
    summarize_paths(res, e, results, lambda r: r.info if isinstance(r.info, dict) else None, key_prefix='C19.K2:', unwind_ok=False)
