"""C16 — no accepted program can crash the runtime.  Kernels: the call depth limit holds on every path that pushes a frame (closures,
functions and natives that get their own frame), so recursion of any shape ends in the catchable stack-overflow error and never in
a host stack overflow."""
import z3
from vfw.core import obligation, get_program, summarize_paths
from mirsym.engine import Engine
from mirsym.values import *
from mirsym.tys import *
from .vmabs import VmWorld, AbsObj, AbsGc, install_gc_refs, kind_of
from .c01 import END_KINDS

F21_SRC = '''fn f(n) {
  [1].iter().each(|x| f(n + 1));
}
fn g() { f(0); }
try {
  g();
} catch e: Error {
  print("caught");
}
print("done");
'''
F21_BOUNDARY_SRC = '// Unbounded recursion has to end in a catchable "Stack overflow." error, also when\n// the recursion passes through the callback of a native.\n//\n// `plunge` goes down 253 ordinary frames and then calls Iter.each, a native that runs\n// on a call frame of its own, so that this native is entered when the fiber holds\n// exactly 255 frames (script + plunge(253) .. plunge(0)). Its callback starts a\n// recursion that never ends. No frame using native is called from there on: List.pop\n// and Iter.first do not take a frame, Iter.first drives a map iterator prepared\n// beforehand, whose callback is `step` again.\n\nlet pool = [];\n\nfn step(x) {\n  return pool.pop().first();\n}\n\nfor i in 20000.times() {\n  pool.push([1].iter().map(step));\n}\n\nfn plunge(n) {\n  if n == 0 {\n    [1].iter().each(step);\n    return nil;\n  }\n  return plunge(n - 1);\n}\n\ntry {\n  plunge(253);\n  print("returned");\n} catch e: Error {\n  print(e.message);\n}\n'
F21_REPLAY = dict(kind='lay', source=F21_SRC, expect_stdout='caught\ndone\n',
                  alternatives=[dict(kind='lay', source=F21_BOUNDARY_SRC, expect_stdout='Stack overflow.\n', bad_re='overflowed its stack')])


def _depth_kernel(res, fname, mk_args, label):
    P = get_program('vm')
    e = Engine(P, loop_bound=5, timeout_s=240, max_depth=60)
    W = VmWorld(e, P)
    W.havoc_objects(e)
    W.summarise_calls(e)
    maxf = None
    cf = P.lookup_const('MAX_FRAME_SIZE', None) if hasattr(P, 'lookup_const') else None
    opt = P.enum_def('Option')
    sig = P.enum_def('vm::ExecutionSignal')
    rt_key = W.field_key('vm::Vm', ['builtin', 'errors', 'runtime']) + '.id'

    def m_check(e_, a, c):
        # arity / signature gate: either rejects the call (its own behaviour is C16.K1) or lets it through
        if e_.fork_bool(z3.Bool(e_.fresh_name('call_rejected'))):
            e_.path_state['events'].append(('rejected',))
            return EnumV('Option<ExecutionSignal>', 1, {'Some': {0: Cell(EnumV('vm::ExecutionSignal', sig.vindex['RuntimeError'], None, None, sig))}}, None, opt)
        return EnumV('Option<ExecutionSignal>', 0, None, None, opt)
    e.model(r'^(vm::)?Vm::(check_arity|check_native_arity)$', m_check)

    def m_push_frame(e_, a, c):
        st = e_.path_state['vm']
        fr = st.fiber.f[W.fib_idx['frames']].get(e_)
        e_.path_state['events'].append(('push_frame', fr.len))
        fr.len = z3.simplify(fr.len + 1)
        return UNIT
    e.model(r'^(vm::)?Vm::push_frame$', m_push_frame)
    # the name a native's frame shows in tracebacks: the pooled stub function is renamed for every call
    e.model(r'^(laythe_core::)?(object::)?(native::)?Native::name$', lambda e_, a, c: AbsObj(z3.BitVec('name_of_the_native', 64), 'LyStr'))
    e.model(r'^(laythe_core::)?(object::)?(fun::)?Fun::set_name$', lambda e_, a, c: e_.path_state['events'].append(('set_name', a[1], len([x for x in e_.path_state['events'] if x[0] == 'push_frame']))) or UNIT)
    e.model(r'^(laythe_core::)?(object::)?(fun::)?Fun::stub$', lambda e_, a, c: (e_.path_state['events'].append(('stub_created', a[1])), e_.fresh(norm_ty(c.dest_ty), e_.fresh_name('stub')))[1])

    def m_pop_frame(e_, a, c):
        st = e_.path_state['vm']
        fr = st.fiber.f[W.fib_idx['frames']].get(e_)
        fr.len = z3.simplify(fr.len - 1)
        return opt and EnumV('Option<ExecutionSignal>', 0, None, None, opt)
    e.model(r'^(vm::)?Vm::pop_frame$', m_pop_frame)
    e.allow_havoc(r'^(fiber::)?Fiber::stack_slice$', r'^(vm::)?Vm::gc$', r'^assert_roots$', r'^(vm::)?(ops::)?assert_roots$',
                  r'^(std|core|alloc)::slice::<impl \[.*\]>::to_vec$', r'^(std::option::|core::option::)?Option::unwrap_or_else$', r'^(fiber::)?Fiber::(push|drop_n)$')
    f = P.lookup('vm::Vm::' + fname)
    # the limit is the constant of the implementation
    import re
    src = open(P.repo + '/laythe_vm/src/constants.rs').read()
    MAXF = int(re.search(r'MAX_FRAME_SIZE: usize = (\d+)', src).group(1))
    res.bounds = {'frames before the call': f'any 1..{MAXF}', 'callee': 'any', 'MAX_FRAME_SIZE': MAXF}
    res.assumptions = ['arity / signature gates either reject the call or let it through', 'the native body is summarised by an arbitrary result']

    def path(e):
        st = W.fresh_state(e)
        frames = st.fiber.f[W.fib_idx['frames']].get(e)
        n0 = frames.len
        e.add_constraint(z3.ULE(n0, MAXF))          # the invariant being established (fresh_state: 1 <= frames <= 255)
        outcome, s = 'ok', None
        try:
            s = e.call(f, [Ref(st.vm_cell)] + mk_args(e, P))
        except PathEnd as pe:
            if pe.kind not in END_KINDS:
                raise
            outcome = pe.kind
        ev = e.path_state['events']
        pushes = [x for x in ev if x[0] == 'push_frame']
        for p in pushes:
            e.check(z3.ULT(p[1], MAXF), f'{label}: a frame is pushed only while fewer than MAX_FRAME_SIZE frames are active (call depth stays bounded on every path)',
                    {'frames_before': str(n0)})
        if fname == 'call_native' and pushes:
            # the frame pushed for the native is named after THIS native (tracebacks: C18), whichever native used the pooled stub before
            named = [x for x in ev if x[0] == 'set_name' and x[2] == 0]
            from .vmabs import object_of
            okn = bool(named) and e.is_valid(object_of(e, named[-1][1]).id == z3.BitVec('name_of_the_native', 64))
            e.check(okn, 'call_native: the frame of a native carries the name of that native (the pooled stub is renamed before the frame is pushed)')
        o = e.path_state['outcome']
        if outcome == 'vm_error' and o and o[0] == 'runtime_error' and not pushes and ('rejected',) not in ev:
            e.check(rt_key[:12] in str(o[1]), f'{label}: exceeding the depth limit is a runtime error (catchable), not a crash', {'outcome': str(o)})
        return {'fn': fname, 'outcome': outcome, 'pushed': len(pushes)}
    results = e.explore(path)
    for r in results:
        if r.kind in ('oob', 'unreachable', 'ub', 'diverge', 'depth'):
            res.fail(f'C16.K2:{fname}:{r.kind}', f'{fname}: path ends in {r.kind}: {str(r.info)[:200]}', {'path': str(r.info)})
    summarize_paths(res, e, results, lambda r: r.info if isinstance(r.info, dict) else None, key_prefix=f'C16.K2:{fname}:', unwind_ok=False)
    for fd in res.findings:
        if 'call depth stays bounded' in fd.key:
            fd.replay = F21_REPLAY


@obligation('C16.K2.depth_call_closure', 'C16', programs=('vm',))
def k2_closure(res, tier):
    """Vm::call_closure from any state with at most MAX_FRAME_SIZE frames: pushes a frame only below the limit, otherwise raises the
    stack-overflow runtime error"""
    _depth_kernel(res, 'call_closure', lambda e, P: [AbsObj(z3.BitVec('closure', 64), 'ObjRef<Closure>'), z3.BitVec('argc', 8)], 'call_closure')


@obligation('C16.K2.depth_call', 'C16', programs=('vm',))
def k2_call(res, tier):
    """Vm::call (plain functions): same limit"""
    _depth_kernel(res, 'call', lambda e, P: [AbsObj(z3.BitVec('fun', 64), 'ObjRef<Fun>'), z3.BitVec('argc', 8)], 'call')


@obligation('C16.K2.depth_call_native', 'C16', programs=('vm',), also=('C18',))
def k2_native(res, tier):
    """Vm::call_native: a native that gets its own frame (it may call back into Laythe code) is subject to the same limit, so
    recursion through native callbacks cannot grow the call depth without bound"""
    _depth_kernel(res, 'call_native', lambda e, P: [AbsObj(z3.BitVec('native', 64), 'ObjRef<Native>'), z3.BitVec('argc', 8)], 'call_native')


F14_SRC = 'class L : List {}\nlet l = L();\nl.push(1);\nprint("survived");\n'
F14_REPLAY = dict(kind='lay', source=F14_SRC, bad_exit=[134, 139, -6, -11, 101],
                  note='the natives of List cast their receiver unchecked; an Instance of a subclass reaches them')
VALUE_CLASSES = ['nil', 'bool', 'channel', 'class', 'fun', 'number', 'string', 'list', 'tuple', 'map', 'iter', 'closure', 'method', 'native_fun']


F64_REPLAY = dict(kind='lay', source='class Object {}\n', bad_exit=[101, 134, -6], bad_re=r'panicked at',
                  note='the implicit superclass Object resolves to the class being declared: it inherits from itself')


@obligation('C16.K3.op_inherit_receivers', 'C16', programs=('vm',))
def k3_inherit(res, tier):
    """op_inherit for any two stack values: it succeeds only for a superclass whose values are ordinary instances. The methods of the
    builtin value classes (List, String, Map, Number, ...) are natives that cast their receiver without a check; that is sound
    only while no Instance can have one of those classes among its ancestors"""
    P = get_program('vm')
    e = Engine(P, loop_bound=5, timeout_s=240, max_depth=60)
    W = VmWorld(e, P)
    W.havoc_objects(e)
    W.summarise_calls(e)
    f = P.lookup('vm::Vm::op_inherit')
    res.bounds = {'stack values': 'any', 'builtin value classes': VALUE_CLASSES}
    res.assumptions = ['Class::inherit / meta_from_super are summarised (class tables: C03.K1)']
    okind = P.enum_def('laythe_core::object::ObjectKind')
    # the builtin tables are consulted for real (which classes count as value classes is the subject)
    e.havoc = [rx for rx in e.havoc if 'BuiltIn' not in rx.pattern]

    def m_inherit(e_, a, c):
        from .vmabs import object_of
        e_.path_state['events'].append(('inherit', object_of(e_, a[2]).id, object_of(e_, a[0]).id))
        return UNIT
    e.model(r'^(laythe_core::)?(object::)?(class::)?Class::inherit$', m_inherit)

    def path(e):
        st = W.fresh_state(e)
        e.add_constraint(z3.UGE(st.sp, st.fb + 2))
        from .c01 import ValView
        sup = ValView(e, P, W.stack_at(e, z3.simplify(st.sp - 2)))
        outcome, s = 'ok', None
        try:
            s = e.call(f, [Ref(st.vm_cell)])
        except PathEnd as pe:
            if pe.kind not in END_KINDS:
                raise
            outcome = pe.kind
        inh = [x for x in e.path_state['events'] if x[0] == 'inherit']
        for _, sid, subid in inh:
            # meta_from_super needs a complete superclass (one whose own class statement has linked its meta class); the class being
            # defined is not complete yet, so it must not be its own superclass
            e.check(sid != subid, 'op_inherit: the class being defined is never handed to Class::inherit as its own superclass')
            # whatever route resolved the superclass (a class value, or the box a captured `super` lives in)
            for k in VALUE_CLASSES:
                key = W.field_key('vm::Vm', ['builtin', 'primitives', k]) + '.id'
                e.check(sid != z3.BitVec(key, 64),
                        'op_inherit: the class handed to Class::inherit is never a builtin value class (directly or through a boxed super)', {'class': k})
        if outcome == 'ok' and isinstance(s, EnumV) and s.variant_name() == 'Ok':
            e.check(len(inh) == 1, 'op_inherit: a successful inherit links exactly one superclass')
            is_class = sup.is_kind(P, 'Class')
            for k in VALUE_CLASSES:
                key = W.field_key('vm::Vm', ['builtin', 'primitives', k]) + '.id'
                cid = z3.BitVec(key, 64)
                e.check(z3.Implies(is_class, sup.obj.id != cid),
                        f'op_inherit: a builtin value class is never accepted as a superclass (its natives cast the receiver unchecked)', {'class': k})
        return {'outcome': outcome, 'signal': s.variant_name() if isinstance(s, EnumV) else None}
    results = e.explore(path)
    for r in results:
        if r.kind in ('oob', 'unreachable', 'ub', 'diverge', 'depth'):
            res.fail(f'C16.K3:op_inherit:{r.kind}', f'op_inherit: path ends in {r.kind}: {str(r.info)[:200]}', {'path': str(r.info)})
    summarize_paths(res, e, results, lambda r: r.info if isinstance(r.info, dict) else None, key_prefix='C16.K3:', unwind_ok=False)
    for fd in res.findings:
        if 'never accepted as a superclass' in fd.key:
            fd.replay = F14_REPLAY
        if 'its own superclass' in fd.key:
            fd.replay = F64_REPLAY


@obligation('C16.K1.signature_gate', 'C16', programs=('core',))
def k1_signature(res, tier):
    """Native::check_if_valid_call (the gate in front of every native) for every arity form, any parameter kinds and any arguments:
    the call is let through exactly when the argument count fits the arity and every argument was tested against its own
    parameter's kind (fixed parameters by position, all remaining arguments against the variadic parameter)"""
    P = get_program('core')
    maxa = 3 if tier == 'quick' else 4
    e = Engine(P, loop_bound=maxa + 3, timeout_s=240, max_depth=50)
    from .vmabs import VmWorld as _VW
    _VW(e, P)
    res.bounds = {'arguments': f'0..{maxa}', 'parameters': f'as the arity requires, <= {maxa + 1}', 'arity': 'Fixed / Variadic / Default with any counts'}
    res.assumptions = ['the signature is well formed: it has exactly the parameters its arity requires (SignatureBuilder::to_sig)',
                       'ParameterKind::is_valid is summarised per (parameter, argument) pair; its table is exercised by the natives\' own tests']
    f = P.lookup('Native::check_if_valid_call')
    ar = P.enum_def('laythe_core::signature::Arity')
    RES = P.enum_def('Result')
    import re

    def m_is_valid(e_, a, c):
        k = a[0]
        while isinstance(k, Ref):
            k = k.cell.get(e_)
        v = a[1]
        pi = re.search(r'param(\d+)_kind', str(k.tag))
        aj = re.search(r'arg(\d+)', str(v.tag) if isinstance(v, EnumV) else str(v))
        if not pi or not aj:
            raise Unsupported(f'is_valid on untracked operands {k!r} {v!r}')
        i, j = int(pi.group(1)), int(aj.group(1))
        e_.path_state['tested'].append((i, j))
        kt = k.tag if not isinstance(k.tag, int) else bv(k.tag, 64)
        e_.add_constraint(z3.Implies(kt == pk.vindex['Object'], z3.Bool(f'valid_p{i}_a{j}')))      # Object accepts every value
        return e_.fork_bool(z3.Bool(f'valid_p{i}_a{j}'))
    e.model(r'^(laythe_core::)?(signature::)?ParameterKind::is_valid$', m_is_valid)
    e.model(r'^<.* as (std::ops::|core::ops::)?FnOnce(<.*>)?>::call_once$', lambda e_, a, c: Opaque('GcHooks', 'hooks'))
    e.model(r'^(laythe_core::)?(hooks::)?GcHooks::manage_str$', lambda e_, a, c: Opaque('LyStr', 'message'))
    e.model(r'^(laythe_core::)?(object::)?(native::)?Native::(name|real_arg_count|is_method)$',
            lambda e_, a, c: e_.fresh(c.dest_ty, e_.fresh_name('n')) if c.dest_ty else UNIT)
    e.allow_havoc(r'^(std|alloc|core)::fmt::', r'^format$', r'Arguments::', r'^must_use$', r'^<.*ParameterKind as .*From.*>::from$',
                  r'^<.* as (std::string::|alloc::string::)?ToString>::to_string$')
    nat_sd = P.struct_def('laythe_core::object::Native')
    meta_sd = P.struct_def('laythe_core::object::native::NativeMeta') or P.struct_def('NativeMeta')
    sig_sd = P.struct_def('laythe_core::signature::NativeSignature') or P.struct_def('NativeSignature')
    par_sd = P.struct_def('laythe_core::signature::Parameter') or P.struct_def('Parameter')
    pk = P.enum_def('laythe_core::signature::ParameterKind')

    def path(e):
        e.path_state['tested'] = []
        nv = z3.BitVec('n_args', 64)
        e.add_constraint(z3.ULE(nv, maxa))
        n = e.concretize(nv, list(range(maxa + 1)))
        av = z3.BitVec('arity_form', 64)
        e.add_constraint(z3.ULT(av, len(ar.variants)))
        form = ar.variants[e.concretize(av, list(range(len(ar.variants))))][0]
        a1 = z3.BitVec('arity_a', 8)
        a2 = z3.BitVec('arity_b', 8)
        if form == 'Fixed':
            e.add_constraint(z3.ULE(a1, maxa))
            need = e.concretize(z3.ZeroExt(56, a1), list(range(maxa + 1)))
            arity = EnumV('Arity', ar.vindex['Fixed'], {'Fixed': {0: Cell(bv(need, 8))}}, None, ar)
            npar, fixed, hasvar, ok_count = need, need, False, (n == need)
        elif form == 'Variadic':
            e.add_constraint(z3.ULE(a1, maxa))
            need = e.concretize(z3.ZeroExt(56, a1), list(range(maxa + 1)))
            arity = EnumV('Arity', ar.vindex['Variadic'], {'Variadic': {0: Cell(bv(need, 8))}}, None, ar)
            npar, fixed, hasvar, ok_count = need + 1, need, True, (n >= need)
        else:
            e.add_constraint(z3.And(z3.ULE(a1, a2), z3.ULE(a2, maxa)))
            lo = e.concretize(z3.ZeroExt(56, a1), list(range(maxa + 1)))
            hi = e.concretize(z3.ZeroExt(56, a2), list(range(maxa + 1)))
            arity = EnumV('Arity', ar.vindex['Default'], {'Default': {0: Cell(bv(lo, 8)), 1: Cell(bv(hi, 8))}}, None, ar)
            npar, fixed, hasvar, ok_count = hi, hi, False, (lo <= n <= hi)
        params = []
        for i in range(npar):
            p = Struct('laythe_core::signature::Parameter', {}, None)
            p.f[par_sd.index_of('name')] = Cell(Opaque('LyStr', f'pname{i}'))
            kt = z3.BitVec(f'param{i}_kind', 64)
            e.add_constraint(z3.ULT(kt, len(pk.variants)))
            p.f[par_sd.index_of('kind')] = Cell(EnumV('laythe_core::signature::ParameterKind', kt, None, None, pk))
            params.append(Cell(p))
        pseq = ConcSeq('Parameter', params)
        sig = Struct('NativeSignature', {}, None)
        sig.f[sig_sd.index_of('arity')] = Cell(arity)
        sig.f[sig_sd.index_of('parameters')] = Cell(SliceRef(pseq, bv(0, 64), bv(npar, 64)))       # Box<[Parameter]>
        meta = e.fresh(meta_sd.name if '::' in meta_sd.name else 'laythe_core::object::native::NativeMeta', 'meta')
        meta.f[meta_sd.index_of('signature')] = Cell(sig)
        nat = Struct('laythe_core::object::Native', {}, None)
        nat.f[nat_sd.index_of('meta')] = Cell(meta)
        args = ConcSeq('Value', [Cell(e.fresh('laythe_core::value::Value', f'arg{j}')) for j in range(n)])
        r = e.call(f, [Ref(Cell(nat)), Opaque('F', 'hooks_gen'), SliceRef(args, bv(0, 64), bv(n, 64))])
        ok = isinstance(r, EnumV) and r.tag == 0
        want_pairs = []
        if ok_count:
            for j in range(n):
                want_pairs.append((j if j < fixed else fixed, j))
        all_valid = z3.And(*[z3.Bool(f'valid_p{i}_a{j}') for i, j in want_pairs]) if want_pairs else z3.BoolVal(True)
        # a parameter of kind Object accepts every value (whether or not the implementation bothers to test it)
        all_valid_spec = z3.And(*[z3.Or(z3.Bool(f'valid_p{i}_a{j}'), z3.BitVec(f'param{i}_kind', 64) == pk.vindex['Object']) for i, j in want_pairs]) if want_pairs else z3.BoolVal(True)
        e.check(z3.BoolVal(ok) == z3.And(z3.BoolVal(bool(ok_count)), all_valid_spec),
                'signature gate: a native is entered exactly when the count fits its arity and every argument passed the test of its own parameter',
                {'form': form, 'args': n, 'params': npar, 'tested': str(e.path_state['tested'])})
        if ok:
            tested = set(e.path_state['tested'])
            for (i, j) in want_pairs:
                e.check(z3.Or(z3.BoolVal((i, j) in tested), z3.BitVec(f'param{i}_kind', 64) == pk.vindex['Object']), 'signature gate: every argument of an accepted call was tested against the kind of its own parameter', {'form': form, 'arg': j})
        return {'form': form, 'args': n, 'ok': ok}
    results = e.explore(path)
    for r in results:
        if r.kind in ('oob', 'unreachable', 'ub', 'diverge', 'depth', 'panic'):
            res.fail(f'C16.K1:signature:{r.kind}', f'check_if_valid_call: path ends in {r.kind}: {str(r.info)[:200]}', {'path': str(r.info)})
    summarize_paths(res, e, results, lambda r: r.info if isinstance(r.info, dict) else None, key_prefix='C16.K1:', unwind_ok=False)


@obligation('C16.K1.method_arity', 'C16', programs=('core',))
def k1_method_arity(res, tier):
    """SignatureBuilder::method_arity for every arity: the signature of a native method counts the receiver in every bound (so that
    the gate, which sees the receiver among the arguments, demands exactly as many explicit arguments as the native declares)"""
    P = get_program('core')
    e = Engine(P, loop_bound=4, timeout_s=60, max_depth=20)
    f = P.lookup('SignatureBuilder::method_arity')
    ar = P.enum_def('laythe_core::signature::Arity')
    sb = P.struct_def('laythe_core::signature::SignatureBuilder') or P.struct_def('SignatureBuilder')
    res.bounds = {'arity': 'Fixed / Variadic / Default with any counts below 255'}

    def path(e):
        av = z3.BitVec('arity_form', 64)
        e.add_constraint(z3.ULT(av, len(ar.variants)))
        k = e.concretize(av, list(range(len(ar.variants))))
        form = ar.variants[k][0]
        a, b = z3.BitVec('a', 8), z3.BitVec('b', 8)
        e.add_constraint(z3.And(z3.ULT(a, 255), z3.ULT(b, 255), z3.ULE(a, b)))
        pay = {0: Cell(a)} if form != 'Default' else {0: Cell(a), 1: Cell(b)}
        s = Struct('laythe_core::signature::SignatureBuilder', {}, None)
        s.f[sb.index_of('arity')] = Cell(EnumV('Arity', k, {form: pay}, None, ar))
        s.f[sb.index_of('parameters')] = Cell(Opaque('&[ParameterBuilder]', 'params'))
        r = e.call(f, [Ref(Cell(s))])
        e.check(isinstance(r, EnumV) and r.variant_name() == form, 'method_arity: the arity form is kept')
        if isinstance(r, EnumV) and r.variant_name() == form:
            e.check(r.field(e, form, 0, 'u8').get(e) == a + 1, 'method_arity: the receiver is counted in the (minimum) argument count')
            if form == 'Default':
                e.check(r.field(e, form, 1, 'u8').get(e) == b + 1, 'method_arity: the receiver is counted in the maximum argument count')
        return {'form': form}
    results = e.explore(path)
    for r in results:
        if r.kind in ('oob', 'unreachable', 'ub', 'diverge', 'depth', 'panic'):
            res.fail(f'C16.K1:method_arity:{r.kind}', f'method_arity: path ends in {r.kind}: {str(r.info)[:200]}', {'path': str(r.info)})
    summarize_paths(res, e, results, lambda r: r.info if isinstance(r.info, dict) else None, key_prefix='C16.K1:', unwind_ok=False)


F23_REPLAY = dict(kind='lay', source='let c = chan(1e300);\nprint("ok");\n', bad_exit=[101, 134, -6], note='chan(n) with a huge n')


@obligation('C16.K3.chan_capacity', 'C16', programs=('vm',))
def k3_chan_capacity(res, tier):
    """op_buffered_channel for any value as capacity: a runtime error or a channel, never a host panic. VecDeque::with_capacity is
    modelled with its real precondition (it panics with "capacity overflow" when the requested capacity times the element size
    exceeds isize::MAX)"""
    P = get_program('vm')
    e = Engine(P, loop_bound=5, timeout_s=120, max_depth=60)
    W = VmWorld(e, P)
    W.havoc_objects(e)
    W.summarise_calls(e)
    import re as _re
    e.havoc = [_re.compile(rx.pattern.replace('|Channel|', '|')) if '|Channel|' in rx.pattern else rx for rx in e.havoc]
    e.havoc = [rx for rx in e.havoc if 'VecDeque' not in rx.pattern]
    f = P.lookup('vm::Vm::op_buffered_channel')
    vsz = P.layout('Value')[0]
    res.bounds = {'capacity operand': 'any value (every f64 included)'}
    res.assumptions = ['an allocation the host cannot satisfy (handle_alloc_error) is an environment failure; only the arithmetic precondition of the allocation is checked',
                       'the operand is neither undefined nor a box (C02.K1: those never become operands)']

    prev = e.find_model('VecDeque::with_capacity')

    def m_with_capacity(e_, a, c):
        n = a[0]
        if not e_.fork_bool(z3.ULE(z3.ZeroExt(64, n) * vsz, (1 << 63) - 1)):
            raise PathEnd('panic', ('VecDeque::with_capacity: capacity overflow', str(n)))
        e_.path_state['events'].append(('prealloc', n))
        if prev is None:
            raise Unsupported('no model of VecDeque::with_capacity to defer to')
        return prev[0](e_, a, c)
    e.model(r'^(std::collections::)?(vec_deque::)?VecDeque::with_capacity$', m_with_capacity)
    from .c01 import END_KINDS

    def path(e):
        st = W.fresh_state(e)
        e.add_constraint(z3.UGE(st.sp, st.fb + 1))
        from .c01 import ValView
        op = ValView(e, P, W.stack_at(e, z3.simplify(st.sp - 1)))
        e.add_constraint(z3.Not(op.is_undef))                       # undefined values and boxes are never operands (C02.K1)
        e.add_constraint(z3.Not(op.is_kind(P, 'LyBox')))
        outcome, s = 'ok', None
        try:
            s = e.call(f, [Ref(st.vm_cell)])
        except PathEnd as pe:
            if pe.kind not in END_KINDS:
                raise
            outcome = pe.kind
        e.check(outcome in ('ok', 'vm_error'), 'chan(n): answers with a channel or a runtime error')
        return {'outcome': outcome}
    results = e.explore(path)
    for r in results:
        if r.kind in ('oob', 'unreachable', 'ub', 'diverge', 'depth', 'panic'):
            why = 'capacity_overflow' if 'capacity overflow' in str(r.info) else r.kind
            res.fail(f'C16.K3:chan:{why}', f'op_buffered_channel: path ends in {r.kind}: {str(r.info)[:200]}', {'path': str(r.info)},
                     replay=F23_REPLAY if why == 'capacity_overflow' else None)
    summarize_paths(res, e, results, lambda r: r.info if isinstance(r.info, dict) else None, key_prefix='C16.K3:chan:', unwind_ok=False)
