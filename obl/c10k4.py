"""C10.K4 — what `Fiber::scan_roots` rewrites.

After a list has moved, the references that still hold its old address are rewritten by one walk over the fiber's stack:
a stack slot holding a forwarded list is replaced by the address it forwards to, and the elements ONE level below every slot (the
elements of a list / tuple / instance on the stack) get the same treatment.  This is all the rewriting there is (deeper aliases are
the known finding F7), so the obligation pins exactly that much: the real `Fiber::scan_roots` runs from MIR on a stack of one slot
holding any value, with the forwarding relation as uninterpreted functions and the element rows of containers as symbolic rows."""
import z3
from vfw.core import obligation, get_program, summarize_paths
from mirsym.engine import Engine
from mirsym.values import *
from mirsym.tys import *
from .vmabs import VmWorld, AbsObj, AbsArr, AbsUVec, kind_of, object_of
from .c01 import VALUE, ValView

BV64 = z3.BitVecSort(64)
is_fwd = z3.Function('list_is_forwarded', BV64, z3.BoolSort())
fwd_to = z3.Function('list_forwards_to', BV64, BV64)


@obligation('C10.K4.scan_roots_one_level', 'C10', programs=('vm',))
def k4_scan_roots(res, tier):
    """Fiber::scan_roots from MIR, one stack slot holding any value, containers with 0..2 elements: a slot holding a forwarded list
    is rewritten to the list it forwards to; every element of the list (read through the forwarding, i.e. the live elements), tuple
    or instance in the slot that is itself a forwarded list is rewritten too; nothing else changes"""
    P = get_program('vm')
    e = Engine(P, loop_bound=4, timeout_s=240, max_depth=60)
    W = VmWorld(e, P)
    W.havoc_objects(e)
    okind = P.enum_def('laythe_core::object::ObjectKind')
    K = okind.vindex
    ll = P.enum_def('laythe_core::object::ListLocation') or P.enum_def('ListLocation')
    f = P.lookup('fiber::Fiber::scan_roots')
    if f is None or ll is None:
        res.inconclusive('Fiber::scan_roots / ListLocation not located')
        return
    res.bounds = {'stack slots': 1, 'elements per container': '0..2', 'forwarding': 'one hop (the walk follows one hop: deeper chains are the known finding F7)',
                  'slot kinds': 'list, tuple, instance, any non-container value (maps: not encoded)'}
    res.assumptions = ['dereferencing a list reaches the elements of the block it forwards to (C11.K1: aliases through forwardings read the live elements)']

    def live(e_, oid):
        return z3.If(is_fwd(oid), fwd_to(oid), oid)

    def m_state(e_, a, c):
        o = object_of(e_, a[0])
        if e_.fork_bool(is_fwd(o.id)):
            return EnumV(ll.name, ll.vindex['Forwarded'], {'Forwarded': {0: Cell(AbsObj(z3.simplify(fwd_to(o.id)), 'List'))}}, None, ll)
        return EnumV(ll.name, ll.vindex['Here'], {'Here': {0: Cell(z3.BitVec(e_.fresh_name('cap'), 64))}}, None, ll)
    e.model(r'^(laythe_core::)?(object::)?(list::)?List::state$', m_state)

    def m_deref(e_, a, c):
        o = object_of(e_, a[0])
        rid = z3.simplify(live(e_, o.id)) if 'List' in c.norm else o.id
        row = AbsArr(rid, VALUE).seq(e_)
        e_.add_constraint(z3.ULE(row.len, 2))
        e_.path_state.setdefault('rows', {})[str(rid)] = (rid, row)
        return SliceRef(row, bv(0, 64), row.len)
    e.model(r'^<(laythe_core::)?(object::)?(\w+::)*(List|Tuple|Instance) as (std::ops::|core::ops::)?Deref(Mut)?>::deref(_mut)?$', m_deref)
    fib_sd = P.struct_def('fiber::Fiber')
    ix = {n: i for i, (n, _) in enumerate(fib_sd.fields)}

    def path(e):
        fiber = e.fresh('fiber::Fiber', 'fiber')
        v = e.fresh(VALUE, 'slot')
        vw = ValView(e, P, v)
        e.add_constraint(z3.Not(vw.is_undef))
        # maps are walked through the hash table iterator: outside this obligation
        e.add_constraint(z3.Implies(vw.is_obj, kind_of(vw.obj.id) != K['Map']))
        # the forwarding relation: only lists forward, to another list
        x = z3.BitVec('any_object', 64)
        e.add_constraint(z3.ForAll([x], z3.Implies(is_fwd(x), z3.And(kind_of(x) == K['List'], kind_of(fwd_to(x)) == K['List'], z3.Not(is_fwd(fwd_to(x))), fwd_to(x) != x))))
        cell = Cell(v)
        fiber.f[ix['stack']] = Cell(AbsUVec(ConcSeq(VALUE, [cell]), bv(1, 64)))
        slot_id = vw.obj.id
        is_list = z3.And(vw.is_obj, kind_of(slot_id) == K['List'])
        is_cont = z3.And(vw.is_obj, z3.Or(kind_of(slot_id) == K['List'], kind_of(slot_id) == K['Tuple'], kind_of(slot_id) == K['Instance']))
        row_id = z3.If(is_list, live(e, slot_id), slot_id)
        row0 = AbsArr(z3.simplify(row_id), VALUE).seq(e)
        e.add_constraint(z3.ULE(row0.len, 2))
        n0 = row0.len
        before = [ValView(e, P, row0.load(e, bv(i, 64))) for i in range(2)]
        bt = [(b.is_obj, b.obj.id, b.tag) for b in before]
        e.call(f, [Ref(Cell(fiber))])
        after = ValView(e, P, cell.get(e))
        e.check(z3.Implies(z3.And(is_list, is_fwd(slot_id)), z3.And(after.is_obj, after.obj.id == fwd_to(slot_id))),
                'a stack slot holding a forwarded list is rewritten to the list it forwards to')
        e.check(z3.Implies(z3.Not(z3.And(is_list, is_fwd(slot_id))), z3.And(after.tag == vw.tag, z3.Implies(vw.is_obj, after.obj.id == slot_id))),
                'every other stack slot keeps its value')
        row1 = AbsArr(z3.simplify(row_id), VALUE).seq(e)
        for i in range(2):
            isobj, oid, tag = bt[i]
            a = ValView(e, P, row1.load(e, bv(i, 64)))
            stale = z3.And(isobj, kind_of(oid) == K['List'], is_fwd(oid))
            inrow = z3.And(is_cont, z3.UGT(n0, i))
            e.check(z3.Implies(z3.And(inrow, stale), z3.And(a.is_obj, a.obj.id == fwd_to(oid))),
                    'an element of the container in the slot that is a forwarded list is rewritten (for a list: the live elements, also when the slot itself was stale)',
                    {'element': i})
            e.check(z3.Implies(z3.And(inrow, z3.Not(stale)), z3.And(a.tag == tag, z3.Implies(isobj, a.obj.id == oid))), 'other elements keep their value', {'element': i})
        return {'fn': 'scan_roots'}
    results = e.explore(path)
    for r in results:
        if r.kind in ('panic', 'oob', 'unreachable', 'ub', 'diverge', 'depth'):
            res.fail(f'C10.K4:scan_roots:{r.kind}', f'scan_roots: path ends in {r.kind}: {str(r.info)[:200]}', {'path': str(r.info)})
    summarize_paths(res, e, results, lambda r: r.info if isinstance(r.info, dict) else None, key_prefix='C10.K4:', unwind_ok=True)
