"""C17.K3 — the module's symbol table and export table (laythe_core/src/module/mod.rs), one inductive step per operation from an
arbitrary module that satisfies the representation invariant:

  I1  symbols_by_name maps pairwise distinct names to pairwise distinct slots, every slot < symbols.len()
  I2  every exported name is a key of symbols_by_name

The properties decided: a symbol is visible to importers iff it was exported; an export hands out the value stored in the slot of
that very name; failed operations leave the tables as they were (so the invariant survives them)."""
import z3
from vfw.core import obligation, get_program, summarize_paths
from mirsym.engine import Engine
from mirsym.values import *
from mirsym.tys import *
from .vmabs import VmWorld, AbsObj, AbsUVec, kind_of
from .c03 import _class_world, _deep, _opt_flat, VALUE
from .c07 import _flat

MODULE = 'laythe_core::module::Module'


def _world(P, MB):
    e = _class_world(P, MB)
    # the class behind module_class: add_field is an event (C03.K1 decides the class tables themselves)
    e.model(r'^(laythe_core::)?(object::)?(class::)?Class::add_field$',
            lambda e_, a, c: (e_.path_state.setdefault('add_field', []).append(a[-1]), e_.fresh('std::option::Option<u16>', 'af'))[1])

    def m_set_field(e_, a, c):
        e_.path_state.setdefault('set_field', []).append((a[1], a[2]))
        return True
    e.model(r'^(laythe_core::)?(object::)?(instance::)?Instance::set_field$', m_set_field)

    def m_manage_obj(e_, a, c):
        k = len(e_.path_state.setdefault('managed', []))
        e_.path_state['managed'].append(a[-1])
        return AbsObj(z3.BitVec(f'new_instance{k}', 64), 'Instance')
    e.model(r'^(laythe_core::)?(hooks::)?GcHooks::manage_obj$', m_manage_obj)
    e.model(r'^(laythe_core::)?(hooks::)?GcHooks::(push_root|pop_roots)$', lambda e_, a, c: UNIT)
    return e


def _str_name(e, P, nm):
    s = AbsObj(z3.BitVec(nm, 64), 'LyStr')
    e.add_constraint(kind_of(s.id) == P.enum_def('laythe_core::object::ObjectKind').vindex['String'])
    return s


def _fresh_module(e, P, MB, nm='module'):
    """an arbitrary module satisfying I1 and I2 with at most MB symbols; returns (module, cell, ix, by_name entries, exports entries, symbols)"""
    e.path_state['map_bound'] = MB
    e.path_state.setdefault('events', [])
    m = e.fresh(MODULE, nm)
    sd = P.struct_def(MODULE)
    ix = {n: i for i, (n, _) in enumerate(sd.fields)}
    # Map<K, V> is a newtype around hashbrown::HashMap<K, V, FnvBuildHasher>
    by_name = e.materialise('hashbrown::HashMap<LyStr, usize>', NameBacking(nm + '.symbols_by_name'))
    m.f[ix['symbols_by_name']] = Cell(Struct('laythe_core::object::map::Map<LyStr, usize>', {0: Cell(by_name)}, None))
    # LyHashSet<K> is an alias of hashbrown::HashSet<K, FnvBuildHasher>
    exports = e.materialise('hashbrown::HashSet<LyStr>', NameBacking(nm + '.exports'))
    m.f[ix['exports']] = Cell(exports)
    n = len(by_name.entries)
    S = ('String',)
    for k, _ in by_name.entries + exports.entries:
        e.add_constraint(kind_of(k.id) == P.enum_def('laythe_core::object::ObjectKind').vindex['String'])
    slots = [c.get(e) for _, c in by_name.entries]
    for i, x in enumerate(slots):
        e.add_constraint(z3.ULT(x, n))                       # I1: a numbering 0..n-1 (insert_symbol: slot = symbols.len())
        for y in slots[:i]:
            e.add_constraint(x != y)
    for k, _ in exports.entries:                             # I2
        e.add_constraint(z3.Or(*[k.id == k2.id for k2, _ in by_name.entries]) if by_name.entries else z3.BoolVal(False))
    mc = m.field(e, ix['module_class'], sd.fields[ix['module_class']][1]).get(e)
    e.path_state.setdefault('objects', {})[mc.id.sexpr()] = Cell(e.fresh('laythe_core::object::class::Class', nm + '.class'))
    cap = z3.BitVec(nm + '.symcap', 64)
    e.add_constraint(z3.And(z3.UGE(cap, n), z3.ULT(cap, 1 << 20)))
    buf = e.fresh_seq(VALUE, NameBacking(nm + '.symbols'), cap)
    symbols = AbsUVec(buf, bv(n, 64))
    m.f[ix['symbols']] = Cell(symbols)
    return m, Cell(m), ix, by_name, exports, symbols


def _deep_map(e, v):
    """Map<K, V> / LyHashSet are newtypes or aliases around the hash map"""
    for _ in range(3):
        if isinstance(v, e.MapV):
            return v
        if isinstance(v, Struct):
            sd = e.P.struct_def(v.ty)
            v = v.field(e, 0, sd.fields[0][1]).get(e)
        else:
            break
    if not isinstance(v, e.MapV):
        raise Unsupported('map field is ' + type(v).__name__)
    return v


def _snapshot(e, by_name, exports, symbols):
    return ([(k, c.get(e)) for k, c in by_name.entries], [k for k, _ in exports.entries], symbols.len,
            [_flat(e, symbols.seq.load(e, c.get(e))) for _, c in by_name.entries])      # the value stored for each NAME


def _same_tables(e, snap, by_name, exports, symbols, what):
    ents, exps, ln, vals = snap
    e.check(len(by_name.entries) == len(ents) and all(k is k2 for (k, _), (k2, _) in zip(ents, by_name.entries)), f'{what}: the set of symbol names is unchanged')
    for (k, s0), (_, c) in zip(ents, by_name.entries):
        e.check(c.get(e) == s0, f'{what}: every name keeps its slot', {'name': str(k.id)})
    e.check(len(exports.entries) == len(exps), f'{what}: the export table is unchanged')
    e.check(symbols.len == ln, f'{what}: the number of slots is unchanged')
    for (k, s0), v0 in zip(ents, vals):
        v1 = _flat(e, symbols.seq.load(e, s0))
        e.check(z3.And(*[x == y for x, y in zip(v1, v0)]), f'{what}: the stored values are unchanged')


def _finish(res, e, rs, what):
    for r in rs:
        if r.kind in ('panic', 'oob', 'unreachable', 'ub', 'diverge', 'depth'):
            res.fail(f'C17.K3:{what}:{r.kind}', f'{what}: path ends in {r.kind}: {str(r.info)[:200]}', {'path': str(r.info)})
    summarize_paths(res, e, rs, lambda r: r.info if isinstance(r.info, dict) else None, key_prefix=f'C17.K3:{what}:', unwind_ok=False)


def _variant(r):
    return r.variant_name() if isinstance(r, EnumV) and isinstance(r.tag, int) else None


@obligation('C17.K3.insert_symbol', 'C17', programs=('core',), also=('C19',))
def k3_insert_symbol(res, tier):
    """Module::insert_symbol(name, value) followed by get_symbol_by_name on every name: a new name gets the next slot and its value,
    every other name keeps slot and value; a name that already exists is refused AND the table still answers for it (the
    representation invariant survives the refusal)"""
    P = get_program('core')
    MB = 2 if tier == 'quick' else 3
    res.bounds = {'symbols in the module': f'<= {MB}', 'names': 'symbolic interned strings', 'values': 'any'}
    res.assumptions = ['hash maps are association lists with distinct keys', 'names are interned strings (C09)', 'the symbol vector has room or grows (UniqueVector::push_with_hooks modelled)']
    fins = P.lookup('Module::insert_symbol')
    fget = P.lookup('Module::get_symbol_by_name')
    e = _world(P, MB)

    def path(e):
        m, cell, ix, by_name, exports, symbols = _fresh_module(e, P, MB)
        snap = _snapshot(e, by_name, exports, symbols)
        name = _str_name(e, P, 'newname')
        val = e.fresh(VALUE, 'val')
        hooks = Ref(Cell(Opaque('GcHooks', 'hooks')))
        r = e.call(fins, [Ref(cell), hooks, name, e.copy_value(val)])
        ok = _variant(r) == 'Ok'
        known = [k for k, _ in snap[0]]
        if ok:
            slot = r.field(e, 'Ok', 0, 'usize').get(e)
            e.check(z3.And(*[k.id != name.id for k in known]) if known else z3.BoolVal(True), 'insert_symbol: accepted only for a name that is not declared yet')
            e.check(slot == snap[2], 'insert_symbol: the new symbol gets the next slot')
            e.check(symbols.len == snap[2] + 1, 'insert_symbol: exactly one slot is added')
            g = e.call(fget, [Ref(cell), name])
            t, got = _opt_flat(e, g)
            e.check(z3.And(t == 1, *[x == y for x, y in zip(got, _flat(e, val))]) if got else False, 'insert_symbol: the new name reads back the inserted value')
        else:
            e.check(z3.Or(*[k.id == name.id for k in known]) if known else z3.BoolVal(False), 'insert_symbol: refused only for a name that is already declared')
            e.check(symbols.len == snap[2], 'insert_symbol: a refused insert adds no slot')
        # every previously declared name still answers with its old value (also after a refusal)
        for (k, s0), v0 in zip(snap[0], snap[3]):
            g = e.call(fget, [Ref(cell), k])
            t, got = _opt_flat(e, g)
            e.check(z3.And(t == 1, *[x == y for x, y in zip(got, v0)]) if got else False,
                    'insert_symbol: every declared name still reads back its value' + ('' if ok else ' after a refused insert'))
        return {'fn': 'insert_symbol', 'symbols': len(known), 'accepted': ok}
    _finish(res, e, e.explore(path), 'insert_symbol')


@obligation('C17.K3.export_symbol', 'C17', programs=('core',))
def k3_export_symbol(res, tier):
    """Module::export_symbol(name) then get_exported_symbol_by_name on every name: only a declared, not yet exported name can be
    exported; afterwards exactly the old exports plus that name are visible to importers, each with the value of its own slot;
    a refused export changes nothing"""
    P = get_program('core')
    MB = 2 if tier == 'quick' else 3
    res.bounds = {'symbols in the module': f'<= {MB}', 'exports': f'<= {MB}', 'names': 'symbolic interned strings'}
    res.assumptions = ['hash maps/sets are association lists with distinct keys', 'names are interned strings (C09)', 'Class::add_field is an event (C03.K1)']
    fexp = P.lookup('Module::export_symbol')
    fgete = P.lookup('Module::get_exported_symbol_by_name')
    e = _world(P, MB)

    def path(e):
        m, cell, ix, by_name, exports, symbols = _fresh_module(e, P, MB)
        snap = _snapshot(e, by_name, exports, symbols)
        name = _str_name(e, P, 'expname')
        r = e.call(fexp, [Ref(cell), name])
        ok = _variant(r) == 'Ok'
        declared = z3.Or(*[k.id == name.id for k, _ in snap[0]]) if snap[0] else z3.BoolVal(False)
        exported0 = z3.Or(*[k.id == name.id for k in snap[1]]) if snap[1] else z3.BoolVal(False)
        if ok:
            e.check(z3.And(declared, z3.Not(exported0)), 'export_symbol: accepted only for a declared name that is not exported yet')
            af = e.path_state.get('add_field', [])
            e.check(len(af) == 1 and e.is_valid(_deep(e, af[0]).id == name.id), 'export_symbol: the module class gains exactly the exported name as a field')
        else:
            err = r.field(e, 'Err', 0, None).get(e)
            ev = err.variant_name() if isinstance(err, EnumV) and isinstance(err.tag, int) else None
            e.check(z3.Or(z3.Not(declared), exported0), 'export_symbol: refused only for an undeclared or already exported name')
            if ev == 'SymbolDoesNotExist':
                e.check(z3.Not(declared), 'export_symbol: SymbolDoesNotExist only for an undeclared name')
            e.check(not e.path_state.get('add_field'), 'export_symbol: a refused export does not touch the module class')
        # visibility afterwards, for every declared name and for the argument
        for (k, s0), v0 in zip(snap[0], snap[3]):
            g = e.call(fgete, [Ref(cell), k])
            t, got = _opt_flat(e, g)
            was = z3.Or(*[k.id == x.id for x in snap[1]]) if snap[1] else z3.BoolVal(False)
            vis = z3.Or(was, z3.And(k.id == name.id, z3.BoolVal(ok)))
            tt = t if not isinstance(t, int) else bv(t, 64)
            e.check((tt == 1) == vis, 'export_symbol: a name is visible to importers exactly when it was exported')
            if got:
                e.check(z3.Implies(tt == 1, z3.And(*[x == y for x, y in zip(got, v0)])), 'export_symbol: an exported name hands out the value of its own slot')
        return {'fn': 'export_symbol', 'symbols': len(snap[0]), 'exports': len(snap[1]), 'accepted': ok}
    _finish(res, e, e.explore(path), 'export_symbol')


@obligation('C17.K3.private_names', 'C17', programs=('core',))
def k3_private(res, tier):
    """Module::get_exported_symbol_by_name(name) for an arbitrary name: Some(v) exactly when the name is exported, and then v is the
    value in the slot of that name; an undeclared or private name yields None (the import error path), never a value"""
    P = get_program('core')
    MB = 2 if tier == 'quick' else 3
    res.bounds = {'symbols in the module': f'<= {MB}', 'exports': f'<= {MB}'}
    fgete = P.lookup('Module::get_exported_symbol_by_name')
    e = _world(P, MB)

    def path(e):
        m, cell, ix, by_name, exports, symbols = _fresh_module(e, P, MB)
        snap = _snapshot(e, by_name, exports, symbols)
        name = _str_name(e, P, 'askname')
        g = e.call(fgete, [Ref(cell), name])
        t, got = _opt_flat(e, g)
        tt = t if not isinstance(t, int) else bv(t, 64)
        exported = z3.Or(*[k.id == name.id for k in snap[1]]) if snap[1] else z3.BoolVal(False)
        e.check((tt == 1) == exported, 'get_exported_symbol_by_name: a value is handed out exactly for exported names')
        if got:
            for (k, s0), v0 in zip(snap[0], snap[3]):
                e.check(z3.Implies(z3.And(tt == 1, k.id == name.id), z3.And(*[x == y for x, y in zip(got, v0)])),
                        'get_exported_symbol_by_name: the value is the one stored for that very name')
        return {'fn': 'get_exported', 'symbols': len(snap[0]), 'exports': len(snap[1])}
    _finish(res, e, e.explore(path), 'private_names')


@obligation('C17.K3.module_instance', 'C17', programs=('core',))
def k3_module_instance(res, tier):
    """Module::module_instance: the import object is an instance of the module class whose fields are set exactly once per exported
    name, each to the value in the slot of that name; no private symbol is copied into it"""
    P = get_program('core')
    MB = 2 if tier == 'quick' else 3
    res.bounds = {'symbols in the module': f'<= {MB}', 'exports': f'<= {MB}'}
    res.assumptions = ['Instance::set_field is an event (C03 decides field addressing)']
    f = P.lookup('Module::module_instance')
    e = _world(P, MB)

    def path(e):
        m, cell, ix, by_name, exports, symbols = _fresh_module(e, P, MB)
        snap = _snapshot(e, by_name, exports, symbols)
        hooks = Ref(Cell(Opaque('GcHooks', 'hooks')))
        r = e.call(f, [Ref(cell), hooks])
        sets = e.path_state.get('set_field', [])
        e.check(len(sets) == len(snap[1]), 'module_instance: one field is set per export', {'sets': len(sets), 'exports': len(snap[1])})
        for (nm, val), exp in zip(sets, snap[1]):
            nm = _deep(e, nm)
            e.check(e.is_valid(nm.id == exp.id), 'module_instance: fields are set under the exported names')
            fv = _flat(e, val)
            for (k, s0), v0 in zip(snap[0], snap[3]):
                e.check(z3.Implies(k.id == exp.id, z3.And(*[x == y for x, y in zip(fv, v0)])), 'module_instance: an export carries the value in the slot of its own name')
        mg = e.path_state.get('managed', [])
        mc = m.f[ix['module_class']].get(e) if ix['module_class'] in m.f else None
        e.check(len(mg) == 1 and (mc is None or e.is_valid(_deep(e, mg[0]).id == mc.id)), 'module_instance: the import object is an instance of the module class')
        return {'fn': 'module_instance', 'symbols': len(snap[0]), 'exports': len(snap[1])}
    _finish(res, e, e.explore(path), 'module_instance')


@obligation('C17.K3.set_symbol', 'C17', programs=('core',))
def k3_set_symbol(res, tier):
    """Module::set_symbol_by_slot / set_symbol_by_name / get_symbol_by_slot: a store through a slot or a name changes exactly that
    symbol; an unknown slot or name is refused and changes nothing"""
    P = get_program('core')
    MB = 2 if tier == 'quick' else 3
    res.bounds = {'symbols in the module': f'<= {MB}'}
    fslot = P.lookup('Module::set_symbol_by_slot')
    fname = P.lookup('Module::set_symbol_by_name')
    fget = P.lookup('Module::get_symbol_by_name')
    fgets = P.lookup('Module::get_symbol_by_slot')
    e = _world(P, MB)

    def path(e):
        m, cell, ix, by_name, exports, symbols = _fresh_module(e, P, MB)
        snap = _snapshot(e, by_name, exports, symbols)
        val = e.fresh(VALUE, 'val')
        by_slot = e.fork_bool(z3.Bool('by_slot'))
        if by_slot:
            slot = z3.BitVec('slot', 64)
            r = e.call(fslot, [Ref(cell), slot, e.copy_value(val)])
            target = lambda k, s0: s0 == slot
            valid = z3.ULT(slot, snap[2])
        else:
            name = _str_name(e, P, 'setname')
            r = e.call(fname, [Ref(cell), name, e.copy_value(val)])
            target = lambda k, s0: k.id == name.id
            valid = z3.Or(*[k.id == name.id for k, _ in snap[0]]) if snap[0] else z3.BoolVal(False)
        ok = _variant(r) == 'Ok'
        e.check(valid if ok else z3.Not(valid), 'set_symbol: accepted exactly for an existing slot / declared name')
        for (k, s0), v0 in zip(snap[0], snap[3]):
            g = e.call(fget, [Ref(cell), k])
            t, got = _opt_flat(e, g)
            want_new = z3.And(z3.BoolVal(ok), target(k, s0))
            fv = _flat(e, val)
            e.check(z3.And(t == 1, *[z3.If(want_new, x == n, x == o) for x, n, o in zip(got, fv, v0)]) if got else False,
                    'set_symbol: exactly the addressed symbol changes')
            g2 = e.call(fgets, [Ref(cell), s0])
            t2, got2 = _opt_flat(e, g2)
            e.check(z3.And(t2 == 1, *[x == y for x, y in zip(got2, got)]) if got2 else False, 'get_symbol_by_slot: slot and name address the same symbol')
        e.check(symbols.len == snap[2], 'set_symbol: no slot is added or removed')
        return {'fn': 'set_symbol', 'by': 'slot' if by_slot else 'name', 'symbols': len(snap[0]), 'accepted': ok}
    _finish(res, e, e.explore(path), 'set_symbol')


# ---------------------------------------------------------------------------------------------- module tree walk
class _Node:
    def __init__(self, gid, struct, children):
        self.id, self.struct, self.children = gid, struct, children


def _module_tree(e, P, depth, fan, nm='root'):
    """a module whose `modules` table holds <= fan children per level down to `depth` levels (the last level has no children)"""
    sd = P.struct_def(MODULE)
    ix = {n: i for i, (n, _) in enumerate(sd.fields)}
    okind = P.enum_def('laythe_core::object::ObjectKind')
    from .vmabs import AbsGc
    gid = z3.BitVec(nm + '.gid', 64)
    m = e.fresh(MODULE, nm)
    children = []
    if depth > 0:
        nv = z3.BitVec(nm + '.nchildren', 64)
        e.add_constraint(z3.ULE(nv, fan))
        n = e.concretize(nv, list(range(fan + 1)))
        for i in range(n):
            k = _str_name(e, P, f'{nm}.key{i}')
            for k2, _ in children:
                e.add_constraint(k.id != k2.id)
            children.append((k, _module_tree(e, P, depth - 1, fan, f'{nm}.{i}')))
    ents = []
    for k, ch in children:
        g = AbsGc(ch.id, MODULE)
        e.memo[('gcdata', ch.id.sexpr(), norm_ty(MODULE))] = cell = Cell(ch.struct)
        e.memo[('cellobj', id(cell))] = g
        ents.append((k, Cell(g)))
    m.f[ix['modules']] = Cell(Struct('laythe_core::object::map::Map<LyStr, Ref<Module>>', {0: Cell(e.MapV(ents, 'LyStr', 'Ref<Module>'))}, None))
    return _Node(gid, m, children)


def _ref_walk(node, segs):
    """(found, module id) of following segs from node — the specification of Module::import for a non-empty path"""
    if not segs:
        return z3.BoolVal(True), node.id
    ok, rid = z3.BoolVal(False), bv(0, 64)
    for k, ch in node.children:
        o2, i2 = _ref_walk(ch, segs[1:])
        hit = k.id == segs[0].id
        ok, rid = z3.If(hit, o2, ok), z3.If(hit, i2, rid)
    return ok, rid


@obligation('C17.K3.import_path', 'C17', programs=('core',))
def k3_import_path(res, tier):
    """Module::import(path) over a module tree: the result is the module reached by following the path segment by segment through
    the `modules` tables; a missing segment anywhere gives ModuleDoesNotExist, an empty path MalformedPath — never another module"""
    P = get_program('core')
    DEPTH, FAN = (2, 2) if tier == 'quick' else (3, 2)
    res.bounds = {'tree depth': DEPTH, 'children per module': f'<= {FAN}', 'path segments': f'0..{DEPTH + 1}'}
    res.assumptions = ['hash maps are association lists with distinct keys', 'names are interned strings (C09)']
    f = P.lookup('Module::import')
    e = _world(P, FAN)
    from .vmabs import install_gc_refs, AbsGc
    install_gc_refs(e)

    def path(e):
        e.path_state.setdefault('events', [])
        root = _module_tree(e, P, DEPTH, FAN)
        nv = z3.BitVec('path_len', 64)
        e.add_constraint(z3.ULE(nv, DEPTH + 1))
        n = e.concretize(nv, list(range(DEPTH + 2)))
        segs = [_str_name(e, P, f'seg{i}') for i in range(n)]
        seq = ConcSeq('LyStr', [Cell(s) for s in segs])
        r = e.call(f, [Ref(Cell(root.struct)), SliceRef(seq, bv(0, 64), bv(n, 64))])
        v = _variant(r)
        if n == 0:
            err = r.field(e, 'Err', 0, None).get(e) if v == 'Err' else None
            e.check(v == 'Err' and err.variant_name() == 'MalformedPath', 'import: an empty path is malformed')
            return {'fn': 'import', 'segments': 0}
        ok, rid = _ref_walk(root, segs)
        if v == 'Ok':
            got = r.field(e, 'Ok', 0, None).get(e)
            e.check(isinstance(got, AbsGc), 'import: yields a module reference')
            e.check(z3.And(ok, got.id == rid), 'import: the module handed out is the one the path designates')
        else:
            err = r.field(e, 'Err', 0, None).get(e)
            e.check(z3.Not(ok), 'import: an error only when a segment of the path is missing')
            e.check(err.variant_name() == 'ModuleDoesNotExist', 'import: a missing segment is reported as ModuleDoesNotExist')
        return {'fn': 'import', 'segments': n, 'result': v}
    _finish(res, e, e.explore(path), 'import_path')
